"""C01 — every widget renders a canvas of exactly the size its container asked for."""
from __future__ import annotations

import copy
import os
import warnings

from hypothesis import strategies as st

import urwid
from urwid.widget.widget import WidgetWarning
from vlib import cells as C
from vlib import gen_text as T
from vlib import gen_widgets as G
from vlib import mut_widgets as MU
from vlib import widths as W
from vlib.runner import Discard, Violation, innermost_is_urwid

PROPERTY = "C01"
LEVEL = "exploration"
RULE = (
    "tree: Hypothesis widget-tree specs generated type-directed for a target sizing mode (leaves Text/Edit/"
    "IntEdit/Button/CheckBox/RadioButton/SelectableIcon/Divider/ProgressBar/SolidFill/BarGraph/BigText; "
    "decorations AttrMap/AttrWrap/Padding/Filler/LineBox/BoxAdapter/WidgetWrap/WidgetPlaceholder/WidgetDisable/"
    "PopUpLauncher/PopUpTarget/Scrollable/ScrollBar; containers Pile/Columns/GridFlow/Frame/Overlay/ListBox; "
    "texts with ASCII, double-width, combining, DEC line-drawing characters, str and bytes) x 3 encodings x "
    "EVERY mode the built widget reports in sizing() x sizes 1..40 x 1..20 (1 and 2 over-weighted) x both "
    "focus values; each (tree, mode, size, focus) is rendered cold and then once more at the root over the "
    "children's cached canvases while the first canvas is still referenced. Then a history of 1..3 mutations: "
    "the tree is rendered in every reported mode (canvases held, as a Screen holds what it drew), ONE public "
    "mutator of ONE node is called (vlib/mut_widgets.py: set_text / set_edit_text / set_label / set_state / "
    "set_data / align / wrap / width / focus / options / scroll position ..., exchange of a decoration's child, "
    "contents assign / insert / delete on Pile / Columns / GridFlow / ListBox / Frame / Overlay - each in one of the "
    "spellings urwid ships, current or deprecated-but-supported: original_widget= / w= / set_w / body= / set_body / "
    "box_widget= / _w= / _set_w, contents / widget_list / cells / item_types / column_types, header= / set_header / "
    "contents['header'], focus_position= / set_focus / focus_item= / focus_col= / set_focus_column / focus_cell=, "
    "method / writable property), new widgets generated type-directed for the slot they go to, and the tree is "
    "rendered again in every mode it now reports: the whole size contract is demanded of that rendering too. "
    "Non-trivial: tree of >= 2 levels, or its text has a wide / zero-width / DEC character, or a dimension "
    "is 1; distinct by hash of (spec, size, focus, encoding, mutation history)."
)
ASSUMPTIONS = [
    "wcwidth table + Python codecs are the width reference (vlib/widths.py)",
    "a tree during whose construction/rendering a container emits its own sizing warning (WidgetWarning) is "
    "mis-built and discarded, not a failure",
    "depth <= 4 / sizes <= 40x20 / histories of <= 3 mutations, new widgets of depth <= 1 (2 thorough) are cost bounds",
    "a mutation keeps the tree valid by the rules the generator builds by (a slot gets a widget of the sizing mode it "
    "needs, option values stay in the generator's ranges, margins and borders are not changed); a public setter that "
    "itself raises is outside this property (the case is discarded and counted as mutator-raised:<name>)",
    "rows() / pack() are computed with the canvas cache emptied after the rendering under test, so they are the "
    "widget's own calculation for its current state and not read back from a cached canvas",
]


def _size_for(mode, cols, rows):
    if mode == "box":
        return (cols, rows)
    if mode == "flow":
        return (cols,)
    return ()


def check_render(w, size, focus, mode_name, wmode, what=""):
    """the C01 oracle for one (widget, size, focus): a cold render (empty canvas cache) and then, with that
    canvas still referenced (as a Screen would hold it), a second render of the root alone over its
    children's cached canvases - composing a parent must not have altered what the children hand out."""
    urwid.CanvasCache.clear()
    if mode_name == "fixed":
        # a fixed widget with nothing to show packs to a zero-area size; Canvas does not support
        # zero-area content and containers skip such children -> outside the quantifier (sizes >= 1)
        if 0 in tuple(w.pack((), focus)):
            return None
        urwid.CanvasCache.clear()
    canv = w.render(size, focus)
    _validate(w, canv, size, focus, mode_name, wmode, what, cold=True)
    urwid.CanvasCache.invalidate(w)
    canv2 = w.render(size, focus)
    _validate(w, canv2, size, focus, mode_name, wmode, what + "[root re-rendered over cached children] ", cold=False)
    return canv


MAX_CELLS = 200_000  # largest canvas the harness examines cell by cell (sizes asked for are <= 40 x 20)


def _validate(w, canv, size, focus, mode_name, wmode, what, cold):
    cols, rows = canv.cols(), canv.rows()
    if mode_name == "box":
        if (cols, rows) != tuple(size):
            raise Violation("box-size", f"{what}render({size}, {focus}) gave a {cols}x{rows} canvas")
    elif mode_name == "flow":
        if cold:
            urwid.CanvasCache.clear()
        else:
            urwid.CanvasCache.invalidate(w)
        exp_rows = w.rows(size, focus)
        if cols != size[0]:
            raise Violation("flow-cols", f"{what}render({size}, {focus}) gave {cols} columns")
        if rows != exp_rows:
            raise Violation("flow-rows", f"{what}render({size}, {focus}) gave {rows} rows, rows() says {exp_rows}")
    else:
        if cold:
            urwid.CanvasCache.clear()
        else:
            urwid.CanvasCache.invalidate(w)
        exp = tuple(w.pack((), focus))
        if (cols, rows) != exp:
            raise Violation("fixed-size", f"{what}render((), {focus}) gave {cols}x{rows}, pack() says {exp}")
    if cols * rows > MAX_CELLS:
        # cost bound of the harness, not a verdict: nested relative widths of 1-2 % rendered FIXED ask for canvases of
        # 10**4..10**6 columns (each level multiplies by 100/percent); walking them cell by cell takes minutes
        raise Discard()
    if cols == 0 or rows == 0:
        # a fixed widget with nothing to show packs to a zero-area canvas: nothing to draw, and
        # Canvas.content() is not defined for it (containers skip such children) -> assert nothing more
        return canv
    content = list(canv.content())
    if len(content) != rows:
        raise Violation("content-rows", f"{what}content() yields {len(content)} rows, canvas rows() == {rows}")
    for y, row in enumerate(content):
        try:
            cells = C.row_of_runs(row, wmode)
        except C.GridError as e:
            raise Violation("row-cells", f"{what}row {y}: {e}") from None
        if len(cells) != cols:
            raise Violation("row-width", f"{what}size {size}: row {y} occupies {len(cells)} columns, canvas is {cols} wide: {row!r}")
        if cells and C.is_cont(cells[0]):
            raise Violation("row-width", f"{what}row {y} starts with half a character")
    cur = canv.cursor
    if cur is not None:
        x, y = cur
        if not (0 <= x < max(cols, 1) and 0 <= y < max(rows, 1)) or (cols == 0 or rows == 0):
            raise Violation("cursor-inside", f"{what}size {size}: cursor {cur} outside the {cols}x{rows} canvas")
    return canv


_CTX = None
# the spec describing the tree as it is now (after the mutations performed so far) of the case under evaluation:
# KNOWN predicates look at it as well, a known finding may sit in a part the history exchanged or changed
_EFFECTIVE = {"case": None, "spec": None}


def _count(label):
    if _CTX is not None and _CTX.failure is None:
        _CTX.count(label)


def _modes(w):
    return sorted(str(m.value if hasattr(m, "value") else m) for m in w.sizing())


def _render_all(w, cols, rows, focus):
    """one rendering for every mode the widget reports now: [(mode, size, canvas)]"""
    out = []
    for m in _modes(w):
        size = _size_for(m, cols, rows)
        if m == "fixed" and 0 in tuple(w.pack((), focus)):
            continue  # zero-area fixed widget: outside the quantifier, see check_render
        out.append((m, size, w.render(size, focus)))
    return out


def check_mutation(w, op, spec, slot, case, wmode, rec_sizes, log):
    """one step of the history: the tree as a screen shows it (every reported mode rendered, canvases held) ->
    one public mutator -> rendered again over whatever the canvas cache still offers -> the size contract again"""
    cols, rows, focus = case["cols"], case["rows"], case["focus"]
    urwid.CanvasCache.clear()
    held = _render_all(w, cols, rows, focus)
    try:
        done = MU.apply(op, spec, w, slot, case["enc"], rec_sizes)
    except MU.Ineffective as e:
        # the setter returned but did not install the widget it was given: what the tree is now is not what the
        # history says; the property (about renderings) is silent about setters -> counted, case dropped
        _count(f"mutator-ineffective:{str(e).split(':')[0]}")
        raise Discard() from None
    except Exception as e:
        if innermost_is_urwid(e):
            # the setter itself refused: not a rendering, the property is silent about it
            _count(f"mutator-raised:{getattr(e, 'mutator', '?')}:{type(e).__name__}")
            if os.environ.get("VERIF_C01_MUTATOR_ERRORS"):
                raise Violation(f"mutator-raised:{getattr(e, 'mutator', '?')}:{type(e).__name__}", f"{log} then {e!r}") from None
            raise Discard() from None
        raise
    if done is None:
        _count("op:not-applicable")
        return
    name, desc = done
    log.append(desc)
    _count(f"mut:{name}")
    what = f"[after {'; '.join(log)}] "
    shown = _render_all(w, cols, rows, focus)
    for m, size, canv in shown:
        _validate(w, canv, size, focus, m, wmode, f"[{m}] {what}", cold=True)
    return


def check_tree(case):
    """case: {"enc", "spec", "cols", "rows", "focus"[, "mode": the sizing mode the tree was generated for,
    "muts": [op, ...] (vlib/mut_widgets.py)]}"""
    enc = case["enc"]
    wmode = W.use_encoding(enc)
    spec = copy.deepcopy(case["spec"])
    _EFFECTIVE.update(case=case, spec=spec)
    muts = case.get("muts") or []
    log = []
    with warnings.catch_warnings(record=True) as rec:
        warnings.simplefilter("always")
        try:
            rec_sizes = []
            w = G.build(spec, enc, rec_sizes)
            try:
                for m in _modes(w):
                    size = _size_for(m, case["cols"], case["rows"])
                    check_render(w, size, case["focus"], m, wmode, what=f"[{m}] ")
                for op in muts:
                    check_mutation(w, op, spec, case["mode"], case, wmode, rec_sizes, log)
            except Discard:
                raise
            except Exception:
                # mis-built tree (a container warned about its sizing combination) or an outer size
                # with no room for the tree's own fixed margins/borders: outside the quantifier
                if any(issubclass(r.category, WidgetWarning) for r in rec) or G.starved(rec_sizes):
                    raise Discard() from None
                raise
        finally:
            urwid.CanvasCache.clear()
    if any(issubclass(r.category, WidgetWarning) for r in rec):
        raise Discard()


SUBS = {"tree": check_tree}

_dim_c = st.one_of(st.sampled_from([1, 1, 2, 2, 3]), st.integers(1, 12), st.integers(1, 40))
_dim_r = st.one_of(st.sampled_from([1, 1, 2, 3]), st.integers(1, 8), st.integers(1, 20))


def tree_cases(max_depth, max_ops=3, new_depth=1):
    def for_enc(enc):
        def for_mode(mode):
            return st.fixed_dictionaries(
                {
                    "enc": st.just(enc),
                    "mode": st.just(mode),
                    "spec": st.integers(0, max_depth).flatmap(lambda d: G.widget(mode, d, enc)),
                    "cols": _dim_c,
                    "rows": _dim_r,
                    "focus": st.booleans(),
                    "muts": MU.ops(enc, max_ops, new_depth),
                }
            )

        return st.sampled_from(["flow", "flow", "box", "box", "fixed"]).flatmap(for_mode)

    return st.sampled_from(T.ENCODINGS).flatmap(for_enc)


def _nontrivial(case):
    return G.depth(case["spec"]) >= 2 or T.interesting(G.all_text(case["spec"])) or case["cols"] == 1 or case["rows"] == 1


def _classes(case):
    spec = case["spec"]
    out = [f"enc:{case['enc']}", f"root:{spec['cls']}", f"depth:{G.depth(spec)}"]
    t = G.all_text(spec)
    if T.has_wide(t):
        out.append("text:wide")
    if T.has_zero(t):
        out.append("text:zero-width")
    if T.has_dec(t):
        out.append("text:dec")
    if case["cols"] == 1:
        out.append("cols=1")
    if case["rows"] == 1:
        out.append("rows=1")
    for s in G.walk(spec):
        out.append(f"has:{s['cls']}")
    muts = case.get("muts") or []
    out.append(f"history:{len(muts)}-ops")
    for op in muts:
        out.append(f"op:new-{op['mode']}-widget" if "new" in op else "op:value")
    return sorted(set(out))


def shard(ctx):
    global _CTX
    _CTX = ctx
    ctx.given("tree", tree_cases(ctx.scale(3, 4), 3, ctx.scale(1, 2)), ctx.scale(2000, 16000), nontrivial=_nontrivial, classify=_classes)


def _has(case, pred):
    """some widget of the case satisfies pred: in the tree as generated, among the new widgets its mutation history
    carries, or in the tree as the history had made it when the evaluation of this very case stopped"""
    specs = [case["spec"], *MU.op_specs(case.get("muts") or [])]
    if _EFFECTIVE["case"] is case:
        specs.append(_EFFECTIVE["spec"])
    return any(pred(s) for sp in specs for s in G.walk(sp))


KNOWN = {
    # ellipsis mark mis-measured outside UTF-8 (root cause in text_layout, see C03)
    "C01-ellipsis-nonutf8": lambda sub, case, v: case["enc"] != "utf-8"
    and v.clause in ("exception:CanvasError@canvas.py:__init__", "exception:ValueError@text_layout.py:__init__")
    and _has(case, lambda s: s.get("wrap") == "ellipsis"),
    # clip/ellipsis layout of a line whose first character does not fit (double-width at width 1) or that
    # holds only zero-width characters raises instead of giving an empty line (root cause in text_layout, see C03)
    "C01-clip-undisplayable": lambda sub, case, v: v.clause == "exception:ValueError@text_layout.py:__init__"
    and _has(case, lambda s: s.get("wrap") in ("clip", "ellipsis")),
    # Edit shifts a full last line left by one column to make room for the cursor; when that line ends in a
    # double-width character the shift cuts it in half and apply_text_layout raises
    "C01-edit-cursor-after-wide": lambda sub, case, v: v.clause == "exception:ValueError@text_layout.py:__init__"
    and _has(case, lambda s: s["cls"] == "Edit" and T.has_wide(s["text"] + T.markup_text(s["caption"]))),
    "C01-scrollbar-one-row": lambda sub, case, v: v.clause == "exception:WidgetError@widget/widget.py:validate_size"
    and _has(case, lambda s: s["cls"] == "ScrollBar"),
    # (LineBox holds its widget in a WEIGHT column of a Columns of its own and reports that widget's sizing)
    "C01-columns-fixed-overreported": lambda sub, case, v: v.clause
    == "exception:ColumnsError@widget/columns.py:_get_fixed_column_sizes"
    and _has(case, lambda s: s["cls"] in ("Columns", "LineBox")),
    "C01-padding-relative-fixed": lambda sub, case, v: v.clause == "fixed-size"
    and _has(case, lambda s: s["cls"] == "Padding" and isinstance(s["width"], list)),
    # calculate_bargraph_display builds a row wider than the graph for some two-segment data; Text then wraps it
    "C01-bargraph-row-too-long": lambda sub, case, v: v.clause == "exception:BarGraphError@widget/bar_graph.py:render"
    and "Invalid characters" in v.message
    and _has(case, lambda s: s["cls"] == "BarGraph" and any(len(b) > 1 and b[1] > 0 for b in s["data"])),
    "C01-trimmed-cursor": lambda sub, case, v: v.clause == "cursor-inside"
    and _has(case, lambda s: s["cls"] in ("Pile", "Overlay")),
    # the horizontal counterpart: Padding(width='clip') cuts the canvas on the right, the cursor stays where it was
    "C01-clipped-cursor": lambda sub, case, v: v.clause == "cursor-inside"
    and _has(case, lambda s: s["cls"] == "Padding" and s["width"] == "clip"),
}
