"""C02 — canvas composition is equivalent to operating on a plain grid of cells.

A case is an expression tree of canvas operations over a table of leaf canvases.  The tree is
evaluated twice: on grids (vlib.cells, the reference) — which also resolves every generated
"fraction" argument into a concrete offset that is valid for the operand's *model* size — and on
urwid canvases following the resolved plan.  After every node: cols(), rows(), every cell
(text, attr, cs), cursor and pop-up coordinates are compared.  At the end every canvas that was
handed to an operation as an operand (and not deliberately mutated in place) is compared with its
model again (operands unchanged).  Finalized canvases must refuse every mutator with CanvasError.
Delta clause: a second tree of the same size made from the first re-using the same leaf objects
(one sub-tree replaced and fitted to the size, or wrapped in an attribute remapping, or scrolled
inside its rectangle); ``new.content_delta(old)`` applied to grid(old) must give grid(new).
Encoding histories: a case may list several encodings ("stages"); everything above is then done under
each of them in turn in the same process - the case's own encoding and iso8859-1, under which the very
same leaf bytes are one cell per byte - so that anything remembered from a draw under one encoding
meets the same bytes under the other.
"""
from __future__ import annotations

import itertools

from hypothesis import strategies as st

import urwid
from urwid.canvas import (
    CanvasCombine,
    CanvasError,
    CanvasJoin,
    CanvasOverlay,
    CompositeCanvas,
    SolidCanvas,
    TextCanvas,
)
from vlib import cells as C
from vlib import widths as W
from vlib.runner import Discard, Violation

PROPERTY = "C02"
LEVEL = "exploration"
RULE = (
    "expr: Hypothesis expression trees (depth <=5 quick, <=8 thorough) over a table of 1-4 shared leaf canvases "
    "(TextCanvas 1-4 rows of 0-6 character clusters from an ASCII / double-width CJK / combining-mark alphabet, in "
    "utf-8 also multi-code-point sequences, one per kind that a terminal or a sequence-aware width function treats as "
    "one unit - emoji ZWJ sequence (wide U+200D wide; wide U+200D narrow VS16), narrow+VS16, wide+VS15, regional-"
    "indicator pair, base+skin-tone modifier, keycap, conjoining Hangul jamo, ZERO WIDTH SPACE - for which the canvas "
    "unit is the single code point; "
    "attribute and charset run lists cut at character boundaries and given in byte lengths, optionally not "
    "canonical / shorter than the text, optional maxcol padding, cursor, pop-up, finalized or not; SolidCanvas) "
    "with operators CanvasCombine, CanvasJoin (widths >= child), CanvasOverlay, CompositeCanvas(c), "
    "pad_trim_left_right, pad_trim_top_bottom, trim, trim_end, fill_attr_apply, fill_attr, set_cursor, set_pop_up, "
    "finalize; mutators either in place on a fresh composite or on a new CompositeCanvas wrapper; every offset is "
    "an integer mapped modulo the range that is defined for the operand's model size; six encodings covering every "
    "byte-encoding family set_encoding() declares (utf-8 weight 3; euc-jp, iso8859-1, big5, gbk, uhc weight 1 each; "
    "the Big5/GBK/UHC alphabets hold one double-width character per class of trail byte - 0x40, 0x7e, A-Z, a-z, 0x5c, "
    "0x80, 0x81-0xa0, 0xa1, 0xfe - and ASCII letters inside and outside the trail range 0x40-0x7e). 3/8 of the cases "
    "in a multi-byte encoding carry an encoding history (own>8bit>own, 8bit>own>8bit or own>8bit): the whole case is "
    "rebuilt and checked under each encoding in turn in the same process, '8bit' drawing the very same leaf bytes "
    "under iso8859-1 (one cell per byte); only the first switch of a case clears caches, the later ones are a plain "
    "urwid set_encoding(). About half of the cases carry a delta variant of the same size built on the same leaf "
    "objects: the sub-tree at a path replaced by a fresh sub-tree or by another sub-tree of the same tree (fitted to "
    "the size), nothing changed, remap (the sub-tree wrapped in a non-identity fill_attr / fill_attr_apply: same "
    "sub-canvases at the same places, only the attribute map of one part differs), or shift (the sub-tree scrolled "
    "inside its rectangle: k columns and/or rows trimmed on one side and padded on the opposite one); the delta is "
    "taken in both directions. trim1: "
    "exhaustive (left,right) trims of every 1-row TextCanvas over a 4-symbol alphabet (<=3 chars quick, <=5 "
    "thorough) with one attribute per character, in all six encodings, and over two more utf-8 alphabets made of the "
    "multi-code-point sequences (ZWJ pair, narrow+VS16, flag pair / modifier sequence, keycap, wide+VS15, mixed ZWJ; "
    "one attribute per sequence). trimseq: for every such text (encoding-named alphabets) of <=3 (thorough "
    "<=4) characters in the five multi-byte encodings, the histories own>8bit>own and 8bit>own>8bit, every "
    "(left,right) trim under each stage. Non-trivial (expr): >=2 operators and a trim/overlay edge that "
    "falls inside a double-width character or is applied to an operand made of several side-by-side or stacked "
    "sub-canvases; (trim1): the trim cuts a double-width character; (trimseq): some character takes more than one byte "
    "(the two readings of the bytes differ)."
)
ASSUMPTIONS = [
    "trusted base: the wcwidth table and Python codecs (vlib.widths), list slicing on cell grids (vlib.cells)",
    "the unit of a canvas column count is the code point: the width of a row is the sum of the wcwidth-table widths "
    "of its code points (what urwid.str_util documents: get_width(ordinal)), also inside emoji ZWJ / variation-"
    "selector / regional-indicator / modifier sequences that a terminal may draw as one glyph; a zero-width code "
    "point shares the cell of the nearest preceding code point that has a width",
    "generated characters are representable in the case's encoding and in the double-byte encodings (euc-jp, big5, "
    "gbk, uhc) their encoded length equals their column width; bytes are re-read under another encoding only in the "
    "direction multi-byte -> iso8859-1 (every byte string is valid 8-bit text, one column per byte; what invalid "
    "utf-8 / stray lead bytes look like is not asserted); urwid.set_encoding() may be called any number of times "
    "between draws and a canvas is built and drawn under one encoding; charset-tagged ('0'/'U') runs are ASCII; attribute/charset runs are cut at cell "
    "boundaries: no row or run starts with a zero-width character (a combining mark shares the cell, hence the "
    "attribute, of its base character; the attribute of a cell holding two is undefined)",
    "operations are only applied inside the ranges real callers use: Combine operands have equal width (narrower "
    "ones are first padded on the right), Join widths >= child width, the top of an overlay is a CompositeCanvas "
    "clipped to fit inside the bottom, trims leave >= 1 row / column, >= 1 operand",
    "cursor / pop-up coordinates: weak reading — compared only while the position is inside the canvas and has "
    "not been covered by an overlay and at most one operand supplies one; otherwise nothing is asserted about it",
    "content_delta row entries: an int n means 'the next n columns are unchanged from the old canvas'; a row that "
    "is a bare int is read as [int] (TextCanvas/SolidCanvas.content_delta(self) format)",
    "shortcuts and children lists are not checked",
]

# One or more encodings of every byte-encoding family urwid.set_encoding() declares: utf-8; the double-byte ("wide")
# encodings, both the EUC kind (lead and trail byte >= 0xa1) and the Big5 / GBK / UHC kind (trail byte may lie in the
# ASCII range 0x40..0x7e, or in 0x80..0xa0); 8-bit.
ENCODINGS = ["utf-8", "euc-jp", "iso8859-1", "big5", "gbk", "uhc"]
ENC_PICK = ("utf-8", "utf-8", "utf-8", "euc-jp", "iso8859-1", "big5", "gbk", "uhc")  # generator weights
NARROW = "iso8859-1"  # the 8-bit view used in encoding histories: every byte is one character cell

# Multi-code-point sequences (utf-8 only), one per kind of sequence Unicode defines whose code points a terminal or a
# sequence-aware width function may treat as ONE unit (UTS #51 emoji sequences, UAX #29 grapheme clusters).  For the
# canvas every code point counts by itself (urwid.str_util measures per ordinal: get_width(o)); the grid model does the
# same with the wcwidth table, so such a cluster is a row of ordinary wide / narrow cells with zero-width riders.
# Every function that measures, pads, trims or cuts a row has to agree on that unit.
SEQUENCES = [
    "\U0001f468\u200d\U0001f469",  # emoji ZWJ sequence: wide, U+200D (zero width), wide       2+0+2 columns
    "\U0001f3c3\u200d\u2640\ufe0f",  # ZWJ sequence with a narrow, VS16-qualified element          2+0+1+0
    "\u2764\ufe0f",  # narrow character + VARIATION SELECTOR-16 (emoji presentation)                  1+0
    "\u231a\ufe0e",  # wide character + VARIATION SELECTOR-15 (text presentation)                     2+0
    "\U0001f1e9\U0001f1ea",  # flag: a pair of REGIONAL INDICATOR symbols                             2+2
    "\U0001f44d\U0001f3fb",  # emoji modifier sequence: wide base + wide skin-tone modifier           2+2
    "1\ufe0f\u20e3",  # keycap sequence: ASCII digit + VS16 + COMBINING ENCLOSING KEYCAP              1+0+0
    "\u1100\u1161",  # conjoining Hangul jamo: wide leading consonant + zero-width vowel              2+0
    "a\u200b",  # a format character (ZERO WIDTH SPACE) after a narrow one                            1+0
]

# character clusters per encoding: (visible clusters, bare zero-width marks).  The double-byte alphabets of the
# Big5 / GBK / UHC kind hold, per class of trail byte the encoding assigns, the first double-width character in byte
# order: trail 0x40, 0x7e, 'A'-'Z', 'a'-'z', 0x5c, 0x80, 0x81-0xa0, 0xa1, 0xfe (the comments give lead/trail bytes);
# their ASCII letters lie inside ('a', 'x', '@', '~') and outside (' ', '1') the trail-byte range 0x40..0x7e.
CLUSTERS = {
    "utf-8": (["a", "b", " ", "\u00e9", "e\u0301", "\u6f22", "\u5b57", "\u3042", "\u6f22\u0301", "\uff21",
               "o\u0308\u0301", "x"] + SEQUENCES, []),
    "euc-jp": (["a", "b", "x", " ", "\u6f22", "\u5b57", "\u3042", "\uff21"], []),
    "iso8859-1": (["a", "b", "x", " ", "\u00e9", "\u00f1", "\u00a7"], []),
    "big5": (["a", "x", "@", "~", " ", "1",
              "\u3000",  # a1 40
              "\ufe5a",  # a1 7e
              "\uff0c",  # a1 41
              "\uff5b",  # a1 61
              "\ufe4f",  # a1 5c
              "\ufe5b",  # a1 a1
              "\uff56",  # a2 fe
              ], []),
    "gbk": (["a", "x", "@", "~", " ", "1",
             "\u4e02",  # 81 40
             "\u4e8a",  # 81 7e
             "\u4e04",  # 81 41
             "\u4e64",  # 81 61
             "\u4e57",  # 81 5c
             "\u4e90",  # 81 80
             "\u4eed",  # 81 a1
             "\u4fa2",  # 81 fe
             ], []),
    "uhc": (["a", "x", "@", "~", " ", "1",
             "\uac02",  # 81 41
             "\uac35",  # 81 61
             "\uac56",  # 81 81
             "\uac7e",  # 81 a1
             "\uad13",  # 81 fe
             ], []),
}
DEC_CHARS = "qxlkmj"
ATTRS = [None, "A", "B", "C"]
MAP_ATTRS = [None, "A", "B", "C", "D"]
SOLID_CHARS = ["x", " ", "#", "\u00e9", "\u2500"]
DEC_SPECIAL = {"\u2500": b"q"}  # VT100 special graphics: HORIZONTAL LINE is 'q'

WIDGET = "the-widget"  # stands for the widget object in finalize()/set_pop_up(): any object will do
POPW = "pop-up-widget"


# ---------------------------------------------------------------------------------------------
# leaves


def _enc(text, enc):
    try:
        return text.encode(enc)
    except UnicodeEncodeError:
        raise Discard() from None


def _check_text(text, cs, enc, mode):
    """soundness preconditions on generated text (see ASSUMPTIONS)"""
    b = _enc(text, enc)
    if cs is not None:
        if cs not in ("0", "U") or not all(0x20 <= v < 0x7F for v in b):
            raise Discard()
    if mode == "wide":
        for ch in text:
            if len(_enc(ch, enc)) != max(W.char_width(ch), 1) or W.char_width(ch) == 0:
                raise Discard()
    elif mode == "narrow":
        for ch in text:
            if len(_enc(ch, enc)) != 1 or W.char_width(ch) != 1:
                raise Discard()
    return b


def _rle(pairs, canon):
    out = []
    for a, n in pairs:
        if n == 0:
            continue
        if canon and out and out[-1][0] == a:
            out[-1] = (a, out[-1][1] + n)
        else:
            out.append((a, n))
    return out


def leaf_model(spec, enc, mode, view=None):
    """-> dict(grid, coords, build) ; build() -> fresh urwid canvas

    view: the encoding that is active when the canvas is built and drawn (default enc).  The text rows are always the
    generated characters encoded in `enc`; with view == NARROW the very same bytes are read as 8-bit text, one
    character cell per byte (stage of an encoding history).  A SolidCanvas takes a str and encodes it itself, so it
    is modelled in the view encoding."""
    if view is None or view == enc:
        vmode = mode
    elif view == NARROW:
        vmode = "narrow"
    else:
        raise Discard()
    if spec["k"] == "solid":
        enc, mode = view or enc, vmode
        ch = spec["ch"]
        if len(ch) != 1 or W.char_width(ch) != 1:
            raise Discard()
        if enc != "utf-8" and ch in DEC_SPECIAL:
            cell = (DEC_SPECIAL[ch], None, "0")
        else:
            cell = (_check_text(ch, None, enc, mode), None, None)
        cols, rows = spec["cols"], spec["rows"]
        if cols < 1 or rows < 1:
            raise Discard()
        grid = [[cell] * cols for _ in range(rows)]

        def build():
            c = SolidCanvas(ch, cols, rows)
            if spec.get("fin"):
                c.finalize(WIDGET, (cols, rows), False)
            return c

        return {"grid": grid, "coords": {}, "build": build, "fin": bool(spec.get("fin"))}

    rows_b = []
    grid = []
    for row in spec["rows"]:
        runs = []
        for text, attr, cs in row:
            if not text:
                raise Discard()
            if W.char_width(text[0]) == 0:
                # a zero-width character belongs to the cell of its base character: a row cannot start with
                # one, and an attribute run that starts with one would give a single cell two attributes
                raise Discard()
            runs.append((attr, cs, _check_text(text, cs, enc, mode)))
        rows_b.append(runs)
        grid.append(C.row_of_runs(runs, vmode))
    if not grid:
        raise Discard()
    width = max(len(r) for r in grid)
    extra = spec.get("extra", 0)
    cols = max(1, width + extra)
    maxcol = cols if (extra or width == 0) else None
    grid = [r + [C.blank()] * (cols - len(r)) for r in grid]
    coords = {}
    cur = spec.get("cursor")
    if cur is not None:
        cur = (cur[0] % cols, cur[1] % len(grid))
        coords["cursor"] = {"x": cur[0], "y": cur[1], "data": None, "amb": False}
    pop = spec.get("popup")
    if pop is not None:
        pop = (pop[0] % cols, pop[1] % len(grid), 1 + pop[2] % 5, 1 + pop[3] % 3)
        coords["pop up"] = {"x": pop[0], "y": pop[1], "data": (POPW, pop[2], pop[3]), "amb": False}
    canon, short = bool(spec.get("canon")), bool(spec.get("short"))

    def build():
        text, attr, cs = [], [], []
        for runs in rows_b:
            text.append(b"".join(b for _, _, b in runs))
            a = _rle([(a, len(b)) for a, _, b in runs], canon)
            c = _rle([(c_, len(b)) for _, c_, b in runs], canon)
            if short:  # trailing default runs may be left out: TextCanvas fills the gap with None
                while a and a[-1][0] is None:
                    a.pop()
                while c and c[-1][0] is None:
                    c.pop()
            attr.append(a)
            cs.append(c)
        canv = TextCanvas(text, attr, cs, cursor=cur, maxcol=maxcol)
        if pop is not None:
            canv.set_pop_up(POPW, pop[0], pop[1], pop[2], pop[3])
        if spec.get("fin"):
            canv.finalize(WIDGET, (cols,), False)
        return canv

    return {"grid": grid, "coords": coords, "build": build, "fin": bool(spec.get("fin"))}


# ---------------------------------------------------------------------------------------------
# model evaluation: resolves arguments, produces a plan


def _tr(coords, dx, dy):
    return {k: dict(v, x=v["x"] + dx, y=v["y"] + dy) for k, v in coords.items()}


def _bounds(coords, grid):
    """a coordinate that leaves the canvas is no longer asserted (sticky)"""
    cols, rows = C.g_cols(grid), len(grid)
    for v in coords.values():
        if not (0 <= v["x"] < cols and 0 <= v["y"] < rows):
            v["amb"] = True
    return coords


def _merge(parts):
    """coords of several operands placed side by side / stacked: parts = [coords already translated]"""
    out = {}
    for p in parts:
        for k, v in p.items():
            if k in out:
                out[k] = dict(v, amb=True)  # two candidates: which one wins is not specified
            else:
                out[k] = dict(v)
    return out


def _pick(v, lo, hi):
    """map the generated integer v into [lo, hi]"""
    return lo + v % (hi - lo + 1)


class Plan(dict):
    __slots__ = ()


def _mk(op, grid, coords, kids=(), **kw):
    p = Plan(op=op, grid=grid, coords=_bounds(coords, grid), kids=list(kids), classes=[], **kw)
    p["nops"] = sum(k["nops"] for k in kids) + (0 if op == "leaf" else 1)
    return p


def _struct(p):
    """(side-by-side pieces, stacked bands) estimate of the shard structure of a plan node"""
    return p.get("wide_pieces", 1), p.get("bands", 1)


def m_eval(node, LM, force=None, path=None):
    """force/path: when the second tree of a delta case is evaluated, the ancestors of the replaced
    sub-tree (the nodes along `path`) re-use the offsets resolved for the first tree (`force` is the
    first tree's plan node): the operand sizes are equal, so they are valid, and both trees differ only
    in the replaced sub-tree."""
    op = node[0]
    if not path:
        force = None

    def ev(child, i):
        if force is not None and path[0] == i:
            return m_eval(child, LM, force["kids"][i], path[1:] or None)
        return m_eval(child, LM)

    if op == "leaf":
        idx = node[1] % len(LM)
        lm = LM[idx]
        p = _mk("leaf", [list(r) for r in lm["grid"]], {k: dict(v) for k, v in lm["coords"].items()}, idx=idx)
        p["leaves"] = {idx}
        p["fin"] = lm["fin"]
        return p

    if op in ("wrap", "fin"):
        k = ev(node[1], 0)
        p = _mk(op, k["grid"], _tr(k["coords"], 0, 0), [k], wide_pieces=_struct(k)[0], bands=_struct(k)[1])
        return _finish(p)

    if op == "combine":
        kids = [ev(c, i) for i, c in enumerate(node[1])]
        if not kids:
            raise Discard()
        width = max(C.g_cols(k["grid"]) for k in kids)
        pads = [width - C.g_cols(k["grid"]) for k in kids]
        grids, parts, y = [], [], 0
        for k, pad in zip(kids, pads):
            g = C.g_pad_trim_lr(k["grid"], 0, pad) if pad else k["grid"]
            grids.append(g)
            parts.append(_tr(k["coords"], 0, y))
            y += len(g)
        p = _mk("combine", C.g_stack(grids), _merge(parts), kids, pads=pads, focus=node[2] % len(kids),
                wide_pieces=max(_struct(k)[0] + (1 if pad else 0) for k, pad in zip(kids, pads)),
                bands=sum(_struct(k)[1] for k in kids))
        return _finish(p)

    if op == "join":
        kids = [ev(c, i) for i, (c, _) in enumerate(node[1])]
        if not kids:
            raise Discard()
        widths = [C.g_cols(k["grid"]) + extra % 3 for k, (_, extra) in zip(kids, node[1])]
        parts, x = [], 0
        for k, w in zip(kids, widths):
            parts.append(_tr(k["coords"], x, 0))
            x += w
        heights = {len(k["grid"]) for k in kids}
        p = _mk("join", C.g_join([(k["grid"], w) for k, w in zip(kids, widths)]), _merge(parts), kids,
                widths=widths, focus=node[2] % len(kids),
                wide_pieces=sum(_struct(k)[0] for k in kids),
                bands=max(_struct(k)[1] for k in kids) + (1 if len(heights) > 1 else 0))
        if len(kids) > 1 and (len(heights) > 1 or len({_struct(k)[1] for k in kids}) > 1):
            p["classes"].append("multi-row-shard-tail")
        return _finish(p)

    if op == "overlay":
        top, bot = ev(node[1], 0), ev(node[2], 1)
        fx, fy, fcl, fct = node[3:7]
        tg, bg = top["grid"], bot["grid"]
        tc = top["coords"]
        tw, th, bw, bh = C.g_cols(tg), len(tg), C.g_cols(bg), len(bg)
        clip = [0, 0, 0, 0]  # left, right, top, bottom columns/rows clipped from the top canvas
        if tw > bw:
            clip[0] = _pick(fcl, 0, tw - bw)
            clip[1] = tw - bw - clip[0]
            tg = C.g_pad_trim_lr(tg, -clip[0], -clip[1])
            tc = _tr(tc, -clip[0], 0)
            tw = bw
        if th > bh:
            clip[2] = _pick(fct, 0, th - bh)
            clip[3] = th - bh - clip[2]
            tg = C.g_pad_trim_tb(tg, -clip[2], -clip[3])
            tc = _tr(tc, 0, -clip[2])
            th = bh
        tc = _bounds(tc, tg)
        x, y = _pick(fx, 0, bw - tw), _pick(fy, 0, bh - th)
        conts = _cont_cols(bg[y : y + th])
        aim = sorted({c for c in conts if c <= bw - tw} | {c - tw for c in conts if c - tw >= 0})
        if fx >= AIM and aim:  # aim an edge of the top canvas at the middle of a double-width character
            x = aim[fx % len(aim)]
        if force is not None:
            x = force["x"]
        coords = {}
        for k, v in bot["coords"].items():
            covered = x <= v["x"] < x + tw and y <= v["y"] < y + th
            coords[k] = dict(v, amb=v["amb"] or covered)
        for k, v in _tr(tc, x, y).items():
            coords[k] = dict(v, amb=v["amb"] or k in coords)
        p = _mk("overlay", C.g_overlay(tg, bg, x, y), coords, [top, bot], clip=clip, x=x, y=y,
                wide_pieces=_struct(top)[0] + (1 if x else 0) + (1 if x + tw < bw else 0),
                bands=_struct(top)[1] + (1 if y else 0) + (1 if y + th < bh else 0))
        half = False
        for r in range(y, y + th):
            row = bg[r]
            if (x < bw and C.is_cont(row[x])) or (x + tw < bw and C.is_cont(row[x + tw])):
                half = True
        if half:
            p["classes"].append("overlay-half-cover")
        if any(clip):
            p["classes"].append("overlay-clipped-top")
            _cut_classes(p, top["grid"], clip[0], clip[1])
        if _struct(bot)[0] > 1 or _struct(bot)[1] > 1:
            p["classes"].append("edge-in-multi-cview")
        return _finish(p)

    # unary mutators --------------------------------------------------------------------------
    k = ev(node[1], 0)
    g, co = k["grid"], k["coords"]
    cols, rows = C.g_cols(g), len(g)
    wp, bands = _struct(k)
    inplace = bool(node[-1]) if op not in ("padlr_raw", "padtb_raw", "fit") else False
    multi = wp > 1 or bands > 1

    if op in ("padlr", "padlr_raw"):
        if op == "padlr":
            conts = _cont_cols(g)
            left = _pick(node[2], -(cols - 1), 3)
            if node[2] >= AIM and conts:  # aim the left edge at the second half of a double-width character
                left = -conts[node[2] % len(conts)]
            rem = cols + min(0, left)
            right = _pick(node[3], -(rem - 1), 3)
            aim = [cols - c for c in conts if cols - c <= rem - 1]
            if node[3] >= AIM and aim:
                right = -aim[node[3] % len(aim)]
            if force is not None:
                left, right = force["args"]
        else:
            left, right = node[2], node[3]
            if max(0, -left) + max(0, -right) >= cols:
                raise Discard()
        p = _mk("padlr", C.g_pad_trim_lr(g, left, right), _tr(co, left, 0), [k], args=(left, right), inplace=inplace,
                wide_pieces=wp + (left > 0) + (right > 0), bands=bands)
        _cut_classes(p, g, max(0, -left), max(0, -right))
        if multi and (left < 0 or right < 0):
            p["classes"].append("edge-in-multi-cview")
        return _finish(p)

    if op in ("padtb", "padtb_raw"):
        if op == "padtb":
            top = _pick(node[2], -(rows - 1), 2)
            rem = rows + min(0, top)
            bottom = _pick(node[3], -(rem - 1), 2)
        else:
            top, bottom = node[2], node[3]
            if max(0, -top) + max(0, -bottom) >= rows:
                raise Discard()
        p = _mk("padtb", C.g_pad_trim_tb(g, top, bottom), _tr(co, 0, top), [k], args=(top, bottom), inplace=inplace,
                wide_pieces=wp, bands=bands + (top > 0) + (bottom > 0))
        if multi and (top < 0 or bottom < 0):
            p["classes"].append("edge-in-multi-cview")
        return _finish(p)

    if op == "trim":
        top = _pick(node[2], 0, rows - 1)
        count = None if node[3] % 4 == 0 else _pick(node[3] // 4, 1, rows - top)
        bottom = 0 if count is None else -(rows - top - count)
        p = _mk("trim", C.g_pad_trim_tb(g, -top, bottom), _tr(co, 0, -top), [k], args=(top, count), inplace=inplace,
                wide_pieces=wp, bands=bands)
        if multi and (top or bottom):
            p["classes"].append("edge-in-multi-cview")
        return _finish(p)

    if op == "trimend":
        if rows < 2:  # trim_end must leave a row: the node degenerates to a plain wrapper
            p = _mk("wrap", g, _tr(co, 0, 0), [k], wide_pieces=wp, bands=bands)
            return _finish(p)
        end = _pick(node[2], 1, rows - 1)
        p = _mk("trimend", C.g_pad_trim_tb(g, 0, -end), _tr(co, 0, 0), [k], args=(end,), inplace=inplace,
                wide_pieces=wp, bands=bands)
        if multi:
            p["classes"].append("edge-in-multi-cview")
        return _finish(p)

    if op in ("attr", "fill"):
        mapping = {None: node[2]} if op == "fill" else {a: b for a, b in node[2]}
        p = _mk(op, C.g_map_attr(g, mapping), _tr(co, 0, 0), [k], args=(sorted(mapping.items(), key=repr),),
                inplace=inplace, wide_pieces=wp, bands=bands, mapped=True)
        if k.get("mapped") and mapping:
            p["classes"].append("nested-attr-maps")
        return _finish(p)

    if op == "cursor":
        co = _tr(co, 0, 0)
        if node[2] is None:
            co.pop("cursor", None)
            args = (None,)
        else:
            args = ((node[2] % cols, node[3] % rows),)
            co["cursor"] = {"x": args[0][0], "y": args[0][1], "data": None, "amb": False}
        p = _mk("cursor", g, co, [k], args=args, inplace=inplace, wide_pieces=wp, bands=bands)
        return _finish(p)

    if op == "popup":
        co = _tr(co, 0, 0)
        args = (node[2] % cols, node[3] % rows, 1 + node[4] % 5, 1 + node[5] % 3)
        co["pop up"] = {"x": args[0], "y": args[1], "data": (POPW, args[2], args[3]), "amb": False}
        p = _mk("popup", g, co, [k], args=args, inplace=inplace, wide_pieces=wp, bands=bands)
        return _finish(p)

    if op == "fit":  # internal (delta variant): pad / trim on the right and bottom to exactly (w, h)
        w, h = node[2], node[3]
        dw, dh = w - cols, h - rows
        g2 = C.g_pad_trim_lr(g, 0, dw) if dw else g
        g2 = C.g_pad_trim_tb(g2, 0, dh) if dh else g2
        p = _mk("fit", g2, _tr(co, 0, 0), [k], args=(dw, dh), wide_pieces=wp + (dw > 0), bands=bands + (dh > 0))
        return _finish(p)

    raise AssertionError(f"unknown node {op!r}")


AIM = 40  # generated integers 40..63 aim an edge at a double-width character when there is one


def _cont_cols(grid):
    """columns holding the second half of a double-width character in some row"""
    return sorted({x for row in grid for x, c in enumerate(row) if C.is_cont(c)})


def _cut_classes(p, grid, trim_l, trim_r):
    for row in grid:
        n = len(row)
        if trim_l and trim_l < n and C.is_cont(row[trim_l]):
            p["classes"].append("wide-cut-left")
            break
    for row in grid:
        n = len(row)
        if trim_r and n - trim_r < n and C.is_cont(row[n - trim_r]):
            p["classes"].append("wide-cut-right")
            break


def _finish(p):
    leaves = set()
    for k in p["kids"]:
        leaves |= k["leaves"]
    p["leaves"] = leaves
    p["mapped"] = bool(p.get("mapped")) or any(k.get("mapped") for k in p["kids"])
    return p


def walk(p):
    yield p
    for k in p["kids"]:
        yield from walk(k)


# ---------------------------------------------------------------------------------------------
# urwid evaluation following the plan


class Run:
    def __init__(self, mode, leaves_u):
        self.mode = mode
        self.leaves = leaves_u
        self.recs = []  # [plan, canvas, consumed]
        self.leaf_rec = {}  # leaf index -> rec (a leaf used several times is one operand)


def _compare(canv, p, mode, when):
    g = p["grid"]
    what = f"{when} {p['op']}{p.get('args', '')!r}"
    cols, rows = canv.cols(), canv.rows()
    if cols != C.g_cols(g) or rows != len(g):
        raise Violation("size", f"{what}: canvas reports {cols}x{rows}, grid model is {C.g_cols(g)}x{len(g)}")
    try:
        real = C.grid_of(canv, mode)
    except C.GridError as e:
        raise Violation("row-width", f"{what}: {e}") from None
    d = C.diff(real, g)
    if d is not None:
        raise Violation("cells", f"{what}: canvas vs grid model: {d}; canvas rows {list(canv.content())!r}")
    _compare_coords(canv, p, what)


def _compare_coords(canv, p, what):
    for name, getter in (("cursor", canv.get_cursor), ("pop up", canv.get_pop_up)):
        m = p["coords"].get(name)
        real = getter()
        if m is None:
            if real is not None:
                raise Violation("coords", f"{what}: no operand has a {name}, canvas reports {real!r}")
            continue
        if m["amb"]:
            continue
        exp = (m["x"], m["y"]) if name == "cursor" else (m["x"], m["y"], m["data"])
        if real != exp:
            raise Violation("coords", f"{what}: {name} expected {exp!r}, canvas reports {real!r}")
        tc = canv.translate_coords(3, 2).get(name)
        if tc != (m["x"] + 3, m["y"] + 2, m["data"]):
            raise Violation("coords", f"{what}: translate_coords(3,2)[{name!r}] = {tc!r}, expected "
                                      f"{(m['x'] + 3, m['y'] + 2, m['data'])!r}")


def _expect_canvas_error(name, fn):
    try:
        fn()
    except CanvasError:
        return
    raise Violation("finalized-guard", f"{name} on a finalized canvas did not raise CanvasError")


def _finalized_guard(canv):
    """every mutator of a finalized canvas must raise CanvasError (arguments valid for a live canvas)"""
    _expect_canvas_error("finalize", lambda: canv.finalize(WIDGET, (1, 1), False))
    _expect_canvas_error("set_cursor", lambda: canv.set_cursor((0, 0)))
    _expect_canvas_error("set_cursor(None)", lambda: canv.set_cursor(None))
    _expect_canvas_error("cursor=", lambda: setattr(canv, "cursor", (0, 0)))
    _expect_canvas_error("set_pop_up", lambda: canv.set_pop_up(POPW, 0, 0, 1, 1))
    if isinstance(canv, CompositeCanvas):
        rows = canv.rows()
        _expect_canvas_error("trim", lambda: canv.trim(0))
        _expect_canvas_error("trim(count)", lambda: canv.trim(0, rows))
        _expect_canvas_error("trim_end", lambda: canv.trim_end(1))
        _expect_canvas_error("pad_trim_left_right(pad)", lambda: canv.pad_trim_left_right(1, 1))
        _expect_canvas_error("pad_trim_left_right(0,0)", lambda: canv.pad_trim_left_right(0, 0))
        _expect_canvas_error("pad_trim_top_bottom(pad)", lambda: canv.pad_trim_top_bottom(1, 1))
        _expect_canvas_error("pad_trim_top_bottom(0,0)", lambda: canv.pad_trim_top_bottom(0, 0))
        _expect_canvas_error("overlay", lambda: canv.overlay(CompositeCanvas(SolidCanvas(" ", 1, 1)), 0, 0))
        _expect_canvas_error("fill_attr", lambda: canv.fill_attr("Z"))
        _expect_canvas_error("fill_attr_apply", lambda: canv.fill_attr_apply({}))
        _expect_canvas_error("set_depends", lambda: canv.set_depends([]))


def _target(run, kid_rec, inplace):
    """canvas a mutator is applied to: the operand itself when it is a fresh private composite and the
    case asks for in-place mutation, else a new CompositeCanvas around it (what every widget does)"""
    plan, canv, _ = kid_rec
    if inplace and plan["op"] != "leaf" and isinstance(canv, CompositeCanvas) and canv.widget_info is None:
        kid_rec[2] = True  # consumed: intentionally mutated
        for r in run.recs:  # wrap/fin of the same object
            if r[1] is canv:
                r[2] = True
        return canv
    return CompositeCanvas(canv)


def u_eval(p, run):
    op = p["op"]
    if op == "leaf":
        rec = run.leaf_rec.get(p["idx"])
        if rec is None:
            canv = run.leaves[p["idx"]]
            rec = run.leaf_rec[p["idx"]] = [p, canv, False]
            run.recs.append(rec)
            _compare(canv, p, run.mode, "leaf")
        return rec
    kids = [u_eval(k, run) for k in p["kids"]]
    kc = [r[1] for r in kids]
    if op == "wrap":
        canv = CompositeCanvas(kc[0])
    elif op == "fin":
        canv = kc[0]
        if canv.widget_info is None:
            canv.finalize(WIDGET, (canv.cols(), canv.rows()), False)
        if not canv.widget_info:
            raise Violation("finalize", f"widget_info is {canv.widget_info!r} after finalize()")
        _finalized_guard(canv)
    elif op == "combine":
        ops = []
        for c, pad in zip(kc, p["pads"]):
            if pad:
                c = CompositeCanvas(c)
                c.pad_trim_left_right(0, pad)
            ops.append(c)
        canv = CanvasCombine([(c, i, i == p["focus"]) for i, c in enumerate(ops)])
    elif op == "join":
        canv = CanvasJoin([(c, i, i == p["focus"], w) for i, (c, w) in enumerate(zip(kc, p["widths"]))])
    elif op == "overlay":
        top, bot = kc
        cl, cr, ct, cb = p["clip"]
        if any(p["clip"]) or not isinstance(top, CompositeCanvas):
            top = CompositeCanvas(top)  # as Overlay.render does
        if cl or cr:
            top.pad_trim_left_right(-cl, -cr)
        if ct or cb:
            top.pad_trim_top_bottom(-ct, -cb)
        canv = CanvasOverlay(top, bot, p["x"], p["y"])
    else:
        canv = _target(run, kids[0], p.get("inplace", False))
        a = p["args"]
        if op == "padlr":
            canv.pad_trim_left_right(a[0], a[1])
        elif op == "padtb":
            canv.pad_trim_top_bottom(a[0], a[1])
        elif op == "trim":
            if a[1] is None:
                canv.trim(a[0])
            else:
                canv.trim(a[0], a[1])
        elif op == "trimend":
            canv.trim_end(a[0])
        elif op == "attr":
            canv.fill_attr_apply(dict(a[0]))
        elif op == "fill":
            canv.fill_attr(a[0][0][1])
        elif op == "cursor":
            canv.set_cursor(a[0])
        elif op == "popup":
            canv.set_pop_up(POPW, a[0], a[1], a[2], a[3])
        elif op == "fit":
            if a[0]:
                canv.pad_trim_left_right(0, a[0])
            if a[1]:
                canv.pad_trim_top_bottom(0, a[1])
        else:
            raise AssertionError(op)
    rec = [p, canv, False]
    run.recs.append(rec)
    _compare(canv, p, run.mode, "result of")
    return rec


def _operands_unchanged(run):
    for p, canv, consumed in run.recs:
        if consumed:
            continue
        try:
            _compare(canv, p, run.mode, "operand after the whole expression was built:")
        except Violation as v:
            raise Violation("operand-changed:" + v.clause, v.message) from None


# ---------------------------------------------------------------------------------------------
# delta


def _resolve_path(p, path):
    """follow generated integers down the plan; returns the list of child indices actually taken"""
    out = []
    for v in path:
        if not p["kids"]:
            break
        i = v % len(p["kids"])
        out.append(i)
        p = p["kids"][i]
    return out, p


def _node_children(node):
    op = node[0]
    if op == "leaf":
        return []
    if op == "combine":
        return [("c", i) for i in range(len(node[1]))]
    if op == "join":
        return [("j", i) for i in range(len(node[1]))]
    if op == "overlay":
        return [("o", 1), ("o", 2)]
    return [("u", 1)]


def _get_child(node, ref):
    kind, i = ref
    if kind == "c":
        return node[1][i]
    if kind == "j":
        return node[1][i][0]
    return node[i]


def _replace(node, idxs, new):
    if not idxs:
        return new
    refs = _node_children(node)
    kind, i = refs[idxs[0]]
    node = list(node)
    if kind == "c":
        node[1] = list(node[1])
        node[1][i] = _replace(node[1][i], idxs[1:], new)
    elif kind == "j":
        node[1] = [list(x) for x in node[1]]
        node[1][i][0] = _replace(node[1][i][0], idxs[1:], new)
    else:
        node[i] = _replace(node[i], idxs[1:], new)
    return node


def _subtree(node, idxs):
    for i in idxs:
        node = _get_child(node, _node_children(node)[i])
    return node


def second_tree(case, plan):
    d = case["delta"]
    tree = case["tree"]
    idxs, target = _resolve_path(plan, d["path"])
    w, h = C.g_cols(target["grid"]), len(target["grid"])
    mode = d["mode"] % 5
    if mode == 0:
        return tree, "identical", []
    if mode == 3:
        # same sub-canvases at the same places, only the attribute mapping applied to one part differs (what an
        # AttrMap with a focus_map does to its cached child canvas when the focus moves)
        kind, arg = d.get("remap") or ["fill", "D"]
        return _replace(tree, idxs, [kind, _subtree(tree, idxs), arg, 0]), "remap", idxs
    if mode == 4:
        # same sub-canvases, one part scrolled inside its rectangle: k columns / rows trimmed on one side and padded
        # on the opposite one (size unchanged)
        vx, vy = d.get("shift") or [1, 0]
        dx, dy = _pick(vx, -(w - 1), w - 1), _pick(vy, -(h - 1), h - 1)
        if not dx and not dy:
            dx, dy = (1, 0) if w > 1 else (0, 1 if h > 1 else 0)
        if not dx and not dy:
            return tree, "identical", []
        sub = _subtree(tree, idxs)
        if dx:
            sub = ["padlr_raw", sub, -dx, dx]
        if dy:
            sub = ["padtb_raw", sub, -dy, dy]
        return _replace(tree, idxs, sub), "shift", idxs
    if mode == 1:
        repl = d["repl"]
        kind = "replace"
    else:
        idxs2, _ = _resolve_path(plan, d["path2"])
        repl = _subtree(tree, idxs2)
        kind = "swap-in"
    return _replace(tree, idxs, ["fit", repl, w, h]), kind, idxs


def apply_delta(delta, old_grid, mode):
    rows = list(delta)
    if len(rows) != len(old_grid):
        raise Violation("delta", f"content_delta yields {len(rows)} rows, canvas has {len(old_grid)}")
    out = []
    for y, row in enumerate(rows):
        if isinstance(row, int):
            row = [row]
        cells, pending = [], []
        for e in row:
            if isinstance(e, int):
                if pending:
                    cells.extend(C.row_of_runs(pending, mode))
                    pending = []
                keep = old_grid[y][len(cells) : len(cells) + e]
                if len(keep) != e or e < 0:
                    raise Violation("delta", f"row {y}: keeps {e} columns at column {len(cells)} of a "
                                             f"{len(old_grid[y])}-column row: {row!r}")
                cells.extend(keep)
            else:
                pending.append(e)
        if pending:
            cells.extend(C.row_of_runs(pending, mode))
        out.append(cells)
    return out


# ---------------------------------------------------------------------------------------------
# the checks

_memo = {"case": None, "val": None}


def analyze(case):
    """model pass (memoised for the last case: classify/nontrivial/check share it)"""
    if _memo["case"] is case:
        return _memo["val"]
    try:
        val = _analyze(case)
    except Discard:
        val = None
    _memo["case"], _memo["val"] = case, val
    return val


def _stages(case):
    """encoding history of a case: the encodings under which the expression is built, drawn and compared, in order,
    in one process.  Each is the case's own encoding or NARROW (the same leaf bytes read as 8-bit text)."""
    stages = case.get("stages") or [case["enc"]]
    for view in stages:
        if view not in (case["enc"], NARROW):
            raise Discard()
    return stages


def _analyze(case, view=None):
    enc = case["enc"]
    view = view or enc
    mode = W.mode_of(view)
    LM = [leaf_model(s, enc, W.mode_of(enc), view) for s in case["leaves"]]
    if not LM:
        raise Discard()
    plan = m_eval(case["tree"], LM)
    plan2 = kind = None
    if case.get("delta"):
        tree2, kind, idxs = second_tree(case, plan)
        plan2 = m_eval(tree2, LM, plan, idxs or None)
        if (C.g_cols(plan2["grid"]), len(plan2["grid"])) != (C.g_cols(plan["grid"]), len(plan["grid"])):
            raise AssertionError("harness: second tree has a different size")
    return {"mode": mode, "LM": LM, "plan": plan, "plan2": plan2, "kind": kind}


def _switch_encoding(view, first):
    """A case starts from a clean slate (vlib.widths.use_encoding also empties every cache it can find, so that no
    state leaks from the previous case).  The later switches of an encoding history are made the way an application
    makes them - the public set_encoding() and nothing else: whatever the library remembers from the earlier stages
    is part of what is tested."""
    if first:
        W.use_encoding(view)
    else:
        urwid.util.set_encoding(view)


def check_expr(case):
    stages = _stages(case)
    for i, view in enumerate(stages):
        _switch_encoding(view, first=i == 0)
        a = analyze(case) if view == case["enc"] else _analyze(case, view)
        if a is None:
            raise Discard()
        if len(stages) == 1:
            _check_stage(a)
            continue
        try:
            _check_stage(a)
        except Violation as v:
            raise Violation(v.clause, f"stage {i} of the encoding history {stages!r} (leaf bytes encoded in "
                                      f"{case['enc']}, drawn under {view}): {v.message}") from None


def _check_stage(a):
    mode = a["mode"]
    leaves_u = [lm["build"]() for lm in a["LM"]]
    run = Run(mode, leaves_u)
    root = u_eval(a["plan"], run)
    run2 = None
    if a["plan2"] is not None:
        run2 = Run(mode, leaves_u)
        root2 = u_eval(a["plan2"], run2)
        old_c, new_c = root[1], root2[1]
        if not isinstance(old_c, CompositeCanvas):
            old_c = CompositeCanvas(old_c)
        if not isinstance(new_c, CompositeCanvas):
            new_c = CompositeCanvas(new_c)
        for x, y, gx, gy, label in ((new_c, old_c, a["plan2"]["grid"], a["plan"]["grid"], "new vs old"),
                                    (old_c, new_c, a["plan"]["grid"], a["plan2"]["grid"], "old vs new")):
            delta = list(x.content_delta(y))
            try:
                got = apply_delta(delta, gy, mode)
            except C.GridError as e:
                raise Violation("delta", f"{label}: {e}") from None
            d = C.diff(got, gx)
            if d is not None:
                raise Violation("delta", f"{label} ({a['kind']}): content_delta applied to the old grid differs from "
                                         f"the new grid: {d}; delta={delta!r}")
    _operands_unchanged(run)
    if run2 is not None:
        _operands_unchanged(run2)


TRIM1_SYMS = {
    "utf-8": ["a", "\u6f22", "\u00e9", "e\u0301"],
    # two more utf-8 alphabets (case key "alpha"): the multi-code-point sequences of SEQUENCES, see there
    "utf-8/seq-a": ["a", SEQUENCES[0], SEQUENCES[2], SEQUENCES[4]],  # ZWJ between wides, narrow+VS16, flag pair
    "utf-8/seq-b": [SEQUENCES[5], SEQUENCES[6], SEQUENCES[3], SEQUENCES[1]],  # modifier, keycap, wide+VS15, mixed ZWJ
    "euc-jp": ["a", "\u6f22", "b", "\u3042"],
    "iso8859-1": ["a", "\u00e9", "b", "\u00f1"],
    # ASCII letter in the trail-byte range, trail byte 'A', trail byte >= 0xa1, trail byte 0x7e / 0x80 / 'a'
    "big5": ["a", "\uff0c", "\ufe5b", "\ufe5a"],
    "gbk": ["a", "\u4e04", "\u4eed", "\u4e90"],
    "uhc": ["a", "\uac02", "\uac7e", "\uac35"],
}


TRIM1_ALPHABETS = [(enc, enc) for enc in ENCODINGS] + [("utf-8", "utf-8/seq-a"), ("utf-8", "utf-8/seq-b")]


def _syms(case):
    """the 4-symbol alphabet of a trim1 / trimseq case: TRIM1_SYMS[alpha], by default the one named like the encoding"""
    alpha = case.get("alpha") or case["enc"]
    if alpha != case["enc"] and not alpha.startswith(case["enc"] + "/"):
        raise Discard()
    return TRIM1_SYMS[alpha]


def _trim1_expr(case, view=None):
    syms = _syms(case)
    row = [[syms[s], f"A{i}", None] for i, s in enumerate(case["s"])]
    return {
        "enc": case["enc"],
        "stages": [view or case["enc"]],
        "leaves": [{"k": "text", "rows": [row], "extra": 0, "canon": True, "short": False}],
        "tree": ["padlr_raw", ["leaf", 0], -case["l"], -case["r"]],
        "delta": None,
    }


def check_trim1(case):
    """case: {"enc", "s": [symbol index...], "l": columns trimmed left, "r": columns trimmed right}"""
    check_expr(_trim1_expr(case))


def _row_cols(enc, s, view):
    if view == enc:
        return sum(_sym_width(enc, x) for x in s)
    return sum(len(TRIM1_SYMS[enc][x].encode(enc)) for x in s)  # 8-bit view: one column per byte


def check_trimseq(case):
    """case: {"enc", "s": [symbol index...], "stages": [encoding, ...]}: the row's bytes (encoded in enc) are drawn
    under each encoding of the history in turn, in this process; under each one every (left, right) trim that leaves
    a column is compared with the grid"""
    enc = case["enc"]
    if any(view not in (enc, NARROW) for view in case["stages"]):
        raise Discard()
    for i, view in enumerate(case["stages"]):
        _switch_encoding(view, first=i == 0)
        cols = _row_cols(enc, case["s"], view)
        for left in range(cols):
            for r in range(cols - left):
                try:
                    _check_stage(_analyze(_trim1_expr({"enc": enc, "s": case["s"], "l": left, "r": r}, view), view))
                except Violation as v:
                    raise Violation(v.clause, f"stage {i} of the encoding history {case['stages']!r}, trim "
                                              f"({left}, {r}) under {view}: {v.message}") from None


SUBS = {"expr": check_expr, "trim1": check_trim1, "trimseq": check_trimseq}


# ---------------------------------------------------------------------------------------------
# enumeration, strategies


def _sym_width(alpha, s):
    return sum(W.char_width(ch) for ch in TRIM1_SYMS[alpha][s])


def trim1_cases(maxlen):
    for enc, alpha in TRIM1_ALPHABETS:
        for n in range(1, maxlen + 1):
            for s in itertools.product(range(4), repeat=n):
                cols = sum(_sym_width(alpha, x) for x in s)
                for left in range(cols):
                    for r in range(cols - left):
                        case = {"enc": enc, "s": list(s), "l": left, "r": r}
                        if alpha != enc:
                            case["alpha"] = alpha
                        yield case


def trimseq_cases(maxlen):
    """every row of <= maxlen symbols of every multi-byte encoding, under the histories own -> 8-bit -> own and
    8-bit -> own -> 8-bit"""
    for enc in ENCODINGS:
        if enc == NARROW:
            continue
        for n in range(1, maxlen + 1):
            for s in itertools.product(range(4), repeat=n):
                for stages in ([enc, NARROW, enc], [NARROW, enc, NARROW]):
                    yield {"enc": enc, "s": list(s), "stages": stages}


def _trimseq_nontrivial(case):
    # the two readings of the bytes differ: some character takes more than one byte
    return any(len(TRIM1_SYMS[case["enc"]][x].encode(case["enc"])) > 1 for x in case["s"])


def _trimseq_classes(case):
    return [f"trimseq:{case['enc']}", "trimseq:" + ">".join("8bit" if v == NARROW else "own" for v in case["stages"])]


def _trim1_nontrivial(case):
    col, starts = 0, set()
    for s in case["s"]:
        for ch in _syms(case)[s]:
            if W.char_width(ch) == 2:
                starts.add(col + 1)  # column holding the second half
            col += W.char_width(ch)
    return (case["l"] in starts and case["l"] > 0) or (case["r"] > 0 and (col - case["r"]) in starts)


def _trim1_classes(case):
    out = [f"trim1:{case.get('alpha') or case['enc']}"]
    if _trim1_nontrivial(case):
        out.append("trim1:wide-cut")
    return out


# A case is decoded from one Hypothesis-drawn byte string (one draw instead of ~150 nested strategy
# draws per case, which dominated the run time).  Every decision takes one byte modulo the number of
# options; an exhausted stream yields 0 = the simplest option, so a shorter / smaller byte string
# decodes to a smaller tree and Hypothesis' byte shrinker shrinks the case.


class Src:
    def __init__(self, data):
        self.d, self.i = data, 0

    def n(self, k):
        if self.i >= len(self.d):
            return 0
        v = self.d[self.i]
        self.i += 1
        return v % k

    def f(self):
        return self.n(64)


def _encodable(ch, enc):
    if ch in DEC_SPECIAL:
        return True
    try:
        b = ch.encode(enc)
    except UnicodeEncodeError:
        return False
    return enc == "utf-8" or len(b) == 1


def gen_row(src, enc):
    vis = CLUSTERS[enc][0]
    row = []
    for _ in range((1, 0, 1, 2, 3, 2, 1, 3)[src.n(8)]):
        if src.n(5) == 4:
            text = "".join(DEC_CHARS[src.n(len(DEC_CHARS))] for _ in range(1 + src.n(2)))
            row.append([text, ATTRS[src.n(len(ATTRS))], ("0", "0", "U")[src.n(3)]])
        else:
            text = "".join(vis[src.n(len(vis))] for _ in range((1, 2, 3, 2)[src.n(4)]))
            row.append([text, ATTRS[src.n(len(ATTRS))], None])
    return row


def gen_leaf(src, enc):
    if src.n(4) == 3:
        chars = [c for c in SOLID_CHARS if _encodable(c, enc)]
        return {"k": "solid", "ch": chars[src.n(len(chars))], "cols": 1 + src.n(6), "rows": 1 + src.n(3),
                "fin": bool(src.n(2))}
    nrows = (1, 1, 2, 3, 4, 2)[src.n(6)]
    return {
        "k": "text",
        "rows": [gen_row(src, enc) for _ in range(nrows)],
        "extra": (0, 0, 0, 1, 2)[src.n(5)],
        "canon": bool(src.n(2)),
        "short": bool(src.n(2)),
        "cursor": [src.f(), src.f()] if src.n(3) == 2 else None,
        "popup": [src.f(), src.f(), src.f(), src.f()] if src.n(4) == 3 else None,
        "fin": bool(src.n(2)),
    }


OPS = ("leaf", "leaf", "padlr", "padlr", "padlr", "padtb", "padtb", "trim", "trimend", "attr", "fill", "wrap", "fin",
       "cursor", "popup", "combine", "combine", "join", "join", "join", "overlay", "overlay", "overlay")


def gen_tree(src, depth, top=False):
    if depth <= 0:
        return ["leaf", src.n(4)]
    op = OPS[src.n(len(OPS))]
    if op == "leaf":
        if not top:
            return ["leaf", src.n(4)]
        op = "padlr"

    def kid():
        return gen_tree(src, depth - 1)

    if op in ("padlr", "padtb", "trim"):
        a, b, ip = src.f(), src.f(), src.n(2)
        return [op, kid(), a, b, ip]
    if op == "trimend":
        a, ip = src.f(), src.n(2)
        return [op, kid(), a, ip]
    if op == "attr":
        pairs, seen = [], set()
        for _ in range(src.n(4)):
            k, v = MAP_ATTRS[src.n(len(MAP_ATTRS))], MAP_ATTRS[src.n(len(MAP_ATTRS))]
            if k not in seen:
                seen.add(k)
                pairs.append([k, v])
        ip = src.n(2)
        return [op, kid(), pairs, ip]
    if op == "fill":
        a, ip = ("A", "B", "D", None)[src.n(4)], src.n(2)
        return [op, kid(), a, ip]
    if op in ("wrap", "fin"):
        return [op, kid()]
    if op == "cursor":
        a, b, ip = (None if src.n(4) == 3 else src.f()), src.f(), src.n(2)
        return [op, kid(), a, b, ip]
    if op == "popup":
        a, b, c, d, ip = src.f(), src.f(), src.f(), src.f(), src.n(2)
        return [op, kid(), a, b, c, d, ip]
    if op == "combine":
        n, focus = (2, 1, 2, 3)[src.n(4)], src.n(3)
        return [op, [kid() for _ in range(n)], focus]
    if op == "join":
        n, focus = (2, 1, 2, 3)[src.n(4)], src.n(3)
        extras = [src.n(3) for _ in range(n)]
        return [op, [[kid(), e] for e in extras], focus]
    if op == "overlay":
        a, b, c, d = src.f(), src.f(), src.f(), src.f()
        return [op, kid(), kid(), a, b, c, d]
    raise AssertionError(op)


def gen_remap(src):
    """a mapping that is not the identity: ["fill", attr] or ["attr", [[from, to], ...]] (1-3 distinct keys)"""
    if src.n(3) == 0:
        return ["fill", ("D", "A", "B")[src.n(3)]]
    pairs, seen = [], set()
    for _ in range(1 + src.n(3)):
        k = MAP_ATTRS[src.n(len(MAP_ATTRS))]
        others = [a for a in MAP_ATTRS if a != k]
        v = others[src.n(len(others))]
        if k not in seen:
            seen.add(k)
            pairs.append([k, v])
    return ["attr", pairs]


def decode_case(data, depth):
    tree_bytes, leaf_bytes = data
    src = Src(tree_bytes)
    enc = ENC_PICK[src.n(len(ENC_PICK))]
    # encoding history: the whole case is built and checked under each encoding in turn; 8 = the leaf bytes read as
    # 8-bit text, A = the encoding they were written in
    hist = ("A", "A", "A", "A", "A", "A8A", "8A8", "A8")[src.n(8)]
    stages = [enc if h == "A" else NARROW for h in hist] if enc != NARROW and hist != "A" else None
    has_delta = src.n(2)
    tree = gen_tree(src, depth, top=True)
    delta = None
    if has_delta:
        delta = {
            "mode": (1, 3, 2, 0, 4, 1, 3, 2)[src.n(8)],
            "path": [src.n(3) for _ in range(src.n(5))],
            "path2": [src.n(3) for _ in range(src.n(5))],
            "repl": gen_tree(src, min(2, depth)),
            "remap": gen_remap(src),
            "shift": [src.f(), src.f()],
        }
    src = Src(leaf_bytes)
    leaves = [gen_leaf(src, enc) for _ in range(1 + src.n(4))]
    case = {"enc": enc, "leaves": leaves, "tree": tree, "delta": delta}
    if stages:
        case["stages"] = stages
    return case


def case_strategy(depth):
    # a tree of depth 5 takes ~40 bytes (90th percentile 75), a leaf ~24 (90th percentile 34)
    return st.tuples(st.binary(min_size=48, max_size=120 * depth), st.binary(min_size=140, max_size=140)).map(
        lambda d: decode_case(d, depth)
    )


def _expr_classes(case):
    a = analyze(case)
    if a is None:
        return ["expr:discarded"]
    out = {f"enc:{case['enc']}"}
    if case.get("stages"):
        out.add("stages:" + ">".join("8bit" if v == NARROW else "own" for v in case["stages"]))
    for plan in (a["plan"], a["plan2"]):
        if plan is None:
            continue
        for p in walk(plan):
            out.update(p["classes"])
            out.add(f"op:{p['op']}")
            if p["op"] != "leaf" and p.get("inplace") and p["kids"] and p["kids"][0]["op"] not in ("leaf", "fin"):
                out.add("mutated-in-place")
            for name, v in p["coords"].items():
                if not v["amb"] and p["op"] != "leaf":
                    out.add(f"coords-compared:{name}")
    if a["plan2"] is not None:
        out.add(f"delta:{a['kind']}")
        shared = a["plan"]["leaves"] & a["plan2"]["leaves"]
        if shared:
            out.add("delta-with-shared-leaf")
    depth = _depth(a["plan"])
    out.add(f"depth:{depth}")
    return sorted(out)


def _depth(p):
    return 1 + max((_depth(k) for k in p["kids"]), default=-1) if p["kids"] else 0


_EDGE = {"wide-cut-left", "wide-cut-right", "overlay-half-cover", "edge-in-multi-cview"}


def _expr_nontrivial(case):
    a = analyze(case)
    if a is None:
        return False
    if a["plan"]["nops"] < 2:
        return False
    for plan in (a["plan"], a["plan2"]):
        if plan is not None and any(_EDGE & set(p["classes"]) for p in walk(plan)):
            return True
    return False


def shard(ctx):
    maxlen = ctx.scale(3, 5)
    ctx.sweep("trim1", trim1_cases(maxlen), nontrivial=_trim1_nontrivial, classify=_trim1_classes,
              exhaustive_name=f"1-row trims, 4 symbols, <= {maxlen} characters, {len(ENCODINGS)} encodings")
    if ctx.failure is None:
        seqlen = ctx.scale(3, 4)
        ctx.sweep("trimseq", trimseq_cases(seqlen), nontrivial=_trimseq_nontrivial, classify=_trimseq_classes,
                  exhaustive_name=f"all trims of 1-row texts, 4 symbols, <= {seqlen} characters, 5 multi-byte "
                                  f"encodings, under two encoding histories")
    if ctx.failure is None:
        ctx.given("expr", case_strategy(ctx.scale(5, 8)), ctx.scale(2000, 40000),
                  nontrivial=_expr_nontrivial, classify=_expr_classes)


# ---------------------------------------------------------------------------------------------
# known findings (active only if listed in known_findings.d/C02.json with status "known")


def _passes_without_delta(case):
    """the expression itself (content, coords, operands) is fine: the failure lies in content_delta"""
    try:
        check_expr(dict(case, delta=None))
    except Exception:  # noqa: BLE001
        return False
    return True


def _delta_pair(case):
    W.use_encoding(case["enc"])
    a = _analyze(case)
    leaves_u = [lm["build"]() for lm in a["LM"]]
    out = []
    for plan in (a["plan"], a["plan2"]):
        c = u_eval(plan, Run(a["mode"], leaves_u))[1]
        out.append(c if isinstance(c, CompositeCanvas) else CompositeCanvas(c))
    return out


def _shard_layout(shards):
    """{top row: [(absolute column, cview) for every cview that starts in the shard at that row]}"""
    from urwid.canvas import shard_body, shard_body_tail

    tail, row, out = [], 0, {}
    for num_rows, cviews in shards:
        sbody = shard_body(list(cviews), tail, False)
        tail = shard_body_tail(num_rows, sbody)
        col, mine = 0, []
        for done_rows, _it, cv in sbody:
            if not done_rows:
                mine.append((col, cv))
            col += cv[2]
        out[row] = mine
        row += num_rows
    return out


def _false_unchanged(x, y):
    """Root cause of the known finding, decided from the two shard lists alone (independent of what the tree under
    test's shards_delta answers): shard_cviews_delta pairs the cviews of two shards that start at the same row by
    counting columns over the cviews that *start* in each shard, ignoring the columns taken by cviews hanging down
    from earlier shards.  True when that walk pairs a cview of x with an identical cview of y (same canvas object,
    same trim / size / attribute map: it is reported 'unchanged') that sits at a different absolute column."""
    lx, ly = _shard_layout(x.shards), _shard_layout(y.shards)
    for top, mine in lx.items():
        theirs = ly.get(top)
        if theirs is None:
            continue  # no shard of y starts at this row: shards_delta does not compare
        it = iter(theirs)
        other = None
        cols = other_cols = 0
        for abs_col, cv in mine:
            if other is None:
                other = next(it, None)
            while other is not None and other_cols < cols:
                other_cols += other[1][2]
                other = next(it, None)
            if other is None:
                break  # the walk runs off the end of y's cviews (the StopIteration finding)
            if other_cols > cols:
                cols += cv[2]
                continue
            ocv = other[1]
            if cv[5] is ocv[5] and cv[:5] == ocv[:5] and abs_col != other[0]:
                return True
            other_cols += ocv[2]
            other = None
            cols += cv[2]
    return False


def _known_delta_stopiteration(sub, case, v):
    return (
        sub == "expr"
        and bool(case.get("delta"))
        and v.clause in ("exception:RuntimeError@canvas.py:shard_body", "exception:RuntimeError@canvas.py:content_delta")
        and "generator raised StopIteration" in v.message
        and _passes_without_delta(case)
    )


def _known_delta_tail_columns(sub, case, v):
    if not (sub == "expr" and case.get("delta") and v.clause == "delta" and _passes_without_delta(case)):
        return False
    old_c, new_c = _delta_pair(case)
    for x, y in ((new_c, old_c), (old_c, new_c)):
        try:
            if _false_unchanged(x, y):
                return True
        except RuntimeError:
            continue
    return False


KNOWN = {
    "C02-content-delta-stopiteration": _known_delta_stopiteration,
    "C02-content-delta-ignores-shard-tail-columns": _known_delta_tail_columns,
}
