"""C03 — text layout shows every character once, in order, within the width.

Code under test: ``urwid.text_layout.StandardTextLayout.layout`` (``calculate_text_segments``,
``_calculate_trimmed_segments``, ``align_layout``), ``urwid.canvas.apply_text_layout`` and
``urwid.widget.text.Text.rows/render/pack``.

The layout structure (docstring of ``TextLayout.layout``) is a list of line layouts, one per output
line; a line layout is a list of tuples of three documented forms (plus one special use):

  ``(sc, offs, end)``   text segment: ``text[offs:end]`` occupying ``sc`` screen columns      -> "T"
  ``(n, offs)``         insert ``n`` spaces carrying the attribute found at ``offs``; urwid also
                        emits ``(0, offs)`` as a "removed character hint" (no output)          -> "S"
  ``(n, None)``         insert ``n`` spaces without attribute; ``align_layout`` puts it first in
                        a line as the alignment shift (``line_width``/``shift_line`` treat a
                        leading ``(n, None)`` as "the shift"; it is negative when a clipped
                        line is wider than the width)                                         -> pad
  ``(sc, offs, bytes)`` insert text (the ellipsis mark, already encoded) of ``sc`` columns     -> "I"

The oracle never calls ``urwid.str_util``: all widths and character boundaries come from
``vlib.widths`` (wcwidth table / DBCS lead-trail rule / one byte one column).

Readings (where the statement is silent or ambiguous the weaker reading is used):

* The "removed character hints" ``(0, offs)`` are not trusted and not required; what was omitted is
  derived from the text segments alone.
* "the single space consumed at each wrap point": every omitted space (wrap 'space' only) and every
  omitted newline needs its own line break, i.e. between two displayed stretches that are ``nb``
  line breaks apart at most ``nb`` newlines+spaces may be missing.  Extra blank lines that consume
  nothing are not forbidden by the statement and are not flagged.
* "lines made solely of zero-width characters": an omitted zero-width character is accepted when
  the maximal run of zero-width characters around it touches no displayed character (its
  neighbours are text start/end or other omitted characters).
* "'space' wrapping breaks only at spaces whenever every word fits": read as "no word is split",
  a break between two word characters is a violation unless one of them is double-width (urwid
  treats a CJK character as a break opportunity on purpose: "perfect next wide" / "wrap after
  wide char" in the code).  Nothing is asserted about how full a 'space' line is.
* 'any': a line followed by more text of the same paragraph cannot take the next character.
  Blank lines are not examined by this clause.
* Alignment padding is asserted for lines that have something to show and spare columns >= 0.
  A 'clip' line wider than the width has negative spare columns (statement silent): for 'left' the
  visible part must be the first ``width`` columns of the line; for 'center'/'right' any window of
  ``width`` consecutive columns of the line is accepted.  Zero-width characters sitting exactly on
  a window edge, or following a double-width character that was cut in half, may or may not be shown.
* Ellipsis: the mark is a non-empty prefix of '…' (if the encoding has it) or '...'; the text before
  it is the longest prefix of the line that leaves room for the mark actually used; spaces inserted
  after the mark (half of a cut double-width character) are tolerated, and the alignment pad may be
  computed with or without them.  Where one column of text plus the shortest mark do not fit (width 1;
  width 2 when the mark's first character is double-width) either clipping or a bare mark is accepted.
  Zero-width characters leading a line of which nothing else is shown before the mark may be dropped.
* Undisplayable text (wrap any/space, width 1, a double-width character somewhere): the layout must
  be the single empty line ``[[]]`` and the canvas one blank row; the other clauses do not apply.
* "x encodings": the active encoding is process state chosen with ``urwid.set_encoding``.  The layout must be
  right for the encoding active at the time of the call whatever was laid out before under another one
  (sub 'switch'); nothing is asserted about a widget that lives across a ``set_encoding`` call.
* "all widths >= 1": sub 'big' samples widths up to 600 and lines up to 700 characters with the same clauses.
"""
from __future__ import annotations

import itertools
import re

from hypothesis import strategies as st

import urwid
from urwid import text_layout
from vlib import widths as WO
from vlib.runner import Discard, Violation

PROPERTY = "C03"
LEVEL = "exploration"
RULE = (
    "short: exhaustive enumeration of every string of length <= 5 (quick) / <= 6 (thorough; plus length 7 "
    "for utf-8 str at widths 1..4) over a 6-letter alphabet per encoding (utf-8: a b space newline 漢 U+0301; "
    "euc-jp: a b space newline 漢 あ; iso8859-1: a b space newline é ü) x width 1..8 x wrap any/space/clip/"
    "ellipsis x align left/center/right x str and encoded bytes, and for utf-8 also every string of length <= 4 "
    "(quick) / <= 5 (thorough) over the emoji-sequence alphabet a, space, regional indicator U+1F1FA, ZWJ U+200D, "
    "VS16 U+FE0F, narrow base U+2764, wide base U+1F469 (flags, ZWJ and VS16 sequences and their fragments: "
    "code points that a sequence-aware measure counts together but urwid cuts one by one); long: Hypothesis texts "
    "<= 60 characters made "
    "of words (1..14 letters incl. double-width and combining characters where the encoding has them; utf-8 "
    "letters include the parts of emoji sequences and one word in four is built from whole flag / VS16 / ZWJ / "
    "skin-tone / keycap sequences - also in big, remode and switch), runs "
    "of 1..4 spaces and newlines, width 1..30, same modes; big: Hypothesis texts <= 700 characters holding at "
    "least one run of 40..400 repetitions of a 1..3-letter unit (double-width / zero-width letters favoured) "
    "plus up to six more runs, words, spaces and newlines, at width 1..30, 31..600 or within 2 columns of the "
    "longest line, same modes. Each case is one (text, width, wrap, align, encoding, str|bytes) layout checked "
    "against the structure oracle and against Text.rows/render/pack. Non-trivial: the text has >= 2 words or a "
    "double-width/zero-width character, and some line of it is wider than the width (it must be wrapped or "
    "clipped); for big also width > 30 or more than 60 characters. remode: one long-lived Text driven through "
    "its setters (sweep of every wrap/align transition per setter + Hypothesis histories of 1..6 setters), "
    "compared with a new Text after every step. switch: histories of 2..5 such layout cases under encodings "
    "drawn from utf-8, euc-jp, iso8859-1, gbk, ascii that run in one process state - urwid's caches are "
    "dropped once at the start of the history and between the steps only urwid.set_encoding() is called; "
    "every step is judged by the full oracle (sweep: every chain of three encodings whose neighbours differ "
    "x wrap x align x width 1..6 x str/bytes; Hypothesis: texts <= 30 characters, width 1..16, steps mostly "
    "sharing wrap/align/width). Non-trivial switch history: >= 2 distinct encodings and >= 2 steps that need "
    "wrapping or clipping."
)
ASSUMPTIONS = [
    "trusted base: the wcwidth table for str / utf-8 bytes, the DBCS lead/trail rule for wide encodings, one "
    "byte one column for narrow encodings (vlib.widths), and Python's codecs for str -> bytes",
    "the width of a stretch of text is the sum of the widths of its code points, also inside emoji sequences "
    "(regional-indicator pairs, ZWJ / VS16 / modifier / keycap sequences): that is the unit in which urwid cuts "
    "text and pads canvas rows; 'every displayed line fits in the width' is judged in it, whatever a "
    "sequence-aware measure (wcswidth) or a particular terminal would say about the drawn picture",
    "user text is representable in the active encoding and, in wide mode, every character's encoded length "
    "equals its column width (urwid's definition of wide mode); other characters are not generated",
    "bytes texts are valid encodings of such strings (the quantifier says 'encoded bytes')",
    "only StandardTextLayout (the default layout) is examined; no display attributes (C17 covers markup)",
    "a case of short/long/big/remode starts from a clean slate: the functools caches of urwid.text_layout are "
    "cleared by name every case and by vlib.widths.use_encoding whenever the encoding changes; what urwid "
    "carries from one layout to the next is examined by 'switch' alone, whose steps are separated by "
    "urwid.set_encoding() and nothing else (each step builds a new Text: a widget that outlives a "
    "set_encoding call is not examined, the statement is silent about it)",
    "urwid.set_encoding() may be called any number of times in a process and selects the encoding for the "
    "layouts computed afterwards (it is public, the raw display and urwid's own tests call it repeatedly)",
]

WRAPS = ("any", "space", "clip", "ellipsis")
ALIGNS = ("left", "center", "right")
ENCODINGS = ("utf-8", "euc-jp", "iso8859-1")

# exhaustive alphabet: a, b, space, newline + two encoding-specific characters
ALPHABETS = {
    "utf-8": ["a", "b", " ", "\n", "漢", "\u0301"],  # double-width 漢, combining acute (zero width)
    "euc-jp": ["a", "b", " ", "\n", "漢", "あ"],  # 2 bytes = 2 columns each; EUC-JP has no zero-width char
    "iso8859-1": ["a", "b", " ", "\n", "é", "ü"],  # Latin-1 letters: 1 byte = 1 column
}
# Emoji sequences: several code points that a terminal with emoji support may draw as one picture.  The statement's
# "within the width" is measured, like everything else here, per code point with the wcwidth table (ASSUMPTIONS): that
# is the unit in which urwid cuts text (calc_text_pos), checks canvas rows and moves the cursor, so a layout line must
# fit in it whether or not a sequence-aware measure (wcswidth: flag = 2, ZWJ family = 2, heart + VS16 = 2) would
# give another number.  The parts: regional indicators (2 columns each, a pair is a flag), ZERO WIDTH JOINER and
# VARIATION SELECTOR-16 (0), COMBINING ENCLOSING KEYCAP (0), a skin-tone modifier (2), narrow (1) and wide (2) bases.
EMOJI_PARTS = ["\U0001f1fa", "\U0001f1f8", "\u2764", "\U0001f469", "\U0001f3fd", "\u200d", "\ufe0f"]
EMOJI_SEQS = [
    "\U0001f1fa\U0001f1f8", "\U0001f1ec\U0001f1e7",  # flags: two regional indicators
    "\u2764\ufe0f", "\u2708\ufe0f",  # narrow base + VS16 (emoji presentation)
    "\U0001f469\u200d\U0001f469\u200d\U0001f467", "\U0001f468\u200d\U0001f4bb",  # ZWJ sequences
    "\U0001f44d\U0001f3fd",  # base + skin-tone modifier
    "1\ufe0f\u20e3", "#\ufe0f\u20e3",  # keycaps
    "\U0001f3f3\ufe0f\u200d\U0001f308",  # VS16 and ZWJ in one sequence
]
# second exhaustive alphabet (utf-8 only): one part of each kind plus a letter and the space that wrapping needs
EMOJI_ALPHABET = ["a", " ", "\U0001f1fa", "\u200d", "\ufe0f", "\u2764", "\U0001f469"]
EMOJI_MARKS = frozenset("\u200d\ufe0f\u20e3") | {chr(o) for o in range(0x1F1E6, 0x1F200)} | {chr(o) for o in range(0x1F3FB, 0x1F400)}

# letters of the Hypothesis words (urwid's table and wcwidth agree on all of them; C11 examines the table)
LETTERS = {
    "utf-8": list("abcdeXYZ.,-") + ["漢", "字", "あ", "한", "\U0001f600"] + EMOJI_PARTS + ["\u0301", "\u0308", "\u200b"],
    "euc-jp": list("abcdeXYZ.,-") + ["漢", "字", "あ", "ア"],
    "iso8859-1": list("abcdeXYZ.,-") + ["é", "ü", "ß", "ñ"],
}

STATS: dict[str, int] = {}


def _stat(label):
    STATS[label] = STATS.get(label, 0) + 1


# ---------------------------------------------------------------------------------------------
# encoding state


_current = [None]


def _set_encoding(enc: str) -> str:
    mode = WO.mode_of(enc)
    if _current[0] != enc:
        WO.use_encoding(enc)
        _current[0] = enc
    else:
        # same effect as use_encoding, without its dir() scans (this runs millions of times)
        urwid.util.set_encoding(enc)
        urwid.CanvasCache.clear()
        for name in ("get_ellipsis_string", "_get_width"):
            f = getattr(text_layout, name, None)
            if f is not None and hasattr(f, "cache_clear"):
                f.cache_clear()
    return mode


def ellipsis_mark(enc: str) -> str:
    """The mark the statement calls 'an ellipsis mark': '…' where the encoding has it, else '...'."""
    try:
        "…".encode(enc)
    except UnicodeEncodeError:
        return "..."
    return "…"


# ---------------------------------------------------------------------------------------------
# oracle view of a text


class TInfo:
    """Characters of a text by the independent width oracle (everything indexed by character number)."""

    __slots__ = ("text", "enc", "mode", "n", "bidx", "start", "cum", "wd", "kind", "chunk", "paras",
                 "max_pw", "max_word", "nwords", "has_wide", "has_zero")

    def __init__(self, enc, is_bytes, s):
        mode = WO.mode_of(enc)
        self.enc, self.mode = enc, mode
        try:
            encoded = [ch.encode(enc) for ch in s]
        except UnicodeEncodeError:
            raise Discard() from None  # precondition: representable in the active encoding
        if mode == "wide":
            for ch, b in zip(s, encoded):
                if len(b) != max(WO.char_width(ch), 0) and ch not in "\n":
                    raise Discard()  # precondition: encoded length == column width in wide mode
        text = b"".join(encoded) if is_bytes else s
        self.text = text
        cs = WO.chars(text, mode)
        if len(cs) != len(s):
            # the oracle must see exactly the characters that were encoded (cross-check against Python's codec)
            raise AssertionError(f"width oracle splits {text!r} into {len(cs)} characters, expected {len(s)}")
        self.n = n = len(cs)
        self.bidx = {c[0]: k for k, c in enumerate(cs)}
        self.bidx[len(text)] = n
        self.start = [c[0] for c in cs] + [len(text)]
        self.wd = wd = [c[2] for c in cs]
        cum = [0]
        for w in wd:
            cum.append(cum[-1] + w)
        self.cum = cum
        self.kind = kind = ["n" if ch == "\n" else "s" if ch == " " else "c" for ch in s]
        self.chunk = encoded  # what each character contributes to a canvas row
        paras, lo = [], 0
        for k in range(n):
            if kind[k] == "n":
                paras.append((lo, k))
                lo = k + 1
        paras.append((lo, n))
        self.paras = paras
        self.max_pw = max(cum[hi] - cum[lo] for lo, hi in paras)
        # words: maximal runs of characters that are neither space nor newline
        mw = nw = run = 0
        inword = False
        for k in range(n):
            if kind[k] == "c":
                run = run + wd[k] if inword else wd[k]
                if not inword:
                    nw += 1
                inword = True
                mw = max(mw, run)
            else:
                inword = False
        self.max_word, self.nwords = mw, nw
        self.has_wide = 2 in wd
        self.has_zero = any(w == 0 and kd == "c" for w, kd in zip(wd, kind))

    def show(self, a, b):
        return self.text[self.start[a]:self.start[b]]


_tinfo_memo: dict = {}


def tinfo(enc, is_bytes, s) -> TInfo:
    key = (enc, is_bytes, s)
    hit = _tinfo_memo.get(key)
    if hit is None:
        if len(_tinfo_memo) > 64:
            _tinfo_memo.clear()
        hit = _tinfo_memo[key] = TInfo(enc, is_bytes, s)
    return hit


_bytes_width_memo: dict = {}


def bytes_chars(b: bytes, mode: str):
    key = (b, mode)
    hit = _bytes_width_memo.get(key)
    if hit is None:
        hit = _bytes_width_memo[key] = [(bytes(b[s:e]), w) for s, e, w in WO.chars(b, mode)]
    return hit


# ---------------------------------------------------------------------------------------------
# parsing the layout structure


def parse_layout(info: TInfo, lay):
    """-> list of (pad, items); items are ("T", sc, a, b) with a, b character numbers,
    ("S", n, offs) or ("I", sc, offs, bytes)."""
    if not isinstance(lay, list) or not lay:
        raise Violation("structure", f"layout is not a non-empty list of lines: {lay!r}")
    bidx, tlen = info.bidx, len(info.text)
    lines = []
    for li, line in enumerate(lay):
        if not isinstance(line, list):
            raise Violation("structure", f"line {li} is not a list: {line!r}")
        pad, items = 0, []
        for k, seg in enumerate(line):
            if not isinstance(seg, tuple) or len(seg) not in (2, 3) or type(seg[0]) is not int:
                raise Violation("structure", f"line {li}: segment {seg!r} has none of the documented forms")
            sc, offs = seg[0], seg[1]
            if len(seg) == 2:
                if offs is None:
                    if k != 0:
                        raise Violation("structure", f"line {li}: shift segment {seg!r} is not the first of its line")
                    pad = sc
                    continue
                if type(offs) is not int or not 0 <= offs <= tlen or sc < 0:
                    raise Violation("structure", f"line {li}: bad insert-spaces segment {seg!r} (text length {tlen})")
                items.append(("S", sc, offs))
                continue
            third = seg[2]
            if type(offs) is not int or not 0 <= offs <= tlen:
                raise Violation("structure", f"line {li}: offset of {seg!r} outside the text (length {tlen})")
            if isinstance(third, bytes):
                if not third or sc < 0:
                    raise Violation("structure", f"line {li}: bad insert-text segment {seg!r}")
                items.append(("I", sc, offs, third))
            elif type(third) is int:
                a, b = bidx.get(offs), bidx.get(third)
                if a is None or b is None or not a < b:
                    raise Violation(
                        "structure",
                        f"line {li}: text segment {seg!r} is empty, reversed or does not start/end on a character "
                        f"boundary of {info.text!r}",
                    )
                items.append(("T", sc, a, b))
            else:
                raise Violation("structure", f"line {li}: segment {seg!r} has none of the documented forms")
        lines.append((pad, items))
    return lines


def expected_pad(align, width, lw):
    if align == "left":
        return 0
    if align == "center":
        return (width - lw + 1) // 2
    return width - lw


class Line:
    __slots__ = ("pad", "items", "a", "b", "lw", "marks", "ins_spaces", "clipwin")


def measure_lines(info: TInfo, lines, what):
    """segment widths by the oracle; per line the displayed stretch [a, b) and the line width."""
    cum, mode = info.cum, info.mode
    out = []
    for li, (pad, items) in enumerate(lines):
        ln = Line()
        ln.pad, ln.items, ln.a, ln.b, ln.lw, ln.marks, ln.ins_spaces, ln.clipwin = pad, items, None, None, 0, [], 0, None
        for it in items:
            if it[0] == "T":
                _, sc, a, b = it
                w = cum[b] - cum[a]
                if sc != w:
                    raise Violation(
                        "segment-width",
                        f"{what}: line {li} segment claims {sc} columns for {info.show(a, b)!r}, which is {w} wide",
                    )
                if ln.a is None:
                    ln.a, ln.b = a, b
                elif a < ln.b:
                    raise Violation("order", f"{what}: line {li} shows {info.show(a, min(b, ln.b))!r} twice or out of order")
                elif a > ln.b:
                    raise Violation(
                        "lost-character", f"{what}: line {li} skips {info.show(ln.b, a)!r} in the middle of the line"
                    )
                else:
                    ln.b = b
                ln.lw += w
                for k in range(a, b):
                    if info.kind[k] == "n":
                        raise Violation("newline-shown", f"{what}: line {li} displays a newline inside {info.show(a, b)!r}")
            elif it[0] == "S":
                ln.lw += it[1]
                ln.ins_spaces += it[1]
            else:
                _, sc, offs, bts = it
                w = sum(c[1] for c in bytes_chars(bts, mode))
                if sc != w:
                    raise Violation(
                        "segment-width", f"{what}: line {li} inserted text {bts!r} claims {sc} columns, it is {w} wide"
                    )
                ln.lw += w
                ln.marks.append(it)
        out.append(ln)
    return out


# ---------------------------------------------------------------------------------------------
# wrap modes 'any' and 'space'


def verdict_wrap(info: TInfo, width, wrap, align, lns, what):
    n, kind, wd, cum = info.n, info.kind, info.wd, info.cum
    for li, ln in enumerate(lns):
        if ln.marks or ln.ins_spaces:
            raise Violation("inserted", f"{what}: line {li} shows text that is not in the source: {ln.items!r}")
        if ln.lw > width:
            raise Violation("fits", f"{what}: line {li} is {ln.lw} columns wide")

    def check_gap(g0, g1, nb, where):
        used = 0
        for k in range(g0, g1):
            kd = kind[k]
            if kd == "n":
                used += 1
            elif kd == "s" and wrap == "space":
                used += 1
            elif kd == "c" and wd[k] == 0:
                lo = k
                while lo > 0 and kind[lo - 1] == "c" and wd[lo - 1] == 0:
                    lo -= 1
                hi = k + 1
                while hi < n and kind[hi] == "c" and wd[hi] == 0:
                    hi += 1
                if not ((lo == 0 or lo > g0) and (hi == n or hi < g1)):
                    raise Violation(
                        "lost-character",
                        f"{what}: zero-width {info.show(k, k + 1)!r} (character {k}) is dropped although it belongs to a "
                        f"displayed character's line ({where})",
                    )
                _stat("saw:zero-width-line-omitted")
            else:
                raise Violation("lost-character", f"{what}: {info.show(k, k + 1)!r} (character {k}) is never shown ({where})")
        if used > nb:
            raise Violation(
                "wrap-consumes-one",
                f"{what}: {info.show(g0, g1)!r} is omitted {where} but only {nb} line break(s) separate the "
                "neighbouring displayed text: more than one space/newline consumed at a wrap point",
            )
        if used and wrap == "space" and any(kind[k] == "s" for k in range(g0, g1)):
            _stat("saw:space-consumed-at-wrap")

    cursor, prev = 0, None
    allfit = wrap == "space" and info.max_word <= width
    for li, ln in enumerate(lns):
        if ln.a is None:
            continue
        if ln.a < cursor:
            raise Violation("order", f"{what}: line {li} shows {info.show(ln.a, min(ln.b, cursor))!r} again / out of order")
        check_gap(cursor, ln.a, li - (prev or 0), f"before line {li}")
        if prev is not None and ln.a == cursor and allfit:
            k = cursor
            if kind[k - 1] == "c" and kind[k] == "c":
                if wd[k - 1] != 2 and wd[k] != 2:
                    raise Violation(
                        "space-splits-word",
                        f"{what}: every word fits in {width} columns but a word is split between "
                        f"{info.show(k - 1, k)!r} and {info.show(k, k + 1)!r} (lines {prev}/{li})",
                    )
                _stat("saw:cjk-break-opportunity")
        cursor, prev = ln.b, li
    check_gap(cursor, n, len(lns) - 1 - (prev or 0), "after the last displayed line")

    if wrap == "any":
        for li, ln in enumerate(lns):
            if ln.a is None:
                continue
            b = ln.b
            if b < n and kind[b] != "n" and ln.lw + wd[b] <= width:
                raise Violation(
                    "any-fills",
                    f"{what}: line {li} is {ln.lw} wide and stops before {info.show(b, b + 1)!r} "
                    f"({wd[b]} wide) which would still fit",
                )

    for li, ln in enumerate(lns):
        if ln.lw > 0:
            exp = expected_pad(align, width, ln.lw)
            if ln.pad != exp:
                raise Violation(
                    "align-pad", f"{what}: line {li} is {ln.lw} wide, {align} padding should be {exp}, layout says {ln.pad}"
                )
        elif not 0 <= ln.pad <= width:
            raise Violation("align-pad", f"{what}: empty line {li} shifted by {ln.pad}")


# ---------------------------------------------------------------------------------------------
# wrap modes 'clip' and 'ellipsis'


def _marks(enc):
    m = ellipsis_mark(enc)
    return [m[:k].encode(enc) for k in range(1, len(m) + 1)]


def verdict_trim(info: TInfo, width, wrap, align, lns, what):
    cum, wd, mode = info.cum, info.wd, info.mode
    if len(lns) != len(info.paras):
        raise Violation(
            "clip-one-line-per-line", f"{what}: the text has {len(info.paras)} lines, the layout {len(lns)} (clip modes do not wrap)"
        )
    marks_ok = None
    for li, (ln, (lo, hi)) in enumerate(zip(lns, info.paras)):
        pw = cum[hi] - cum[lo]
        if ln.a is not None and not (lo <= ln.a and ln.b <= hi):
            raise Violation("order", f"{what}: line {li} shows {info.show(ln.a, ln.b)!r}, which is not part of text line {li}")
        if pw <= width:
            if ln.marks or ln.ins_spaces:
                raise Violation("inserted", f"{what}: line {li} fits ({pw} columns) but shows inserted text: {ln.items!r}")
            if ln.a is None:
                if pw > 0:
                    raise Violation("lost-character", f"{what}: line {li} {info.show(lo, hi)!r} fits but is not shown")
                if hi > lo:
                    _stat("saw:zero-width-line-omitted")
            elif (ln.a, ln.b) != (lo, hi):
                raise Violation(
                    "lost-character", f"{what}: line {li} {info.show(lo, hi)!r} fits but only {info.show(ln.a, ln.b)!r} is shown"
                )
            if ln.lw > 0:
                exp = expected_pad(align, width, ln.lw)
                if ln.pad != exp:
                    raise Violation(
                        "align-pad",
                        f"{what}: line {li} is {ln.lw} wide, {align} padding should be {exp}, layout says {ln.pad}",
                    )
            elif not 0 <= ln.pad <= width:
                raise Violation("align-pad", f"{what}: empty line {li} shifted by {ln.pad}")
            continue
        # the text line is wider than the width
        if wrap == "ellipsis" and not ln.marks:
            if marks_ok is None:
                marks_ok = _marks(info.enc)
            # a mark is demanded only where one column of text plus the shortest mark fit
            if width >= 1 + sum(c[1] for c in bytes_chars(marks_ok[0], mode)):
                raise Violation("ellipsis-mark", f"{what}: line {li} is {pw} columns wide but no ellipsis mark is shown")
        if not ln.marks:
            # clipped: the layout may describe the whole line; what is visible is decided on the canvas
            if ln.ins_spaces:
                raise Violation("inserted", f"{what}: line {li} shows spaces that are not in the source: {ln.items!r}")
            ln.clipwin = (lo, hi, pw)
            _stat("saw:clipped-line")
            continue
        if wrap != "ellipsis":
            raise Violation("inserted", f"{what}: line {li} shows inserted text in clip mode: {ln.items!r}")
        if marks_ok is None:
            marks_ok = _marks(info.enc)
        kinds = "".join(it[0] for it in ln.items if not (it[0] == "S" and it[1] == 0))
        if not re.fullmatch(r"T*IS*", kinds):
            raise Violation("ellipsis-mark", f"{what}: line {li} is not <prefix><mark>[spaces]: {ln.items!r}")
        mark = ln.marks[0][3]
        if mark not in marks_ok:
            raise Violation("ellipsis-mark", f"{what}: line {li} ends with {mark!r}, expected a prefix of {marks_ok[-1]!r}")
        if ln.a is not None and ln.a != lo:
            raise Violation("lost-character", f"{what}: line {li} does not start with its first character: {ln.items!r}")
        if ln.lw > width:
            raise Violation("fits", f"{what}: line {li} with its ellipsis mark is {ln.lw} columns wide")
        b = ln.b if ln.a is not None else lo
        while b == lo and ln.a is None and wd[b] == 0 and info.kind[b] == "c":
            # nothing is shown before the mark: leading zero-width characters have no displayed character
            # to ride on, dropping them is tolerated (weaker reading)
            lo = b = b + 1
        mark_w = sum(c[1] for c in bytes_chars(mark, mode))
        if cum[b] - cum[lo] + wd[b] + mark_w <= width:  # b < hi because the line is wider than the width
            raise Violation(
                "ellipsis-prefix",
                f"{what}: line {li} shows {info.show(lo, b)!r} + mark ({mark_w}) but {info.show(b, b + 1)!r} would still fit",
            )
        exp1 = expected_pad(align, width, ln.lw)
        exp2 = expected_pad(align, width, ln.lw - ln.ins_spaces)
        if ln.pad not in (exp1, exp2):
            raise Violation("align-pad", f"{what}: ellipsis line {li} ({ln.lw} wide) padded by {ln.pad}, expected {exp1}")
        _stat("saw:ellipsis-line")


# ---------------------------------------------------------------------------------------------
# canvas rows


def window(chars, x0, width):
    """Rows (bytes) acceptable for showing columns [x0, x0+width) of a line made of (chunk, w) characters."""
    x1 = x0 + width
    parts = []  # (bytes, group) group None = mandatory
    c = 0
    after_cut = False
    full = False  # a character of positive width is shown in full
    for chunk, w in chars:
        if w == 0:
            if c < x0 or c > x1:
                continue
            if c == x0 and x0 > 0:
                parts.append((chunk, "L"))
            elif c == x1:
                parts.append((chunk, "R"))
            elif after_cut:
                parts.append((chunk, "C"))
            else:
                parts.append((chunk, "Z"))
            continue
        s, e = c, c + w
        c = e
        after_cut = False
        if e <= x0 or s >= x1:
            continue
        if s >= x0 and e <= x1:
            parts.append((chunk, None))
            full = True
        else:
            parts.append((b" " * (min(e, x1) - max(s, x0)), None))
            after_cut = True
    if c < x1:
        parts.append((b" " * (x1 - max(c, x0)), None))
    if full:
        # zero-width characters inside the window ride on a displayed character: mandatory.  When the window
        # shows no whole character (only halves of cut double-width characters, replaced by spaces) the
        # visible stretch is "made solely of zero-width characters" and may be omitted (weaker reading).
        parts = [(p, None if g == "Z" else g) for p, g in parts]
    groups = sorted({g for _, g in parts if g})
    out = []
    for keep in itertools.product((True, False), repeat=len(groups)):
        on = {g for g, k in zip(groups, keep) if k}
        out.append(b"".join(p for p, g in parts if g is None or g in on))
    return out


def rows_from_layout(info: TInfo, ln: Line, width):
    """Acceptable canvas rows for one parsed layout line."""
    chunk = info.chunk
    if 0 <= ln.pad and ln.pad + ln.lw <= width:
        parts = [b" " * ln.pad]
        for it in ln.items:
            if it[0] == "T":
                parts.extend(chunk[it[2]:it[3]])
            elif it[0] == "S":
                parts.append(b" " * it[1])
            else:
                parts.append(it[3])
        parts.append(b" " * (width - ln.pad - ln.lw))
        return [b"".join(parts)]
    chars = [(b" ", 1)] * max(ln.pad, 0)
    for it in ln.items:
        if it[0] == "T":
            chars.extend((chunk[k], info.wd[k]) for k in range(it[2], it[3]))
        elif it[0] == "S":
            chars.extend([(b" ", 1)] * it[1])
        else:
            chars.extend(bytes_chars(it[3], info.mode))
    return window(chars, max(-ln.pad, 0), width)


# ---------------------------------------------------------------------------------------------
# the property function


class What:
    """lazy description of the case for violation messages"""

    __slots__ = ("case", "text")

    def __init__(self, case, text):
        self.case, self.text = case, text

    def __str__(self):
        c = self.case
        return f"[{c['enc']} {c['wrap']}/{c['align']} width {c['width']}] {self.text!r}"


def row_width(row: bytes, mode: str) -> int:
    """columns of a canvas row by the oracle (fast paths for the three modes; same result as WO.width)"""
    if mode == "narrow":
        return len(row)
    if mode == "utf8":
        try:
            return sum(map(WO.char_width, row.decode("utf-8")))
        except UnicodeDecodeError:
            pass
    return WO.width(row, mode)


def check_layout(case, direct=False, keep_state=False):
    """case: {"enc", "bytes": bool, "text": str, "width", "wrap", "align"}

    keep_state (sub 'switch'): the encoding is selected the way an application does it, with the public
    ``urwid.set_encoding`` alone, and nothing urwid has cached so far in this process is dropped."""
    enc, is_bytes, s = case["enc"], bool(case["bytes"]), case["text"]
    width, wrap, align = case["width"], case["wrap"], case["align"]
    if width < 1 or wrap not in WRAPS or align not in ALIGNS or enc not in WO.MODES:
        raise Discard()
    if keep_state:
        mode = WO.mode_of(enc)
        _current[0] = None  # the next ordinary case starts from a clean slate again
        urwid.set_encoding(enc)
    else:
        mode = _set_encoding(enc)
    info = tinfo(enc, is_bytes, s)
    text = info.text
    what = What(case, text)

    # the layout as the widget obtains it (Text.rows -> get_line_translation -> layout.layout(...));
    # rows() is asked first, on the fresh widget, so that it has to compute the layout itself
    w = urwid.Text(text, align=align, wrap=wrap)
    rows_before = w.rows((width,))
    lay = w.get_line_translation(width)
    if direct:
        lay2 = text_layout.StandardTextLayout().layout(text, width, align, wrap)
        if lay2 != lay:
            raise Violation("widget-layout", f"{what}: Text.get_line_translation gives {lay!r}, layout() {lay2!r}")
    undisplayable = wrap in ("any", "space") and width == 1 and info.has_wide
    lns = None
    if undisplayable:
        # "a double-width character in a one-column space produces an empty line rather than an error"
        if lay != [[]]:
            raise Violation("undisplayable", f"{what}: expected the single empty line [[]], got {lay!r}")
        _stat("saw:undisplayable")
    else:
        lns = measure_lines(info, parse_layout(info, lay), what)
        if wrap in ("any", "space"):
            verdict_wrap(info, width, wrap, align, lns, what)
        else:
            verdict_trim(info, width, wrap, align, lns, what)

    # rows() / render() / pack() agree with the layout, the canvas shows the segments' text
    canv = w.render((width,))
    packed = w.pack((width,))
    rows_after = w.rows((width,))
    rtext = canv.text
    nl = len(lay)
    if not (rows_before == nl and rows_after == nl and packed[1] == nl and canv.rows() == nl and len(rtext) == nl):
        raise Violation(
            "rows",
            f"{what}: layout has {nl} lines; rows() {rows_before}/{rows_after}, pack()[1] {packed[1]}, "
            f"render().rows() {canv.rows()}, len(canvas.text) {len(rtext)}",
        )
    if canv.cols() != width:
        raise Violation("row-width", f"{what}: canvas is {canv.cols()} columns wide")
    for li, row in enumerate(rtext):
        row = bytes(row)
        rw = row_width(row, mode)
        if rw != width:
            raise Violation("row-width", f"{what}: canvas row {li} {row!r} is {rw} columns wide")
        if lns is None:
            if row != b" " * width:
                raise Violation("undisplayable", f"{what}: canvas row {li} is {row!r}, expected blank")
            continue
        ln = lns[li]
        exp = rows_from_layout(info, ln, width)
        if row not in exp:
            raise Violation(
                "canvas-matches-layout", f"{what}: canvas row {li} is {row!r}; the layout line {lay[li]!r} describes {exp!r}"
            )
        if ln.clipwin is not None:
            lo, hi, pw = ln.clipwin
            chars = [(info.chunk[k], info.wd[k]) for k in range(lo, hi)]
            starts = [0] if align == "left" else range(0, pw - width + 1)
            if not any(row in window(chars, x0, width) for x0 in starts):
                raise Violation(
                    "clip-window",
                    f"{what}: canvas row {li} is {row!r}, which is not "
                    + ("the first" if align == "left" else "a window of")
                    + f" {width} columns of {info.show(lo, hi)!r}",
                )


def check_long(case):
    check_layout(case, direct=True)


# ---------------------------------------------------------------------------------------------
# sub: switch   layouts in one process under changing encodings, nothing reset in between
#
# "For every text, width, wrap mode and alignment ... x encodings": the encoding is process-wide state that an
# application selects with urwid.set_encoding() (public, documented; the raw display calls it, programs call it at
# start-up and tests between cases).  A layout must be right for the encoding that is active *now*, whatever was laid
# out before under another one.  The other subs start every case from a clean slate (every functools cache of
# urwid.text_layout dropped), so anything urwid remembers from one layout to the next is invisible to them; a switch
# case is a history of ordinary layout cases: the caches are dropped once, at its start (= a new process), and
# between the steps only urwid.set_encoding() is called.  Every step builds a new Text and is judged by the full
# oracle of check_layout.

SWITCH_ENCODINGS = ("utf-8", "euc-jp", "iso8859-1", "gbk", "ascii")
LETTERS["gbk"] = LETTERS["euc-jp"]  # all in GBK, two bytes = two columns each
LETTERS["ascii"] = list("abcdeXYZ.,-")


def check_switch(case):
    """case: {"steps": [{"enc","bytes","text","width","wrap","align"}, ...]}"""
    steps = case["steps"]
    if not steps:
        raise Discard()
    for step in steps:
        if step["enc"] not in WO.MODES:
            raise Discard()
        tinfo(step["enc"], bool(step["bytes"]), step["text"])  # Discard for text the encoding cannot represent
    WO.use_encoding(steps[0]["enc"])  # a new process: nothing cached yet
    _current[0] = None
    seen = []
    for k, step in enumerate(steps):
        seen.append(step["enc"])
        try:
            check_layout(step, keep_state=True)
        except Violation as v:
            raise Violation(v.clause, f"step {k} of a history under encodings {' -> '.join(seen)}: {v.message}") from None


def _word(enc, max_letters):
    """a word of 1..max_letters letters of the encoding; utf-8: one word in four is made of whole emoji sequences
    (flags, VS16 / ZWJ / modifier / keycap sequences) mixed with ASCII letters"""
    word = st.lists(st.sampled_from(LETTERS[enc]), min_size=1, max_size=max_letters).map("".join)
    if enc != "utf-8":
        return word
    emoji = st.lists(st.sampled_from(EMOJI_SEQS + EMOJI_SEQS + ["a", "b", "-"]), min_size=1, max_size=max(1, max_letters // 2))
    return st.one_of(word, word, word, emoji.map("".join))


def _plain_text(enc, max_word, max_tokens, max_len):
    word = _word(enc, max_word)
    token = st.one_of(word, st.just(" "), st.just("  "), st.just("\n"))
    return st.lists(token, max_size=max_tokens).map(lambda toks: "".join(toks)[:max_len])


@st.composite
def _switch_strategy(draw):
    # most steps share wrap mode, alignment and width (what differs between the steps is the encoding and the text)
    base = (draw(st.sampled_from(WRAPS)), draw(st.sampled_from(ALIGNS)), draw(st.integers(1, 16)))
    steps = []
    for _ in range(draw(st.integers(2, 5))):
        enc = draw(st.sampled_from(SWITCH_ENCODINGS))
        wrap, align, width = base
        if draw(st.integers(0, 3)) == 0:
            wrap, align, width = draw(st.sampled_from(WRAPS)), draw(st.sampled_from(ALIGNS)), draw(st.integers(1, 16))
        steps.append({"enc": enc, "bytes": draw(st.booleans()), "text": draw(_plain_text(enc, 8, 10, 30)),
                      "width": width, "wrap": wrap, "align": align})
    return {"steps": steps}


def _wide_letter(enc):
    return next((c for c in LETTERS[enc] if WO.char_width(c) == 2), LETTERS[enc][-1])


def switch_sweep():
    """every chain of three encodings (neighbours differ) x wrap x align x width 1..6 x str/bytes, each step laying out
    the same kind of text (two double-width letters where the encoding has them) that has to be wrapped or cut"""
    for e1 in SWITCH_ENCODINGS:
        for e2 in SWITCH_ENCODINGS:
            for e3 in SWITCH_ENCODINGS:
                if e1 == e2 or e2 == e3:
                    continue
                for wrap in WRAPS:
                    for align in ALIGNS:
                        for width in range(1, 7):
                            for is_bytes in (False, True):
                                yield {"steps": [
                                    {"enc": e, "bytes": is_bytes, "text": "ab cd " + _wide_letter(e) * 2 + " efg\nh",
                                     "width": width, "wrap": wrap, "align": align} for e in (e1, e2, e3)]}


def switch_nontrivial(case):
    """at least two different encodings, and at least two steps that need wrapping or cutting"""
    steps = case["steps"]
    return len({s["enc"] for s in steps}) >= 2 and sum(1 for s in steps if is_nontrivial(s)) >= 2


def switch_classify(case):
    steps = case["steps"]
    out = [f"switch:{len(steps)}-steps"]
    modes = [WO.mode_of(s["enc"]) for s in steps]
    out.extend(sorted({f"switch:{a}->{b}" for a, b in zip(modes, modes[1:]) if a != b}))
    return out


# ---------------------------------------------------------------------------------------------
# sub: big   the same oracle on long lines and wide screens
#
# The quantifier is "all widths >= 1" and puts no bound on the text.  'short' and 'long' stay below 31 columns and
# 61 characters; this sub adds a sparse sample of what a real wide terminal or a long log line brings: lines of up to
# ~700 characters built from long runs of one repeated unit (a letter, a double-width or zero-width letter, or 2-3
# letters), ordinary words, spaces and newlines, at a small width (many rows / a far-away clip window), a width of
# 31..600, or a width within 2 columns of one of the text's own line widths.


@st.composite
def _big_strategy(draw):
    enc = draw(st.sampled_from(ENCODINGS))
    letters = LETTERS[enc]
    special = [c for c in letters if WO.char_width(c) != 1] or letters
    unit = st.one_of(
        st.sampled_from(letters),
        st.sampled_from(special),
        st.lists(st.sampled_from(letters), min_size=2, max_size=3).map("".join),
        *([st.sampled_from(EMOJI_SEQS)] if enc == "utf-8" else []),
    )
    run = st.tuples(unit, st.integers(40, 400)).map(lambda t: (t[0] * t[1])[:400])
    word = _word(enc, 14)
    spaces = st.integers(1, 4).map(lambda k: " " * k)
    token = st.one_of(run, word, word, spaces, spaces, st.just("\n"))
    # at least one long run, with up to three other tokens on either side of it
    parts = draw(st.lists(token, max_size=3)) + [draw(run)] + draw(st.lists(token, max_size=3))
    text = "".join(parts)[:700]
    kind = draw(st.integers(0, 7))
    if kind < 2:
        width = draw(st.integers(1, 30))
    elif kind < 5:
        width = draw(st.integers(31, 600))
    else:
        # within 2 columns of the text's longest line (wide mode: encoded length == columns by construction)
        width = max(1, max(sum(WO.char_width(c) for c in line) for line in text.split("\n")) + draw(st.integers(-2, 2)))
    return {"enc": enc, "bytes": draw(st.booleans()), "text": text, "width": width,
            "wrap": draw(st.sampled_from(WRAPS)), "align": draw(st.sampled_from(ALIGNS))}


def big_nontrivial(case):
    """beyond the bounds of 'short'/'long' (width > 30 or more than 60 characters) and needs wrapping or cutting"""
    return (case["width"] > 30 or len(case["text"]) > 60) and is_nontrivial(case)


def big_classify(case):
    out = classify(case)
    w = case["width"]
    out.append("big:width " + ("1..30" if w <= 30 else "31..199" if w < 200 else "200..399" if w < 400 else ">=400"))
    try:
        info = tinfo(case["enc"], bool(case["bytes"]), case["text"])
    except Discard:
        return out
    out.append("big:longest line " + ("<=60" if info.max_pw <= 60 else "61..256" if info.max_pw <= 256 else ">256") + " columns")
    return out


# ---------------------------------------------------------------------------------------------
# sub: remode   one long-lived Text whose text / wrap / alignment are changed through its public setters

SETTERS = ("set_text", "set_wrap_mode", "set_align_mode", "set_layout", "wrap=", "align=", "set_layout+text")


def check_remode(case):
    """case: {"enc", "bytes", "width", "first": {"text","wrap","align"}, "steps": [[setter, text, wrap, align], ...]}.
    "the row count reported for a width equals the number of lines rendered at that width" and the lines shown are
    those of the widget's *current* text, wrap mode and alignment: after every setter the widget must render and
    count rows exactly like a freshly built Text with the same parameters (the canvas cache is left alone - a
    setter that forgets to invalidate shows the old layout)."""
    enc, is_bytes, width = case["enc"], bool(case["bytes"]), case["width"]
    _set_encoding(enc)
    cur = dict(case["first"])

    def conv(t):
        return tinfo(enc, is_bytes, t).text

    w = urwid.Text(conv(cur["text"]), align=cur["align"], wrap=cur["wrap"])
    w.render((width,))
    w.rows((width,))
    for k, (setter, text, wrap, align) in enumerate(case["steps"]):
        if setter == "set_text":
            cur["text"] = text
            w.set_text(conv(text))
        elif setter == "set_wrap_mode":
            cur["wrap"] = wrap
            w.set_wrap_mode(wrap)
        elif setter == "set_align_mode":
            cur["align"] = align
            w.set_align_mode(align)
        elif setter == "set_layout":
            cur["wrap"], cur["align"] = wrap, align
            w.set_layout(align, wrap)
        elif setter == "wrap=":
            cur["wrap"] = wrap
            w.wrap = wrap
        elif setter == "align=":
            cur["align"] = align
            w.align = align
        else:
            cur["text"], cur["wrap"], cur["align"] = text, wrap, align
            w.set_layout(align, wrap)
            w.set_text(conv(text))
        got_rows = w.rows((width,))
        got = [bytes(r) for r in w.render((width,)).text]
        fresh = urwid.Text(conv(cur["text"]), align=cur["align"], wrap=cur["wrap"])
        urwid.CanvasCache.invalidate(fresh)
        exp = [bytes(r) for r in fresh.render((width,)).text]
        exp_rows = len(exp)
        what = f"[{enc} width {width}] step {k} {setter} -> text {cur['text']!r} wrap {cur['wrap']} align {cur['align']}"
        if got != exp:
            raise Violation("setter-not-reflected", f"{what}: the widget renders {got!r}, a new Text with these settings {exp!r}")
        if got_rows != exp_rows:
            raise Violation("rows", f"{what}: rows() says {got_rows}, {exp_rows} lines are rendered")


def _remode_strategy():
    def for_enc(enc):
        word = _word(enc, 8)
        token = st.one_of(word, st.just(" "), st.just("  "), st.just("\n"))
        text = st.lists(token, max_size=10).map(lambda toks: "".join(toks)[:30])
        step = st.tuples(st.sampled_from(SETTERS), text, st.sampled_from(WRAPS), st.sampled_from(ALIGNS)).map(list)
        return st.fixed_dictionaries({
            "enc": st.just(enc), "bytes": st.booleans(), "width": st.integers(1, 16),
            "first": st.fixed_dictionaries({"text": text, "wrap": st.sampled_from(WRAPS), "align": st.sampled_from(ALIGNS)}),
            "steps": st.lists(step, min_size=1, max_size=6),
        })

    return st.sampled_from(ENCODINGS).flatmap(for_enc)


def remode_sweep():
    """every (wrap, align) -> (wrap', align') transition through every setter that can make it, on one text that wraps"""
    for enc in ENCODINGS:
        text = "ab cd " + LETTERS[enc][-1] * 2 + " efg\nh"
        for w0 in WRAPS:
            for a0 in ALIGNS:
                for w1 in WRAPS:
                    for a1 in ALIGNS:
                        for setter in ("set_layout", "set_wrap_mode", "set_align_mode", "wrap=", "align="):
                            yield {"enc": enc, "bytes": False, "width": 5, "first": {"text": text, "wrap": w0, "align": a0},
                                   "steps": [[setter, text, w1, a1]]}


SUBS = {"short": check_layout, "long": check_long, "remode": check_remode, "switch": check_switch, "big": check_layout}


# ---------------------------------------------------------------------------------------------
# enumeration, strategies, classes


def is_nontrivial(case):
    try:
        info = tinfo(case["enc"], bool(case["bytes"]), case["text"])
    except Discard:
        return False
    return (info.nwords >= 2 or info.has_wide or info.has_zero) and info.max_pw > case["width"]


def classify(case):
    out = [f"{case['enc']}:{'bytes' if case['bytes'] else 'str'}", f"wrap:{case['wrap']}", f"align:{case['align']}"]
    try:
        info = tinfo(case["enc"], bool(case["bytes"]), case["text"])
    except Discard:
        return out
    w = case["width"]
    if info.max_pw > w:
        out.append("needs-wrap-or-clip")
        if info.has_wide:
            out.append("needs-wrap:has-double-width")
        if info.has_zero:
            out.append("needs-wrap:has-zero-width")
        if info.max_word > w:
            out.append("word-longer-than-width")
        if not EMOJI_MARKS.isdisjoint(case["text"]):
            out.append("needs-wrap:has-emoji-sequence-part")
    if len(info.paras) > 1:
        out.append("multi-paragraph")
    return out


def short_cases(ctx, encodings, maxlen, widths, kinds=(False, True), minlen=0, alphabet=None):
    for enc in encodings:
        alpha = alphabet or ALPHABETS[enc]
        idx = 0
        for n in range(minlen, maxlen + 1):
            for tup in itertools.product(alpha, repeat=n):
                idx += 1
                if not ctx.mine(idx):
                    continue
                s = "".join(tup)
                # quick tier: strings of the maximal length get one alignment each (rotating over the strings; the
                # alignment only decides the padding, which every shorter string exercises in full) - cost bound
                thin = ctx.tier == "quick" and n == maxlen and n >= (5 if alphabet is None else 4)
                for is_bytes in kinds:
                    for width in widths:
                        for wrap in WRAPS:
                            for align in ((ALIGNS[(idx + width) % len(ALIGNS)],) if thin else ALIGNS):
                                yield {"enc": enc, "bytes": is_bytes, "text": s, "width": width, "wrap": wrap, "align": align}


def _long_strategy():
    def for_enc(enc):
        word = _word(enc, 14)
        asciiword = st.text(alphabet="abcde", min_size=1, max_size=9)
        spaces = st.integers(1, 4).map(lambda k: " " * k)
        breaks = st.sampled_from(["\n", "\n\n", " \n", "\n "])
        token = st.one_of(word, asciiword, spaces, spaces, breaks)
        text = st.lists(token, max_size=24).map(lambda toks: "".join(toks)[:60])
        return st.fixed_dictionaries(
            {
                "enc": st.just(enc),
                "bytes": st.booleans(),
                "text": text,
                "width": st.integers(1, 30),
                "wrap": st.sampled_from(WRAPS),
                "align": st.sampled_from(ALIGNS),
            }
        )

    return st.sampled_from(ENCODINGS).flatmap(for_enc)


def shard(ctx):
    STATS.clear()
    # the small campaigns first (a few CPU seconds together), then the exhaustive enumeration and the two larger
    # Hypothesis campaigns: on an overloaded machine the wall-clock cap then cuts a tail, not whole campaigns
    ctx.sweep("remode", remode_sweep(), nontrivial=lambda c: True, classify=lambda c: ["remode:sweep"],
              exhaustive_name="every wrap/align transition through each setter on a long-lived Text")
    if ctx.failure is None:
        ctx.sweep("switch", switch_sweep(), nontrivial=switch_nontrivial, classify=switch_classify,
                  exhaustive_name="every chain of three encodings (utf-8, euc-jp, iso8859-1, gbk, ascii; neighbours differ) x "
                                  "wrap x align x width 1..6 x str/bytes laid out with only urwid.set_encoding in between")
    if ctx.failure is None:
        ctx.given("switch", _switch_strategy(), ctx.scale(200, 3000), nontrivial=switch_nontrivial, classify=switch_classify)
    if ctx.failure is None:
        ctx.given("big", _big_strategy(), ctx.scale(320, 4000), nontrivial=big_nontrivial, classify=big_classify)
    widths = range(1, 9)
    maxlen = ctx.scale(5, 6)
    if ctx.failure is None:
        ctx.sweep("short", short_cases(ctx, ENCODINGS, maxlen, widths), nontrivial=is_nontrivial, classify=classify,
                  exhaustive_name=f"all strings of length <= {maxlen} x width 1..8 x wrap x align (quick: one rotating alignment for the longest strings) x str/bytes x 3 encodings",
                  stride=False)
    emaxlen = ctx.scale(4, 5)
    if ctx.failure is None:
        ctx.sweep("short", short_cases(ctx, ("utf-8",), emaxlen, widths, alphabet=EMOJI_ALPHABET),
                  nontrivial=is_nontrivial, classify=classify,
                  exhaustive_name=f"utf-8: all strings of length <= {emaxlen} over the emoji-sequence alphabet (a, space, regional "
                                  "indicator, ZWJ, VS16, narrow and wide emoji base) x width 1..8 x wrap x align (quick: one "
                                  "rotating alignment for the longest strings) x str/bytes",
                  stride=False)
    if ctx.failure is None and ctx.tier == "thorough":
        ctx.sweep("short", short_cases(ctx, ("utf-8",), 7, range(1, 5), kinds=(False,), minlen=7),
                  nontrivial=is_nontrivial, classify=classify,
                  exhaustive_name="utf-8 str strings of length 7 x width 1..4 x wrap x align", stride=False)
    if ctx.failure is None:
        ctx.given("long", _long_strategy(), ctx.scale(1500, 30000), nontrivial=is_nontrivial, classify=classify)
    if ctx.failure is None:
        ctx.given("remode", _remode_strategy(), ctx.scale(300, 6000), nontrivial=lambda c: len(c["steps"]) >= 2,
                  classify=lambda c: ["remode:" + s[0] for s in c["steps"]])
    for k, v in sorted(STATS.items()):
        ctx.count(k, v)


# ---------------------------------------------------------------------------------------------
# known findings (active only when listed in known_findings.json / known_findings.d with status "known")



def _known_zero_column_text_segment(sub, case, v):
    """LayoutSegment.__init__ raises ValueError(seg) for a text segment (0, offs, end) that the layout code
    itself produced: either empty (offs == end: LayoutSegment.subseg cut a double-width character and no whole
    character is left; clip/ellipsis) or made only of zero-width characters (a line solely of zero-width
    characters in clip/ellipsis/space)."""
    if "enc" not in case or v.clause != "exception:ValueError@text_layout.py:__init__":
        return False
    m = re.fullmatch(r"ValueError: \(0, (\d+), (\d+)\)", v.message)
    if not m:
        return False
    info = tinfo(case["enc"], bool(case["bytes"]), case["text"])
    o, e = int(m.group(1)), int(m.group(2))
    if o == e:
        return case["wrap"] in ("clip", "ellipsis") and info.has_wide
    a, b = info.bidx.get(o), info.bidx.get(e)
    if a is None or b is None or not a < b:
        return False
    return case["wrap"] != "any" and all(info.wd[k] == 0 and info.kind[k] == "c" for k in range(a, b))


def _ellipsis_cuts(case):
    if "enc" not in case:
        return False  # remode / switch histories
    info = tinfo(case["enc"], bool(case["bytes"]), case["text"])
    return case["wrap"] == "ellipsis" and info.max_pw > case["width"]


def _known_ellipsis_mark_wide_encoding(sub, case, v):
    """_calculate_trimmed_segments measures the mark as a str ('…' = 1 column by the Unicode table) but emits it
    encoded; in a wide encoding that has '…' (euc-jp: A1 C4) the two bytes are 2 columns."""
    enc = case.get("enc", "ascii")
    return (
        v.clause == "segment-width"
        and "inserted text" in v.message
        and WO.mode_of(enc) == "wide"
        and ellipsis_mark(enc) == "…"
        and len("…".encode(enc)) == 2
        and case["width"] >= 2
        and _ellipsis_cuts(case)
    )


def _known_ellipsis_width_hardcoded(sub, case, v):
    """_calculate_trimmed_segments computes the trimmed text segment's width as ``width - 1 - pad_right``: right
    only for a 1-column mark.  Where the encoding lacks '…' the mark is '...' ('..' at width 3), and the segment
    claims more columns than its text has."""
    return (
        v.clause == "segment-width"
        and "inserted text" not in v.message
        and ellipsis_mark(case.get("enc", "utf-8")) == "..."
        and case["width"] >= 3
        and _ellipsis_cuts(case)
    )


KNOWN = {
    "C03-zero-column-text-segment": _known_zero_column_text_segment,
    "C03-ellipsis-mark-wide-encoding": _known_ellipsis_mark_wide_encoding,
    "C03-ellipsis-width-hardcoded": _known_ellipsis_width_hardcoded,
}
