"""C04 -- the bytes sent to the terminal paint exactly the rendered canvas.

Sub-checks (DESIGN.md C04):
  history   draw / clear / resize / set_terminal_properties / register_palette_entry / set_encoding histories on
            urwid.display.raw.Screen (pipe as input, capture object as output, no tty); after every draw the
            captured bytes are interpreted by the reference terminal (vlib.vtmodel.VT) and compared cell by cell
            with the canvas just drawn; a twin Screen that is clear()ed before every draw (full repaint) must
            leave an identical terminal.
  html      HtmlGenerator.draw_screen output parsed with html.parser: row texts and the cursor highlight.

A case is JSON: see ``_history_case`` / ``_html_case``.  Canvases are described size-independently (row specs
that are laid out at the current screen size), so the same spec is redrawn after a resize.
"""
from __future__ import annotations

import functools
import os
import warnings
from html.parser import HTMLParser

from hypothesis import strategies as st

from vlib import gen_text as T
from vlib import widths as W
from vlib.runner import Discard, Violation, innermost_is_urwid, urwid_frame
from vlib.vtmodel import DEC_SPECIAL, VT
from vlib.widths import use_encoding

PROPERTY = "C04"
LEVEL = "exploration"
RULE = (
    "history: Hypothesis op lists (1-8 steps; the first is a draw) over draw(fresh canvas spec) / mod(previous spec "
    "with 0-2 rows replaced and the cursor kept or moved; the most frequent op) / same(the identical canvas object "
    "again) / wdraw(render of a generated depth-2 box-widget tree) / clear() / resize(cols, rows; delivered as "
    "_sigwinch_handler + parse_input consuming the flag, optionally with a draw_screen attempted before the resize "
    "is handled) / props(set_terminal_properties colours, bright_is_bold, each also None = leave unchanged) / "
    "pal(register_palette_entry, followed by clear()) / enc(urwid.set_encoding to one of utf-8, utf8, iso8859-1, ascii, euc-jp while the Screen stays "
    "started, the terminal switched to the same encoding, followed by clear(); 1 op in 12, 4 in 15 in a campaign "
    "of its own; the canvases drawn afterwards are built from the same specs under the new encoding, characters "
    "outside its alphabet replaced by '~'); screen sizes 1..12 x 1..6; colours in {1,16,88,256,2^24}; back_color_erase on/off (terminal BCE on "
    "whenever the screen assumes it); bright_is_bold on/off; alternate buffer or partial-screen mode; palette "
    "registered before or after set_terminal_properties; starting encodings utf-8 / iso8859-1 / euc-jp. A palette "
    "entry draws every column over all of its documented values: the 17 / 9 basic colour names or the empty string "
    "(= default; for a foreground: settings without a colour), mono settings, 'default', '' or None, high-colour "
    "columns None (= the 16-colour value), a colour valid at 88 / 256 / 2^24, a basic name, 'default' or ''; the "
    "strings are spelled with ',' or ', ' and with the colour before or after the settings, the tuple given to "
    "register_palette has all six values or the shortest documented form (3 / 4 values). Canvas rows are "
    "attribute runs (None, palette names incl. aliases registered with the (name, like_name) form, undefined names, "
    "AttrSpec objects of the active depth with every setting) over ASCII, spaces, CJK wide, combining, emoji, DEC "
    "line drawing (charset '0' runs outside utf-8) and C0 controls, completed to the width by a fill character "
    "(space / narrow / wide / line drawing). Three enumerations of such histories run first: draw / props / redraw "
    "for every display setting x the palette field carrying it (basic, mono, high-colour) x every ordered pair of "
    "colour depths x palette registered before or after set_terminal_properties x back_color_erase (1800); draw / "
    "incremental draw for every palette column x every way of saying 'terminal default' in it ('default', '', "
    "settings only; None for the optional columns, which means something else) x the other optional columns given "
    "or None x every depth x registration order x back_color_erase, all other columns real colours (540); and "
    "draw / enc / redraw / enc / redraw / mod for every starting encoding x every ordered pair of encodings "
    "switched to x alternate or partial-screen mode (150). html: one canvas spec x colours x palette x cursor. Non-trivial "
    "(history): two consecutive draws at the same size with no clear in between that have at least one unchanged "
    "and one changed row, or a draw whose bottom-right cell is printed (not erased), or a wide character in the "
    "last two columns. Non-trivial (html): cursor present and at least two attribute runs in its row, or a "
    "character that needs escaping. Bounds are cost bounds only: <= 8 steps, <= 12 x 6 cells, <= 6 row specs."
)
ASSUMPTIONS = [
    "vlib/vtmodel.py (xterm semantics: pending-wrap, IRM insert mode, BCE, SO/SI with G1 = DEC special graphics) "
    "is the reference terminal; wcwidth is its width table",
    "urwid.AttrSpec accessors (foreground_basic/high/true, *_number, bold ... strikethrough) define the meaning of "
    "an attribute and AttrSpec() parses a colour / settings string, the empty string included (C18); "
    "register_palette_entry's documented depth selection and its None fall-backs (high-colour column None = the "
    "16-colour value, mono None = no settings) are re-implemented in the check",
    "TERM=xterm is set in the worker (bg_bright_is_blink off, no fbterm escapes); has_underline is not consulted "
    "by draw_screen; charset 'U' (IBM PC) runs are not generated",
    "the output stream encodes str with the screen encoding (what a TextIO on a terminal in that locale does); "
    "SIGWINCH is delivered by calling _sigwinch_handler (signal_handler_setter is replaced by a no-op so that two "
    "Screens can live in one process)",
    "a palette change after the first draw is followed by clear() (the statement speaks of draws, clears and size "
    "changes only; set_terminal_properties clears by itself); the None entry is not re-registered",
    "an encoding change in mid-session (urwid.set_encoding with the Screen started; draw_screen reads the encoding "
    "at every call) is followed by clear() on the Screen (screen_buf holds rows in the old encoding) and happens "
    "together with an out-of-band switch of the terminal's own encoding, which is modelled as keeping every "
    "charset designation (what G1 holds) and returning the terminal to G0 (so a shift-out left behind by the last "
    "non-utf-8 draw is not held against a following utf-8 draw); widget trees are not carried into or drawn "
    "under another encoding than the one the history started in",
    "a blank cell shows only background, underline, standout and strikethrough (and the foreground when one of "
    "these is set); with bright_is_bold a basic foreground 8..15 is 'bold + colour-8'",
    "partial-screen mode starts on a blank terminal with the cursor at the top-left and as many rows as the "
    "canvas (the mode's own precondition: room below the cursor); rows that are blank by the mode's own test (one "
    "run of whitespace bytes, any attribute) may be left off the display: their attributes are not compared and a "
    "blank glyph is accepted; no resize in partial mode",
    "text is valid in the encoding; a row does not start with a zero-width character; DEL and C1 are not generated; "
    "in euc-jp a double-byte character that wcwidth shows in one column (e.g. the ellipsis mark) discards the case",
    "html: colours are only used to recognise the highlighted character (swapped colour / background of its run); "
    "'at most one cursor cell' is read as: no highlight without a canvas cursor, at most one highlighted character, "
    "and it covers the cursor column",
]

ENCS = ["utf-8", "utf-8", "iso8859-1", "euc-jp"]
# what an "enc" step may switch to: the three encodings a history can start in, the second spelling of utf-8 that
# urwid.set_encoding lists ("utf8": draw_screen takes it for a non-"utf-8" name) and plain ascii
SWITCH_ENCS = ["utf-8", "utf8", "iso8859-1", "ascii", "euc-jp"]
_CANON = {"utf8": "utf-8", "latin-1": "iso8859-1"}
DEPTHS = [1, 16, 88, 256, 2**24]

BASIC_FG = ["default", "black", "dark red", "dark green", "brown", "dark blue", "dark magenta", "dark cyan",
            "light gray", "dark gray", "light red", "light green", "yellow", "light blue", "light magenta",
            "light cyan", "white"]
BASIC_BG = ["default", "black", "dark red", "dark green", "brown", "dark blue", "dark magenta", "dark cyan",
            "light gray"]
HIGH = {
    88: ["#fcc", "g40", "h8", "h87", "#009", "h15"],
    256: ["#fea", "#009", "g40", "g#cc", "h8", "h255", "#23facc", "h9"],
    2**24: ["#23facc", "#fcc", "g40", "h200", "#000", "#0102fe"],
}
# valid at 88, 256 and 2**24 (register_palette_entry builds all three); the last one is the other documented
# spelling of the terminal default ("An empty string will be treated the same as 'default'", "If the color is not
# given then 'default' will be assumed"), which is not None ("use foreground / background parameter value")
HIGH_COMMON = ["#fcc", "g40", "h8", "h200", "#009", "light red", "default", "#23facc", "h12", ""]
# the 16-colour columns of a palette entry: the documented names and the empty string (appended, so that the
# indices of recorded cases keep their meaning)
PAL_FG = [*BASIC_FG, ""]
PAL_BG = [*BASIC_BG, ""]
MONO_EMPTY = 64  # mono mask bit: no settings are spelled "" instead of "default"
SETTINGS = ["bold", "italics", "underline", "blink", "standout", "strikethrough"]
FLAG_OF = {"bold": "bold", "italics": "italic", "underline": "underline", "blink": "blink", "standout": "reverse",
           "strikethrough": "strike"}
ALLFLAGS = frozenset(FLAG_OF.values())
VISFLAGS = frozenset({"underline", "reverse", "strike"})

NAMES = ["a1", "a2", "hl", "p0", "p1"]
UNDEFINED = ["nope"]
DEC_REV = {v: k for k, v in DEC_SPECIAL.items()}
CONTROLS = ["\t", "\x01", "\x1b", "\n"]


def _settings(mask):
    return [s for i, s in enumerate(SETTINGS) if mask >> i & 1]


def _fg_list(depth):
    if depth == 1:
        return ["default"]
    return BASIC_FG + (HIGH.get(depth, []))


def _bg_list(depth):
    if depth == 1:
        return ["default"]
    return BASIC_BG + (HIGH.get(depth, []))


def make_attrspec(tok, depth):
    """["S", i, j, mask] -> AttrSpec valid at `depth`"""
    from urwid.display.common import AttrSpec

    fgs, bgs = _fg_list(depth), _bg_list(depth)
    fg = ",".join([fgs[tok[1] % len(fgs)], *_settings(tok[3])])
    return AttrSpec(fg, bgs[tok[2] % len(bgs)], depth)


# ---------------------------------------------------------------------------------------------
# palette model (register_palette / register_palette_entry as documented)


class Palette:
    def __init__(self):
        self.entries = {}  # name -> {depth: AttrSpec}

    @staticmethod
    def _strings(e):
        """palette entry [name, fi, bi, mask, mono_mask|None, hfi|None, hbi|None, hmask(, spelling)] -> the 5 strings.
        spelling (absent = 0): bit 0 = ", " between the comma-separated parts (as in AttrSpec's own examples),
        bit 1 = the colour after the settings instead of in front of them.  A colour "" is one that is not given:
        the string holds the settings only (and is empty without any)"""
        _name, fi, bi, mask, mono, hfi, hbi, hmask = e[:8]
        sp = e[8] if len(e) > 8 else 0
        sep = ", " if sp & 1 else ","

        def fg_string(colour, settings):
            colour = [colour] if colour else []
            return sep.join([*settings, *colour] if sp & 2 else [*colour, *settings])

        fg = fg_string(PAL_FG[fi % len(PAL_FG)], _settings(mask))
        bg = PAL_BG[bi % len(PAL_BG)]
        mono_s = None if mono is None else (sep.join(_settings(mono)) or ("" if mono & MONO_EMPTY else "default"))
        fgh = None if hfi is None else fg_string(HIGH_COMMON[hfi % len(HIGH_COMMON)], _settings(hmask))
        bgh = None if hbi is None else HIGH_COMMON[hbi % len(HIGH_COMMON)]
        return fg, bg, mono_s, fgh, bgh

    @staticmethod
    def as_tuple(e):
        """the tuple handed to register_palette: all six values, or (spelling bit 2) the shortest of the documented
        3 / 4 / 6-value forms that says the same (trailing values that are None left out)"""
        fg, bg, mono, fgh, bgh = Palette._strings(e)
        if len(e) > 8 and e[8] & 4 and fgh is None and bgh is None:
            return (e[0], fg, bg) if mono is None else (e[0], fg, bg, mono)
        return (e[0], fg, bg, mono, fgh, bgh)

    def define(self, e):
        from urwid.display.common import AttrSpec

        fg, bg, mono, fgh, bgh = self._strings(e)
        basic = AttrSpec(fg, bg, 16)
        fgh = fg if fgh is None else fgh
        bgh = bg if bgh is None else bgh

        def large_h(d):
            # "hN" with N > 15, wherever the colour stands among the comma-separated parts
            return any(p[:1] == "h" and p[1:].isdigit() and int(p[1:]) > 15 for p in (q.strip() for q in d.split(",")))

        self.entries[e[0]] = {
            16: basic,
            1: AttrSpec(mono or "default", "default", 1),
            88: basic if large_h(fgh) or large_h(bgh) else AttrSpec(fgh, bgh, 88),
            256: AttrSpec(fgh, bgh, 256),
            2**24: AttrSpec(fgh, bgh, 2**24),
        }

    def alias(self, name, other):
        self.entries[name] = self.entries[other]

    def resolve(self, attr, depth):
        """canvas attribute -> AttrSpec | None (terminal default)"""
        from urwid.display.common import AttrSpec

        if isinstance(attr, AttrSpec):
            return attr
        e = self.entries.get(attr)
        return None if e is None else e[depth]


def palette_items(spec_list):
    """case palette -> list of ('entry', e) / ('alias', name, other) with aliases of unknown names dropped"""
    out, seen = [], set()
    for e in spec_list:
        if len(e) == 2:
            if e[1] in seen and e[0] != e[1]:
                out.append(("alias", e[0], e[1]))
                seen.add(e[0])
        else:
            out.append(("entry", e))
            seen.add(e[0])
    return out


def style_of(aspec, bib):
    """AttrSpec | None -> (fg, bg, flags) in the reference terminal's representation"""
    if aspec is None:
        return None, None, frozenset()
    flags = {FLAG_OF[s] for s in SETTINGS if getattr(aspec, s)}

    def rgb(n):
        return (n >> 16) & 255, (n >> 8) & 255, n & 255

    fg = bg = None
    if aspec.foreground_true:
        fg = rgb(aspec.foreground_number)
    elif aspec.foreground_high:
        fg = aspec.foreground_number
    elif aspec.foreground_basic:
        fg = aspec.foreground_number
        if fg > 7 and bib:
            fg -= 8
            flags.add("bold")
    if aspec.background_true:
        bg = rgb(aspec.background_number)
    elif aspec.background_high or aspec.background_basic:
        bg = aspec.background_number
    return fg, bg, frozenset(flags)


# ---------------------------------------------------------------------------------------------
# canvas specs -> cells (pure) -> TextCanvas


def canon(enc):
    return _CANON.get(enc, enc)


@functools.lru_cache(maxsize=None)
def _repertoire(enc):
    c = canon(enc)
    return frozenset(T.DEC) if c == "ascii" else frozenset(T.ALPHABET[c])


def fit_char(ch, enc):
    """the character as a canvas built under `enc` holds it: ASCII and the encoding's alphabet (vlib.gen_text) as
    they are, anything else (only met after an "enc" step) replaced by '~'.  enc None: no replacement"""
    if enc is None or ord(ch) < 0x80 or ch in _repertoire(enc):
        return ch
    return "~"


def char_cols(ch):
    if ch in CONTROLS:
        return 1  # urwid counts C0 controls as one column; the display shows '?'
    return W.char_width(ch)


def layout_row(rowspec, cols, enc=None):
    """-> list of [attr_tok, text] segments occupying exactly `cols` columns"""
    out = []
    col = 0
    for tok, text in rowspec["segs"]:
        seg = ""
        for ch in text:
            ch = fit_char(ch, enc)
            w = char_cols(ch)
            if w == 0:
                if col == 0:
                    continue  # a row never starts with a zero-width character
                seg += ch
                continue
            if col + w > cols:
                break
            seg += ch
            col += w
        if seg:
            out.append([tok, seg])
        if col >= cols:
            break
    ftok, fch = rowspec["fill"]
    fch = fit_char(fch, enc)
    fw = char_cols(fch)
    if fw < 1:
        fch, fw = " ", 1
    seg = ""
    while col < cols:
        if col + fw > cols:
            seg += " "
            col += 1
        else:
            seg += fch
            col += fw
    if seg:
        out.append([ftok, seg])
    return out


def layout(spec, cols, rows, enc=None):
    rs = spec["rows"]
    return [layout_row(rs[y % len(rs)], cols, enc) for y in range(rows)]


def row_cells(segs):
    """segments -> list of (glyph, tok) per column; '' marks the right half of a wide character"""
    cells = []
    for tok, text in segs:
        for ch in text:
            w = char_cols(ch)
            if w == 0:
                continue
            cells.append((ch, _tok_key(tok)))
            if w == 2:
                cells.append(("", _tok_key(tok)))
    return cells


def _tok_key(tok):
    return tuple(tok) if isinstance(tok, list) else tok


def build_canvas(spec, cols, rows, enc, depth):
    """spec -> urwid.TextCanvas of exactly cols x rows"""
    import urwid

    texts, attrs, css = [], [], []
    dec = canon(enc) != "utf-8"  # line drawing characters travel as charset "0" runs
    for segs in layout(spec, cols, rows, enc):
        tb, ar, cr = b"", [], []
        for tok, text in segs:
            attr = make_attrspec(tok, depth) if isinstance(tok, list) else tok
            n = 0
            for ch in text:
                if dec and ch in DEC_REV:
                    b, cs = DEC_REV[ch].encode("ascii"), "0"
                else:
                    b, cs = ch.encode(enc), None
                tb += b
                n += len(b)
                if cr and cr[-1][0] == cs:
                    cr[-1] = (cs, cr[-1][1] + len(b))
                else:
                    cr.append((cs, len(b)))
            if ar and ar[-1][0] == attr and not isinstance(tok, list):
                ar[-1] = (attr, ar[-1][1] + n)
            else:
                ar.append((attr, n))
        texts.append(tb)
        attrs.append(ar)
        css.append(cr)
    cur = spec.get("cursor")
    cursor = None if cur is None else (cur[0] % cols, cur[1] % rows)
    return urwid.TextCanvas(texts, attrs, css, cursor=cursor, maxcol=cols)


def expected_grid(canvas, enc, mode):
    """canvas.content() -> rows of (glyph, attr) per column; glyph '' = right half of a wide character"""
    grid = []
    for row in canvas.content():
        cells = []
        for attr, cs, bs in row:
            if cs == "0":
                for b in bs:
                    ch = chr(b)
                    cells.append((DEC_SPECIAL.get(ch, ch) if b >= 0x20 else "?", attr))
                continue
            if cs is not None:
                raise Discard()
            for s, e, w in W.chars(bs, mode):
                piece = bs[s:e]
                if len(piece) == 1 and piece[0] < 0x20:
                    cells.append(("?", attr))
                    continue
                ch = piece.decode(enc, "replace")
                if mode == "wide" and w == 2 and (len(ch) != 1 or W.char_width(ch) != 2):
                    # a double-byte character a Unicode terminal shows in one column (East Asian ambiguous, e.g.
                    # the ellipsis mark): outside the wide-mode precondition "two bytes = two columns"
                    raise Discard()
                if w == 0:
                    k = len(cells) - 1
                    while k >= 0 and cells[k][0] == "":
                        k -= 1
                    if k >= 0:  # (a zero-width character at the start of a row has no cell to join)
                        cells[k] = (cells[k][0] + ch, cells[k][1])
                    continue
                cells.append((ch, attr))
                if w == 2:
                    cells.append(("", attr))
        grid.append(cells)
    return grid


# ---------------------------------------------------------------------------------------------
# the rig: one Screen + one reference terminal


class _Capture:
    def __init__(self):
        self.buf = []

    def write(self, data):
        self.buf.append(data)

    def flush(self):
        pass


def _screen_class():
    from urwid.display import raw

    class RigScreen(raw.Screen):
        """the terminal size comes from the model terminal (a real one is asked with TIOCGWINSZ)"""

        vf_size = (80, 24)

        def get_cols_rows(self):
            self.maxrow = self.vf_size[1]
            return self.vf_size

    return RigScreen


class Rig:
    def __init__(self, case, label):
        self.label = label
        self.enc = case["enc"]
        self.cap = _Capture()
        self.rfd, self.wfd = os.pipe()
        self.inp = os.fdopen(self.rfd, "rb", 0)
        self.screen = _screen_class()(input=self.inp, output=self.cap)
        self.screen.vf_size = (case["cols"], case["rows"])
        # the hook event loops use to install handlers their own way: the harness delivers SIGWINCH by calling
        # _sigwinch_handler itself, so the process-wide handler table is left alone (two Screens live side by side)
        self.screen.signal_handler_setter = lambda signum, handler: None
        self.vt = VT(case["cols"], case["rows"], bce=case.get("term_bce", True) or case["bce"], encoding=self.enc)
        self.fed = 0

    def close(self):
        try:
            if self.screen.started:
                self.screen.stop()
        finally:
            for s in (self.screen._resize_pipe_rd, self.screen._resize_pipe_wr):
                s.close()
            self.inp.close()
            os.close(self.wfd)

    def pump(self):
        data = "".join(d if isinstance(d, str) else d.decode(self.enc, "replace") for d in self.cap.buf)
        self.cap.buf.clear()
        # the stream encodes with the encoding of the moment and the terminal decodes with the same one (every write
        # is pumped whole, so no character is split between two calls)
        self.vt.feed(data.encode(self.enc, "replace").decode(self.enc, "replace"))
        return data

    def switch_encoding(self, enc):
        """the terminal is switched to another character encoding (out of band: a menu entry, ESC % G / ESC % @);
        modelled as also returning it to G0 -- the designations, in particular what G1 holds, stay as they are"""
        self.pump()
        self.enc = enc
        self.vt.feed("\x0f")


def _viol(clause, message, **data):
    v = Violation(clause, message)
    v.data = data
    return v


def _mode_blank(row):
    """partial-screen mode's own notion of a row it may leave off the display: one run of whitespace bytes
    (whatever its attribute; bytes.strip() also takes TAB LF VT FF CR for blank)"""
    return len(row) == 1 and not row[0][2].strip()


def compare(rig, canvas, pal, depth, bib, mode, where, partial=False, raw_canvas=True):
    """oracle clauses 1-3 for one terminal"""
    vt = rig.vt
    tag = rig.label
    if vt.errors:
        raise _viol("terminal-rejects", f"{where} [{tag}]: the terminal does not know {vt.errors[:3]}")
    if vt.scroll_events or vt.wrap_events:
        raise _viol("scrolled", f"{where} [{tag}]: {vt.scroll_events} scroll and {vt.wrap_events} autowrap events")
    if vt.insert_mode:
        raise _viol("insert-mode-left-on", f"{where} [{tag}]: the terminal is left in insert mode")
    exp = expected_grid(canvas, rig.enc, mode)
    content = list(canvas.content())
    shown = [vt.row_text(r) for r in range(vt.rows)]
    for y, row in enumerate(exp):
        if len(row) != vt.cols:
            if not raw_canvas:
                raise Discard()  # a widget tree rendered a row of the wrong width: C01 / C02
            raise _viol("canvas-wider-than-screen",
                        f"{where} [{tag}]: row {y} of the {vt.cols}-column canvas paints {len(row)} columns: "
                        f"{[c[0] for c in row]}")
        weak_row = partial and _mode_blank(content[y])
        for x, (glyph, attr) in enumerate(row):
            cell = vt.grid[y][x]
            if weak_row and cell.glyph == " ":
                continue
            if cell.glyph != glyph:
                raise _viol("cell-glyph", f"{where} [{tag}]: cell ({x},{y}) shows {cell.glyph!r}, canvas has {glyph!r}; "
                                          f"terminal {shown}, canvas {[''.join(c[0] for c in r) for r in exp]}",
                            x=x, y=y, got=cell.glyph, exp=glyph)
            if weak_row:
                continue
            fg, bg, flags = style_of(pal.resolve(attr, depth), bib)
            got_flags = cell.flags & ALLFLAGS
            if glyph in (" ", ""):
                # a blank (or the right half of a wide character): background and the line/reverse settings
                bad = cell.bg != bg or (got_flags & VISFLAGS) != (flags & VISFLAGS)
                if not bad and glyph == " " and flags & VISFLAGS and cell.fg != fg:
                    bad = True
            else:
                bad = cell.fg != fg or cell.bg != bg or got_flags != flags
            if bad:
                raise _viol("cell-attr", f"{where} [{tag}]: cell ({x},{y}) {glyph!r} attribute {attr!r} shows fg={cell.fg} "
                                         f"bg={cell.bg} {sorted(got_flags)}, expected fg={fg} bg={bg} {sorted(flags)}; "
                                         f"terminal {shown}",
                            x=x, y=y, glyph=glyph, got=(cell.fg, cell.bg, sorted(got_flags)),
                            exp=(fg, bg, sorted(flags)), attr=repr(attr))
    if canvas.cursor is None:
        if vt.cursor_visible:
            raise _viol("cursor", f"{where} [{tag}]: the canvas has no cursor, the terminal shows one at {vt.cursor}")
    elif not vt.cursor_visible or vt.cursor != tuple(canvas.cursor):
        raise _viol("cursor", f"{where} [{tag}]: canvas cursor {tuple(canvas.cursor)}, terminal cursor {vt.cursor} "
                              f"visible={vt.cursor_visible}")


def _draw(rig, size, canvas, where):
    """draw_screen; an exception raised inside urwid becomes the Violation the runner would make of it, so that
    the facts the known-finding predicates need can be attached"""
    try:
        rig.screen.draw_screen(size, canvas)
    except Exception as e:  # noqa: BLE001
        if not innermost_is_urwid(e):
            raise
        raise _viol(f"exception:{type(e).__name__}@{urwid_frame(e)}",
                    f"{where} [{rig.label}]: {type(e).__name__}: {e}") from e


def render_widget(wspec, size, enc):
    """box widget spec -> canvas of exactly `size`, or Discard (C01 territory)"""
    import urwid
    from vlib import gen_widgets as G

    try:
        with warnings.catch_warnings(record=True) as rec:
            warnings.simplefilter("always")
            w = G.build(wspec["w"], enc)
            canvas = w.render(size, focus=bool(wspec.get("focus")))
            canvas = urwid.CompositeCanvas(canvas)
            rows = list(canvas.content())
    except Exception:  # noqa: BLE001  building / rendering trees is C01's subject
        raise Discard() from None
    if rec or canvas.cols() != size[0] or canvas.rows() != size[1] or len(rows) != size[1]:
        raise Discard()
    cur = canvas.cursor
    if cur is not None and not (0 <= cur[0] < size[0] and 0 <= cur[1] < size[1]):
        raise Discard()
    return canvas


def check_history(case):
    os.environ["TERM"] = "xterm"
    enc = case["enc"]
    mode = use_encoding(enc)
    cols, rows = case["cols"], case["rows"]
    depth, bib = case["colors"], case["bib"]
    alt = case.get("alt", True)
    pal = Palette()
    pal.define([None, 0, 0, 0, None, None, None, 0])  # the screen registers None as default/default itself
    items = palette_items(case.get("palette", []))
    inc, full = Rig(case, "incremental"), Rig(case, "full-repaint")
    rigs = (inc, full)
    try:
        for rig in rigs:
            s = rig.screen
            s.back_color_erase = case["bce"]
            if case.get("props_first", True):
                s.set_terminal_properties(colors=depth, bright_is_bold=bib)
            plist = []
            for it in items:
                if it[0] == "entry":
                    plist.append(Palette.as_tuple(it[1]))
                else:
                    plist.append((it[1], it[2]))
            s.register_palette(plist)
            if not case.get("props_first", True):
                s.set_terminal_properties(colors=depth, bright_is_bold=bib)
            s.start(alternate_buffer=alt)
            rig.pump()
        for it in items:
            if it[0] == "entry":
                pal.define(it[1])
            else:
                pal.alias(it[1], it[2])

        last_spec = None
        last_canvas = None
        assumed_cy = 0  # partial-screen mode: the row the application's bookkeeping can know the cursor is on
        drift = False
        for i, step in enumerate(case["steps"]):
            kind = step[0]
            canvas = None
            if kind == "draw":
                last_spec = step[1]
                canvas = build_canvas(last_spec, cols, rows, enc, depth)
            elif kind == "mod":
                base = last_spec if last_spec is not None and "rows" in last_spec else {"rows": [], "cursor": None}
                new_rows = [dict(r) for r in base["rows"]]
                for idx, rowspec in step[1]["edits"]:
                    if new_rows:
                        new_rows[idx % len(new_rows)] = rowspec
                    else:
                        new_rows.append(rowspec)
                if not new_rows:
                    continue
                cur = step[1]["cursor"]
                last_spec = {"rows": new_rows, "cursor": base.get("cursor") if cur == "keep" else cur}
                canvas = build_canvas(last_spec, cols, rows, enc, depth)
            elif kind == "same":
                if last_spec is None:
                    continue
                if last_canvas is not None:
                    canvas = last_canvas
                elif "rows" in last_spec:
                    canvas = build_canvas(last_spec, cols, rows, enc, depth)
                else:
                    canvas = render_widget(last_spec, (cols, rows), enc)
            elif kind == "wdraw":
                if enc != case["enc"]:
                    continue  # the tree's texts were generated for the encoding the history started in
                last_spec = step[1]
                canvas = render_widget(last_spec, (cols, rows), enc)
            elif kind == "clear":
                inc.screen.clear()
                continue
            elif kind == "props":
                # None: "leave unchanged" (documented for every parameter)
                for rig in rigs:
                    rig.screen.set_terminal_properties(colors=step[1], bright_is_bold=step[2])
                depth = depth if step[1] is None else step[1]
                bib = bib if step[2] is None else step[2]
                last_canvas = None
                continue
            elif kind == "pal":
                fg, bg, mono, fgh, bgh = Palette._strings(step[1])
                for rig in rigs:
                    rig.screen.register_palette_entry(step[1][0], fg, bg, mono, fgh, bgh)
                    rig.screen.clear()  # weaker reading: a palette change is followed by a forced repaint
                pal.define(step[1])
                continue
            elif kind == "enc":
                enc = step[1]
                mode = use_encoding(enc)  # the application: urwid.set_encoding(enc) (and no stale caches)
                for rig in rigs:
                    rig.switch_encoding(enc)
                    rig.screen.clear()  # weaker reading: an encoding change is followed by a forced repaint
                last_canvas = None
                if last_spec is not None and "rows" not in last_spec:
                    last_spec = None  # a widget tree is not carried into another encoding
                continue
            elif kind == "resize":
                if not alt:
                    continue
                ncols, nrows = step[1], step[2]
                for rig in rigs:
                    rig.vt.resize(ncols, nrows)
                    rig.screen.vf_size = (ncols, nrows)
                    rig.screen._sigwinch_handler(28, None)
                    if step[3] and last_spec is not None and "rows" in last_spec:
                        # the application draws once more before it has seen the resize: must be harmless
                        rig.screen.draw_screen((cols, rows), build_canvas(last_spec, cols, rows, enc, depth))
                    keys, _raw = rig.screen.parse_input(None, None, rig.screen.get_available_raw_input())
                    if "window resize" not in keys:
                        raise Violation("resize-not-reported", f"step {i}: parse_input returned {keys!r} after SIGWINCH")
                    if tuple(rig.screen.get_cols_rows()) != (ncols, nrows):
                        raise AssertionError("rig size")
                    rig.pump()
                cols, rows = ncols, nrows
                last_canvas = None
                continue
            else:
                raise AssertionError(step)

            # ---- a draw ----
            where = f"after step {i} ({kind}, {cols}x{rows}, {depth} colours, {enc})"
            sent = ["", ""]
            try:
                _draw(inc, (cols, rows), canvas, where)
                full.screen.clear()
                _draw(full, (cols, rows), canvas, where)
                sent = [rig.pump() for rig in rigs]
                for rig in rigs:
                    compare(rig, canvas, pal, depth, bib, mode, where, not alt, "rows" in last_spec)
            except Violation as v:
                v.data = dict(getattr(v, "data", {}), cols=cols, rows=rows, depth=depth, enc=canon(enc), alt=alt,
                              partial_drift=drift, bce=case["bce"], step=i,
                              content=[[(repr(a), cs, bs.decode("latin-1")) for a, cs, bs in row]
                                       for row in canvas.content()])
                v.message += f"; bytes {sent[0]!r}"
                raise
            a, b = inc.vt, full.vt
            snap_a, snap_b = a.snapshot(), b.snapshot()
            if not alt:
                # partial-screen mode leaves blank rows (its own notion: whitespace bytes) off the display
                blank = [_mode_blank(r) for r in canvas.content()]
                snap_a, snap_b = (tuple(() if blank[y] else row for y, row in enumerate(sn)) for sn in (snap_a, snap_b))
            if drift and not alt and snap_a != snap_b:
                v = _viol("differs-from-full-repaint", f"{where}: partial-screen mode after a cursor-less draw")
                v.data.update(alt=alt, partial_drift=drift)
                raise v
            if snap_a != snap_b or a.cursor_visible != b.cursor_visible or (
                    a.cursor_visible and a.cursor != b.cursor):
                raise _viol("differs-from-full-repaint",
                            f"{where}: incremental redraw shows {[a.row_text(r) for r in range(a.rows)]} cursor "
                            f"{a.cursor if a.cursor_visible else None}, full repaint shows "
                            f"{[b.row_text(r) for r in range(b.rows)]} cursor {b.cursor if b.cursor_visible else None}; "
                            f"incremental bytes {sent[0]!r}", alt=alt, partial_drift=drift, step=i)
            last_canvas = canvas
            if not alt:
                if canvas.cursor is not None:
                    assumed_cy = canvas.cursor[1]
                elif inc.vt.y != assumed_cy or full.vt.y != assumed_cy:
                    drift = True  # the terminal cursor was left on another row than the last canvas cursor's
    finally:
        try:
            try:
                full.close()
            finally:
                inc.close()
        finally:
            use_encoding("utf-8")


# ---------------------------------------------------------------------------------------------
# html


class _Pre(HTMLParser):
    def __init__(self):
        super().__init__(convert_charrefs=True)
        self.rows = [[]]
        self.style = None
        self.depth = 0
        self.stray = []

    def handle_starttag(self, tag, attrs):
        if tag == "span":
            self.depth += 1
            self.style = dict(attrs).get("style", "")
        elif tag != "pre":
            self.stray.append(tag)

    def handle_endtag(self, tag):
        if tag == "span":
            self.depth -= 1
            self.style = None

    def handle_data(self, data):
        if self.depth:
            self.rows[-1].append((data, self.style))
            return
        for ch in data:
            if ch == "\n":
                self.rows.append([])
            else:
                self.stray.append(ch)


def _css(style):
    d = {}
    for part in (style or "").split(";"):
        k, _, v = part.partition(":")
        d[k.strip()] = v.strip()
    return d.get("color"), d.get("background")


def check_html(case):
    from urwid.display import html_fragment
    from urwid.display.common import AttrSpec

    enc = case["enc"]
    use_encoding(enc)
    try:
        cols, rows, depth = case["cols"], case["rows"], case["colors"]
        gen = html_fragment.HtmlGenerator()
        html_fragment.HtmlGenerator.fragments = []
        gen.set_terminal_properties(colors=depth)
        pal = Palette()
        pal.define([None, 1, 8, 0, None, None, None, 0])  # HtmlGenerator: None = black on light gray
        for it in palette_items(case.get("palette", [])):
            if it[0] == "entry":
                gen.register_palette([Palette.as_tuple(it[1])])
                pal.define(it[1])
            else:
                gen.register_palette([(it[1], it[2])])
                pal.alias(it[1], it[2])
        canvas = build_canvas(case["canvas"], cols, rows, enc, depth)
        gen.draw_screen((cols, rows), canvas)
        frags = html_fragment.screenshot_collect()
        if len(frags) != 1:
            raise Violation("html-fragments", f"{len(frags)} fragments after one draw_screen")
        frag = frags[0]
        if not (frag.startswith("<pre>") and frag.endswith("</pre>")):
            raise Violation("html-frame", f"fragment is not one <pre> element: {frag[:60]!r}")
        p = _Pre()
        p.feed(frag)
        p.close()
        if p.stray:
            raise Violation("html-stray", f"text or tags outside the row spans: {p.stray[:8]!r} in {frag!r}")
        got_rows = p.rows
        if got_rows and got_rows[-1] == []:
            got_rows = got_rows[:-1]
        content = list(canvas.content())
        if len(got_rows) != len(content):
            raise Violation("html-rows", f"{len(got_rows)} rows in the fragment, canvas has {len(content)}: {frag!r}")
        d_fg, d_bg = "#000000", "#c0c0c0"
        highlighted = []
        for y, (spans, row) in enumerate(zip(got_rows, content)):
            exp_chars = []  # (char, normal (fg,bg) colours or None)
            for attr, cs, bs in row:
                text = "".join("?" if ord(c) < 32 else c for c in bs.decode(enc))
                aspec = pal.resolve(attr, depth)
                colours = None
                if aspec is not None or attr is None:
                    r = (aspec or AttrSpec("black", "light gray")).get_rgb_values()
                    fgc = d_fg if r[0] is None else "#%02x%02x%02x" % tuple(r[0:3])
                    bgc = d_bg if r[3] is None else "#%02x%02x%02x" % tuple(r[3:6])
                    if aspec is not None and aspec.standout:
                        fgc, bgc = bgc, fgc
                    colours = (fgc, bgc)
                exp_chars.extend((c, colours) for c in text)
            got_text = "".join(t for t, _ in spans)
            exp_text = "".join(c for c, _ in exp_chars)
            if got_text != exp_text:
                raise Violation("html-text", f"row {y}: fragment has {got_text!r}, canvas has {exp_text!r}")
            k = 0
            col = 0
            for t, style in spans:
                fgc, bgc = _css(style)
                for c in t:
                    normal = exp_chars[k][1]
                    w = char_cols(c) if ord(c) >= 32 else 1
                    if normal is not None and normal[0] != normal[1] and (fgc, bgc) == (normal[1], normal[0]):
                        highlighted.append((y, col, w, c))
                    col += w
                    k += 1
        if len(highlighted) > 1:
            raise Violation("html-cursor", f"{len(highlighted)} highlighted characters {highlighted!r} (cursor "
                                           f"{canvas.cursor})")
        if highlighted:
            y, col, w, c = highlighted[0]
            if canvas.cursor is None:
                raise Violation("html-cursor", f"{c!r} at ({col},{y}) is highlighted, the canvas has no cursor")
            cx, cy = canvas.cursor
            if y != cy or not (col <= cx < col + max(w, 1)):
                raise Violation("html-cursor", f"{c!r} at columns {col}..{col + w - 1} of row {y} is highlighted, "
                                               f"the cursor is at {(cx, cy)}")
    finally:
        use_encoding("utf-8")


SUBS = {"history": check_history, "html": check_html}

# ---------------------------------------------------------------------------------------------
# strategies (built once per parameter set: constructing strategies inside a composite costs more than the check)


_SPACE_STANDINS = "\u2000\u2001\u2002\u2003\u2004\u2005"  # drawn as characters, turned into spaces (weighting)
_SPACE_TABLE = {ord(c): " " for c in _SPACE_STANDINS}
_MASKS = [0, 0, 0, 1, 2, 4, 8, 16, 32, 5, 20, 33, 48, 63]


def _text(enc, controls, max_size=8):
    alpha = set(T.ALPHABET[enc]) | set(' <&"') | set(_SPACE_STANDINS)
    if controls:
        alpha |= set(CONTROLS)
    # one draw_string primitive per text instead of two choices per character
    return st.text(alphabet="".join(sorted(alpha)), min_size=0, max_size=max_size).map(lambda t: t.translate(_SPACE_TABLE))


def _decode_s(n):
    return ["S", n % 31, n // 31 % 21, _MASKS[n // (31 * 21)]]


@functools.lru_cache(maxsize=None)
def _attr_tok(undefined=True):
    names = NAMES + (UNDEFINED if undefined else [])
    return st.one_of(
        st.none(),
        st.sampled_from(names + names),
        st.integers(0, 31 * 21 * len(_MASKS) - 1).map(_decode_s),
    )


@functools.lru_cache(maxsize=None)
def _rowspec(enc, undefined=True, controls=True):
    text = _text(enc, controls)
    fills = [" ", " ", " ", "x", "─"] + (["漢"] if enc != "iso8859-1" else ["é"])
    return st.fixed_dictionaries({
        "segs": st.lists(st.tuples(_attr_tok(undefined), text).map(list), min_size=0, max_size=4),
        "fill": st.tuples(_attr_tok(undefined), st.sampled_from(fills)).map(list),
    })


_cursor_always = st.tuples(st.integers(0, 11), st.integers(0, 5)).map(list)
_cursor = st.one_of(st.none(), _cursor_always)


@functools.lru_cache(maxsize=None)
def _canvas_spec(enc, undefined=True, controls=True, cursors=False):
    return st.fixed_dictionaries({"rows": st.lists(_rowspec(enc, undefined, controls), min_size=1, max_size=6),
                                  "cursor": _cursor_always if cursors else _cursor})


@functools.lru_cache(maxsize=None)
def _pal_entry(names=tuple(NAMES)):
    # every column over all of its documented values: the colour names, "" (the last index of each table), None where
    # the column is optional; then the spelling of the strings / the tuple form (Palette._strings, Palette.as_tuple)
    high = st.one_of(st.none(), st.sampled_from([*range(len(HIGH_COMMON)), len(HIGH_COMMON) - 1]))
    return st.tuples(st.sampled_from(names), st.integers(0, len(PAL_FG) - 1), st.integers(0, len(PAL_BG) - 1),
                     st.sampled_from([0, 0, 0, 1, 4, 16, 32, 21, 42, 63]),
                     st.one_of(st.none(), st.sampled_from([0, 1, 4, 16, 32, 63, MONO_EMPTY])),
                     high, high,
                     st.sampled_from([0, 0, 0, 2, 8, 32, 63]),
                     st.sampled_from([0, 0, 0, 0, 1, 2, 3, 4, 5, 6, 7])).map(list)


@functools.lru_cache(maxsize=None)
def _palette():
    item = st.one_of(_pal_entry(), _pal_entry(), _pal_entry(),
                     st.tuples(st.sampled_from(NAMES), st.sampled_from(NAMES)).map(list))
    return st.lists(item, min_size=0, max_size=5)


_cols = st.sampled_from(list(range(1, 13)) + [1, 2, 3, 4])
_rows = st.integers(1, 6)


@functools.lru_cache(maxsize=None)
def _history_for(enc, controls, widgets, partial, cursors, switches=1):
    canvas = _canvas_spec(enc, True, controls, cursors)
    mod = st.fixed_dictionaries({
        "edits": st.lists(st.tuples(st.integers(0, 5), _rowspec(enc, True, controls)).map(list), min_size=0, max_size=2),
        "cursor": st.one_of(st.just("keep"), _cursor_always if cursors else _cursor),
    })
    mod1 = st.fixed_dictionaries({
        "edits": st.lists(st.tuples(st.integers(0, 5), _rowspec(enc, True, controls)).map(list), min_size=1, max_size=1),
        "cursor": st.one_of(st.just("keep"), _cursor_always if cursors else _cursor),
    })
    draw_op = st.tuples(st.just("draw"), canvas)
    mod_op = st.tuples(st.just("mod"), mod)
    mod1_op = st.tuples(st.just("mod"), mod1)
    ops = [
        draw_op, mod_op, mod_op, mod1_op, mod1_op, mod1_op,
        st.tuples(st.just("same")),
        st.tuples(st.just("clear")),
        st.tuples(st.just("resize"), _cols, _rows, st.booleans()),
        st.tuples(st.just("props"), st.sampled_from([*DEPTHS, None]), st.sampled_from([False, True, None])),
        st.tuples(st.just("pal"), _pal_entry()),
    ]
    ops += [st.tuples(st.just("enc"), st.sampled_from(SWITCH_ENCS))] * switches
    first = draw_op
    if widgets:
        from vlib import gen_widgets as G

        wd = st.tuples(st.just("wdraw"), st.fixed_dictionaries({"w": G.widget("box", 2, enc), "focus": st.booleans()}))
        ops += [wd, wd, wd]
        first = st.one_of(wd, wd, draw_op)
    steps = st.tuples(first, st.lists(st.one_of(ops), min_size=0, max_size=7)).map(
        lambda t: [list(t[0]), *[list(o) for o in t[1]]])
    return st.fixed_dictionaries({
        "enc": st.just(enc), "cols": _cols, "rows": _rows,
        "colors": st.sampled_from(DEPTHS),
        "bib": st.booleans(),
        "bce": st.booleans(),
        "term_bce": st.booleans(),  # only consulted when the screen does not assume BCE
        "alt": st.just(False) if partial else st.sampled_from([True] * 5 + [False]) if partial is None else st.just(True),
        "props_first": st.booleans(),
        "palette": _palette(),
        "steps": steps,
    })


# utf-8: a control character always runs into the recorded width inconsistency, so most cases have none
_ENC_MIX = [("utf-8", False)] * 8 + [("utf-8", True)] + [("iso8859-1", True)] * 3 + [("euc-jp", True)] * 3


# histories made for encoding switches: no control characters where utf-8 is the start (see above), all three starts
_ENC_MIX_SWITCH = [("utf-8", False)] * 3 + [("iso8859-1", True), ("iso8859-1", False), ("euc-jp", True), ("euc-jp", False)]


def _history_case(widgets=False, partial=None, cursors=False, switches=1):
    """cursors=True: every canvas has a cursor (partial-screen mode behind the recorded _cy finding);
    switches: weight of the "enc" step among the ops (1 of 12 by default; 4 = the encoding-switch campaign)"""
    mix = _ENC_MIX if switches == 1 else _ENC_MIX_SWITCH
    return st.one_of([_history_for(enc, controls, widgets, partial, cursors, switches) for enc, controls in mix])


@functools.lru_cache(maxsize=None)
def _html_for(enc, controls, defined):
    palette = _palette()
    if defined:
        palette = st.tuples(st.tuples(*[_pal_entry((n,)) for n in NAMES]), palette).map(lambda t: [*t[0], *t[1]])
    return st.fixed_dictionaries({
        "enc": st.just(enc), "cols": _cols, "rows": _rows,
        "colors": st.sampled_from(DEPTHS[:4] if defined else DEPTHS),
        "palette": palette,
        "canvas": _canvas_spec(enc, not defined, controls),
    })


def _html_case(defined=False):
    """defined=True: every attribute name used is in the palette and the depth is one HtmlGenerator lists
    (the campaign behind the two recorded KeyError findings)"""
    return st.one_of([_html_for(enc, True, defined) for enc in ENCS])


# ---------------------------------------------------------------------------------------------
# non-trivial / classes (pure functions of the case)


def _walk_history(case):
    """yield (kind, cols, rows, cell rows | None, previous cell rows | None (nothing drawn before / forced repaint),
    encoding) for every draw"""
    cols, rows = case["cols"], case["rows"]
    alt = case.get("alt", True)
    enc = case["enc"]
    last = None
    prev = None
    forced = True
    for step in case["steps"]:
        k = step[0]
        spec = None
        if k == "draw":
            spec = last = step[1]
        elif k == "mod":
            base = last if last is not None and "rows" in last else {"rows": [], "cursor": None}
            new_rows = list(base["rows"])
            for idx, rs in step[1]["edits"]:
                if new_rows:
                    new_rows[idx % len(new_rows)] = rs
                else:
                    new_rows.append(rs)
            if not new_rows:
                continue
            spec = last = {"rows": new_rows, "cursor": None}
        elif k == "same":
            if last is None:
                continue
            spec = last
        elif k == "wdraw":
            if enc != case["enc"]:
                continue
            spec = last = step[1]
        elif k in ("clear", "props", "pal"):
            forced = True
            continue
        elif k == "enc":
            enc = step[1]
            forced = True
            if last is not None and "rows" not in last:
                last = None
            continue
        elif k == "resize":
            if alt:
                cols, rows = step[1], step[2]
                forced = True
            continue
        cells = [row_cells(r) for r in layout(spec, cols, rows, enc)] if "rows" in spec else None
        yield k, cols, rows, cells, (prev if not forced else None), enc
        prev = cells
        forced = False


def _history_features(case):
    out = set()
    out.add(f"enc={case['enc']}")
    out.add(f"colours={case['colors']}")
    out.add("alternate-buffer" if case.get("alt", True) else "partial-screen")
    out.add(f"bce={'on' if case['bce'] else 'off'}")
    if any(len(e) == 2 for e in case.get("palette", [])):
        out.add("palette-alias")
    for step in case["steps"]:
        if step[0] in ("clear", "resize", "props", "pal", "same", "wdraw", "enc"):
            out.add(f"op:{step[0]}")
    drawn_in = []  # canonical encodings of the draws so far
    for _k, cols, rows, cells, prev, enc in _walk_history(case):
        if cols == 1:
            out.add("one-column")
        c = canon(enc)
        if drawn_in and drawn_in[-1] != c:
            kinds = ["utf-8" if e == "utf-8" else "non-utf-8" for e in (drawn_in[-1], c)]
            out.add(f"draw-after-switch:{kinds[0]}->{kinds[1]}")
            if cells is not None and any(g in DEC_REV for r in cells for g, _t in r):
                out.add(f"line-drawing-after-switch:{kinds[0]}->{kinds[1]}")
            if len(set(drawn_in)) >= 2 and c in drawn_in:
                out.add("draw-after-switch-back")
        drawn_in.append(c)
        if enc not in (case["enc"], c):
            out.add(f"spelling:{enc}")
        if cells is None:
            continue
        last = cells[-1]
        if last and last[-1][0] != " ":
            out.add("NT:bottom-right-printed")
        if any(len(r) >= 2 and "" in (r[-1][0], r[-2][0]) for r in cells):
            out.add("NT:wide-in-last-two-columns")
        if any(r and r[-1][0] == " " for r in cells):
            out.add("trailing-blank")
        if prev is not None and len(prev) == len(cells) and all(len(a) == len(b) for a, b in zip(prev, cells)):
            same = sum(1 for a, b in zip(prev, cells) if a == b)
            if 0 < same < len(cells):
                out.add("NT:row-skip")
            elif same == len(cells):
                out.add("all-rows-unchanged")
    return out


def _history_nontrivial(case):
    return any(f.startswith("NT:") for f in _history_features(case))


def _history_classes(case):
    return sorted("history:" + f.replace("NT:", "") for f in _history_features(case))


def _html_features(case):
    out = {f"enc={case['enc']}", f"colours={case['colors']}"}
    cols, rows = case["cols"], case["rows"]
    segs = layout(case["canvas"], cols, rows)
    cur = case["canvas"].get("cursor")
    if cur is not None:
        out.add("cursor")
        if len(segs[cur[1] % rows]) >= 2:
            out.add("NT:cursor-row-with-runs")
    if any(c in "<&\"" for row in segs for _t, text in row for c in text):
        out.add("NT:escaped-character")
    return out


def _html_nontrivial(case):
    return any(f.startswith("NT:") for f in _html_features(case))


def _html_classes(case):
    return sorted("html:" + f.replace("NT:", "") for f in _html_features(case))


# ---------------------------------------------------------------------------------------------
# deterministic sweeps (ordinary history cases, enumerated instead of drawn)

_SWEEP_ROWS = [
    {"segs": [["a1", "ab"]], "fill": ["a1", " "]},  # trailing blanks in the named attribute (erase shortcut)
    {"segs": [], "fill": ["a1", " "]},  # a blank row in it
    {"segs": [[None, "c"]], "fill": ["a1", "x"]},  # printed cells in it, bottom-right cell included
]


def _palette_sweep():
    """every display setting x the palette field that carries it (basic foreground / mono / high-colour foreground)
    x every pair of colour depths (the one in force at the first draw, the one set_terminal_properties changes to
    before the second) x palette registered before / after the first set_terminal_properties x back_color_erase"""
    for bit in range(len(SETTINGS)):
        for field in ("basic", "mono", "high"):
            m = 1 << bit
            entry = ["a1", 3, 0, m if field == "basic" else 0, m if field == "mono" else None,
                     0 if field == "high" else None, None, m if field == "high" else 0]
            for d0 in DEPTHS:
                for d1 in DEPTHS:
                    for props_first in (True, False):
                        for bce in (True, False):
                            yield {
                                "enc": "utf-8", "cols": 5, "rows": 3, "colors": d0, "bib": False, "bce": bce,
                                "term_bce": True, "alt": True, "props_first": props_first, "palette": [entry],
                                "steps": [["draw", {"rows": _SWEEP_ROWS, "cursor": None}],
                                          ["props", d1, d0 == d1],  # (same depth: bright_is_bold changes instead)
                                          ["same"]],
                            }


def _default_spelling_sweep():
    """every column of a palette entry (foreground, background, mono, foreground_high, background_high) x every
    documented way of saying "the terminal's default" in it ('default', the empty string, for the two foreground
    columns also settings without a colour) and, for the optional columns, None (= "use the 16-colour value",
    "no settings") x the other optional columns given or left None x every colour depth x palette registered before /
    after set_terminal_properties x back_color_erase; every other column holds a real colour.  A full draw and an
    incremental one"""
    d_fg, e_fg = PAL_FG.index("default"), PAL_FG.index("")
    d_bg, e_bg = PAL_BG.index("default"), PAL_BG.index("")
    d_hi, e_hi = HIGH_COMMON.index("default"), HIGH_COMMON.index("")
    real = {"fi": 12, "bi": 5, "mask": 0, "mono": None, "hfi": 0, "hbi": 4, "hmask": 0}
    variants = []
    for others in ({}, {"hfi": None, "hbi": None}):
        variants += [dict(real, **others, fi=v, mask=m) for v, m in ((d_fg, 0), (e_fg, 0), (e_fg, 4))]
        variants += [dict(real, **others, bi=v) for v in (d_bg, e_bg)]
    for other in ({}, {"hbi": None}):
        variants += [dict(real, **other, hfi=v, hmask=m) for v, m in ((d_hi, 0), (e_hi, 0), (e_hi, 4), (None, 0))]
    for other in ({}, {"hfi": None}):
        variants += [dict(real, **other, hbi=v) for v in (d_hi, e_hi, None)]
    variants += [dict(real, mono=v) for v in (0, MONO_EMPTY, 4)]
    for v in variants:
        entry = ["a1", v["fi"], v["bi"], v["mask"], v["mono"], v["hfi"], v["hbi"], v["hmask"]]
        for depth in DEPTHS:
            for props_first in (True, False):
                for bce in (True, False):
                    yield {
                        "enc": "utf-8", "cols": 5, "rows": 3, "colors": depth, "bib": False, "bce": bce,
                        "term_bce": True, "alt": True, "props_first": props_first, "palette": [entry],
                        "steps": [["draw", {"rows": _SWEEP_ROWS, "cursor": None}],
                                  ["mod", {"edits": [[0, {"segs": [["a1", "d"]], "fill": [None, " "]}]],
                                           "cursor": "keep"}]],
                    }


_ENC_SWEEP_ROWS = [
    {"segs": [[None, "a┌─┘"]], "fill": [None, " "]},
    {"segs": [["a1", "漢é"]], "fill": ["a1", "─"]},
    {"segs": [[None, "x"]], "fill": [None, "│"]},
]


def _encoding_sweep():
    """every starting encoding x every ordered pair of encodings switched to afterwards (a draw under each of the
    three, the last one an incremental one) x alternate buffer / partial-screen mode; the rows hold ASCII, line
    drawing, a wide and a Latin-1 character (whatever the encoding of the moment has of them)"""
    for e0 in ("utf-8", "iso8859-1", "euc-jp"):
        for e1 in SWITCH_ENCS:
            for e2 in SWITCH_ENCS:
                for alt in (True, False):
                    yield {
                        "enc": e0, "cols": 6, "rows": 3, "colors": 16, "bib": True, "bce": True, "term_bce": True,
                        "alt": alt, "props_first": True, "palette": [["a1", 3, 4, 0, None, None, None, 0]],
                        "steps": [["draw", {"rows": _ENC_SWEEP_ROWS, "cursor": [0, 0]}],
                                  ["enc", e1], ["same"],
                                  ["enc", e2], ["same"],
                                  ["mod", {"edits": [[0, {"segs": [["a1", "◆┘b"]], "fill": [None, "─"]}]],
                                           "cursor": [1, 1]}]],
                    }


# ---------------------------------------------------------------------------------------------
# campaign


def shard(ctx):
    ctx.sweep("history", _palette_sweep(), nontrivial=_history_nontrivial, classify=_history_classes,
              exhaustive_name="history: setting x palette field x depth pair x registration order x bce")
    if ctx.failure is None:
        ctx.sweep("history", _default_spelling_sweep(), nontrivial=_history_nontrivial, classify=_history_classes,
                  exhaustive_name="history: palette column x spelling of the default colour x optional columns x "
                                  "depth x registration order x bce")
    if ctx.failure is None:
        ctx.sweep("history", _encoding_sweep(), nontrivial=_history_nontrivial, classify=_history_classes,
                  exhaustive_name="history: starting encoding x two encoding switches x screen mode")
    if ctx.failure is not None:
        return
    n_hist = ctx.scale(240, 8000)
    n_wid = ctx.scale(50, 1500)
    n_part = ctx.scale(60, 1000)
    n_html = ctx.scale(110, 2500)
    n_enc = ctx.scale(60, 1500)
    ctx.given("history", _history_case(), n_hist, nontrivial=_history_nontrivial, classify=_history_classes)
    if ctx.failure is None:
        ctx.given("history", _history_case(partial=True), n_part // 4, nontrivial=_history_nontrivial,
                  classify=_history_classes)
    if ctx.failure is None:
        ctx.given("history", _history_case(partial=True, cursors=True), n_part - n_part // 4,
                  nontrivial=_history_nontrivial, classify=_history_classes)
    if ctx.failure is None:
        ctx.given("history", _history_case(widgets=True), n_wid, nontrivial=_history_nontrivial,
                  classify=_history_classes)
    if ctx.failure is None:
        ctx.given("history", _history_case(switches=4), n_enc, nontrivial=_history_nontrivial,
                  classify=_history_classes)
    if ctx.failure is None:
        ctx.given("html", _html_case(), n_html // 4, nontrivial=_html_nontrivial, classify=_html_classes)
    if ctx.failure is None:
        ctx.given("html", _html_case(defined=True), n_html - n_html // 4, nontrivial=_html_nontrivial,
                  classify=_html_classes)


# ---------------------------------------------------------------------------------------------
# known findings (active only when listed in known_findings.d/C04.json with status "known")


def _content_rows(v):
    return getattr(v, "data", {}).get("content") or []


def _last_two(row, enc):
    """[width, charset, holds a C0 control] of the last two column-occupying characters of a content row
    [(attr, cs, latin-1 text)], each taken together with the zero-width characters that follow it"""
    out = []
    mode = W.mode_of(enc)
    for _a, cs, text in row:
        bs = text.encode("latin-1")
        if cs is not None:
            out.extend([1, cs, b < 0x20] for b in bs)
            continue
        for s, e, w in W.chars(bs, mode):
            ctl = e - s == 1 and bs[s] < 0x20
            if ctl and enc != "utf-8":
                w = 1  # one byte, one column
            if w:
                out.append([w, None, ctl])
            elif out and ctl:
                out[-1][2] = True  # utf-8: urwid gives a control no column of its own
    return out[-2:]


def _k_last_row_back(sub, case, v):
    # _last_row returns width(y) as the number of backspaces; the cursor has to move back over z
    if sub != "history" or v.clause not in ("cell-glyph", "cell-attr"):
        return False
    d = v.data
    rows = _content_rows(v)
    if not rows or d.get("y") != d["rows"] - 1 or d["cols"] < 2:
        return False
    two = _last_two(rows[-1], d["enc"])
    return len(two) == 2 and two[0][0] != two[1][0]


def _run_chars(run, enc):
    """[(width, is C0 control)] of the characters of one content run (attr, cs, latin-1 text), as urwid counts them"""
    _a, cs, text = run
    bs = text.encode("latin-1")
    if cs is not None:
        return [(1, b < 0x20) for b in bs]
    out = []
    for s, e, w in W.chars(bs, W.mode_of(enc)):
        ctl = e - s == 1 and bs[s] < 0x20
        out.append((0 if (ctl and enc == "utf-8") else (1 if ctl else w), ctl))
    return out


def _k_last_row_prev_segment(sub, case, v):
    # _last_row assumes that the last run of the row is not empty and, when the bottom-right character starts it
    # ("we need another segment"), that row[-2] exists and holds a character with a column
    if sub != "history":
        return False
    d = getattr(v, "data", {})
    rows = _content_rows(v)
    if not rows:
        return False
    last_row = rows[-1]
    empty_run = any(text == "" for _a, _cs, text in last_row)
    if v.clause in ("exception:IndexError@display/_raw_display_base.py:_last_row",
                    "exception:IndexError@str_util.py:within_double_byte"):
        # no previous run at all (a 2-column screen whose last row is one double-width character), or an empty run
        single_wide = (d["cols"] == 2 and len(last_row) == 1
                       and [c[0] for c in _run_chars(last_row[0], d["enc"]) if c[0]] == [2])
        return single_wide or empty_run
    if v.clause not in ("cell-glyph", "cell-attr") or d.get("y") != d["rows"] - 1 or len(last_row) < 2:
        return False
    last = _run_chars(last_row[-1], d["enc"])
    prev_cols = sum(c[0] for c in _run_chars(last_row[-2], d["enc"]))
    # the bottom-right character is the only one with a column in the last run, and either the previous run holds
    # zero-width characters only or the last run starts with zero-width characters (which belong to y's cell)
    return empty_run or (len([c for c in last if c[0]]) == 1 and (prev_cols == 0 or last[0][0] == 0))


def _k_alias(sub, case, v):
    # register_palette((name, like_name)) copies the entry into _palette without the UPDATE_PALETTE_ENTRY signal:
    # the raw display has no escape sequence for the alias until set_terminal_properties rebuilds the table
    if sub != "history" or v.clause != "cell-attr":
        return False
    kind = {}
    for it in palette_items(case.get("palette", [])):
        kind[repr(it[1] if it[0] == "alias" else it[1][0])] = it[0]
    for step in case["steps"][: v.data["step"]]:
        if step[0] == "pal":
            kind[repr(step[1][0])] = "entry"
    return kind.get(v.data["attr"]) == "alias"  # the name's last registration is the (name, like_name) form


def _k_insert_charset(sub, case, v):
    # the character slid in with insert mode is sent in the charset of the row's last run (cs), not its own (insertcs)
    if sub != "history" or v.clause != "cell-glyph":
        return False
    d = v.data
    rows = _content_rows(v)
    if not rows or d["enc"] == "utf-8" or (d.get("x"), d.get("y")) != (d["cols"] - 2, d["rows"] - 1):
        return False
    two = _last_two(rows[-1], d["enc"])
    return len(two) == 2 and two[0][1] != two[1][1]


def _k_insert_control(sub, case, v):
    # the character slid in with insert mode is not passed through the control-character translation
    if sub != "history" or v.clause not in ("scrolled", "cell-glyph", "cell-attr", "cursor", "terminal-rejects",
                                            "insert-mode-left-on"):
        return False
    d = v.data
    rows = _content_rows(v)
    if not rows or d["cols"] < 2:
        return False
    two = _last_two(rows[-1], d["enc"])
    return len(two) == 2 and two[0][2]


def _k_strike_erased(sub, case, v):
    # trailing blanks are replaced by erase-to-end-of-line unless standout/underline: strikethrough is not considered
    if sub != "history" or v.clause != "cell-attr":
        return False
    d = v.data
    return bool(d["bce"]) and d["glyph"] == " " and "strike" in d["exp"][2] and "strike" not in d["got"][2]


def _k_html_undefined(sub, case, v):
    if sub != "html" or v.clause != "exception:KeyError@display/html_fragment.py:draw_screen":
        return False
    defined = {it[1][0] if it[0] == "entry" else it[1] for it in palette_items(case.get("palette", []))}
    used = {tok for row in case["canvas"]["rows"] for tok, _t in [*row["segs"], row["fill"]] if isinstance(tok, str)}
    return any(repr(n) in v.message for n in used - defined)


def _has_c0(rows):
    return any(cs is None and any(ord(c) < 0x20 for c in text) for row in rows for _a, cs, text in row)


def _k_utf8_control(sub, case, v):
    # utf-8: str_util measures a C0 control as 0 columns, draw_screen paints it as a one-column '?'
    if sub != "history" or v.clause not in ("canvas-wider-than-screen", "scrolled", "cell-glyph", "cell-attr", "cursor"):
        return False
    return v.data["enc"] == "utf-8" and _has_c0(_content_rows(v))


def _k_partial_cy(sub, case, v):
    # partial-screen mode: _cy is only updated when the canvas has a cursor
    if sub != "history" or v.clause not in ("scrolled", "cell-glyph", "cell-attr", "cursor", "differs-from-full-repaint"):
        return False
    return not v.data["alt"] and bool(v.data["partial_drift"])


def _k_html_truecolour(sub, case, v):
    return (sub == "html" and v.clause == "exception:KeyError@display/html_fragment.py:draw_screen"
            and case["colors"] == 2**24 and "16777216" in v.message)


KNOWN = {
    "C04-last-row-backspace-width": _k_last_row_back,
    "C04-last-row-previous-segment": _k_last_row_prev_segment,
    "C04-partial-cy-without-cursor": _k_partial_cy,
    "C04-html-truecolour-keyerror": _k_html_truecolour,
    "C04-palette-alias-not-registered": _k_alias,
    "C04-insert-charset": _k_insert_charset,
    "C04-insert-control-untranslated": _k_insert_control,
    "C04-utf8-control-width": _k_utf8_control,
    "C04-strikethrough-blanks-erased": _k_strike_erased,
    "C04-html-undefined-attribute": _k_html_undefined,
}
