"""C05 - terminal input decodes to the same events however it is fragmented.

Driver: a ``raw_display.Screen`` that is never started; only its abstract ``_read_raw_input`` is
replaced (it returns the next fragment chosen by the case).  Every fragment goes through the real
``get_available_raw_input()`` (carry-over of ``_partial_codes``) and the real
``parse_input(fake_loop, callback, codes)`` - exactly what ``hook_event_loop``'s watch-file wrapper
does.  The fake loop records ``alarm()/remove_alarm()``; the *case* says after which cut the
completion timeout fires, so the schedule is owned by the check.  A second, small driver feeds a
started Screen through a real ``os.pipe`` and calls ``get_input()``.

Oracles (DESIGN.md C05 **O**): (1) never raises, (2) raw-byte conservation, (3) independent protocol
decode of the independently generated forms (incl. UTF-8: CPython's codec says which byte strings are
characters; every byte that belongs to none is one event of its own), (4) events(whole) ==
events(any fragmentation without timeouts), where a fragmentation may contain reads that return
nothing (the input callback woken without new bytes: resize pipe, gpm, get_input() polling), (4b) with
timeouts: the pending bytes are decoded as they stand, i.e. as if the stream ended at that cut,
(5) composition / pass-through: a self-delimiting item decodes to the same events whatever follows
it; an ESC in front of a self-delimiting item X gives 'esc' + events(X), or X's first key with 'meta '
in front when that key has no meta modifier yet (independent of urwid's own decode of ESC X).  After every run of the input callback: bytes accounted for are a prefix of what was fed, and
bytes still pending are covered by an armed completion alarm.
"""
from __future__ import annotations

import codecs
import io
import json
import os
import re
import subprocess
import sys

from hypothesis import strategies as st

import urwid  # noqa: F401
from urwid.display import escape
from urwid.display import raw as raw_display
from vlib.runner import Discard, Violation
from vlib.widths import use_encoding

PROPERTY = "C05"
LEVEL = "exploration"
RULE = (
    "stream: a byte stream is a concatenation of 1-12 grammar items (an input_sequences entry; xterm "
    "CSI 1;m X / CSI n;m ~ / SS3 X / SS3 m X written from the xterm documentation, m in 2..8; X10 mouse "
    "ESC[M + 3 arbitrary bytes; SGR mouse ESC[<b;x;y(M|m) with b,x,y in 0..2**20; SGR reports with a "
    "malformed parameter list; cursor position reports; UTF-8 characters of 1-4 bytes; UTF-8-shaped "
    "byte strings that may or may not be characters (lead + announced number of continuation bytes "
    "biased to the overlong / surrogate / > U+10FFFF boundaries, 5/6-byte forms, stray continuation and "
    "0xF8-0xFF bytes, one continuation byte replaced); double-byte characters; a byte >= 0x80 followed by "
    "a byte that is no second half; a stray byte >= 0x80 in front of any self-delimiting item; C0 bytes; "
    "printable bytes; ESC-prefixed (meta) items; truncated items; arbitrary bytes) x the two built-in "
    "fragmentations (byte by byte; byte by byte with a wake-up of the input callback that reads nothing "
    "after every read) plus 1-6 generated ones (sorted cut positions, each with a flag 'the completion "
    "timeout fires here' and a flag 'the input callback runs once more here and reads nothing') x "
    "encoding in utf-8 / euc-jp / iso8859-1 x the input timeouts of the Screen: never set (one case in four), or "
    "set_input_timeouts(max_wait, complete_wait) called before the first read with complete_wait in 0 / 0.0 / "
    "0.125 / 1 / 0.01 / 1e-06 / 2.5 / 30.0 and max_wait in None / 0 / 0.05 / 2.0, for some cases called again "
    "with other values before the second and third read. Exhaustive sweeps: every one of these complete_wait "
    "values x every recognised item (followed by a printable byte) x 3 encodings, byte by byte, cut after the first "
    "byte with the timeout firing and cut before the last byte with a wake-up and the timeout, and every ordered "
    "pair of values with the second one set between two reads that end inside a sequence; every input_sequences entry x 3 "
    "encodings x every single cut x (plain / timeout / wake-up without input / both); every "
    "independently written xterm form likewise; X10 mouse with every value of each of its three bytes; "
    "SGR mouse button codes 0..127; an ESC byte, and two, in front of every input_sequences entry, every "
    "xterm form with every modifier parameter, an X10 and an SGR report per modifier set, cursor position "
    "reports, a character of every class and every C0 / printable byte (whole, cut after the ESC with and "
    "without timeout / wake-up, cut inside the sequence); every UTF-8-shaped sequence (lead 0xC0-0xF7 x all 64 second bytes x "
    "extreme later bytes; alone with every single cut, between printable bytes, doubled before a key "
    "sequence); every two-byte character of gbk / big5 / uhc / euc-jp; every byte >= 0x80 in front of every "
    "byte that cannot be a second half (0x00-0x3F, DEL) and in front of ESC-led key / mouse / cursor-position / "
    "meta forms (double-byte codecs, utf-8, iso8859-1; cut after the byte plain / timeout / wake-up), and "
    "four such bytes in front of every recognised item. Non-trivial: the stream contains "
    "a multi-byte item and at least one cut of a case fragmentation falls strictly inside it. sync: the "
    "same streams written to a pipe whole or in up to three pieces and read with Screen.get_input(), "
    "one call per write plus calls that find nothing new. Thorough tier adds an atheris coverage-guided "
    "campaign over the same oracle (arbitrary bytes + fragmentation header)."
)
ASSUMPTIONS = [
    "the explicit cut list replaces the OS read() scheduling; Screen._read_raw_input (abstract, "
    "documented override point) is substituted to return the next fragment, get_available_raw_input and "
    "parse_input are the real ones",
    "a fake event loop owns the completion alarm: 'timeout fires' = every alarm still armed is called",
    "'the completion timeout' is the Screen's configurable complete_wait (set_input_timeouts: 'floating point "
    "numbers of seconds', default 0.125): every non-negative int or float is a valid delay, zero included (the "
    "timeout expires at once: 'do not wait for the rest of a sequence'). The statement's clauses hold for every "
    "such value: bytes still pending after a read are covered by an alarm armed with exactly the delay set by the "
    "latest set_input_timeouts call (the harness keeps its own record of it), when the case lets it fire they are "
    "decoded as they stand, and the events are those a Screen with default timeouts produces for the same cuts "
    "and firings. Whether the remainder of a sequence arrives before or after the alarm of a zero timeout is "
    "dispatched is the event loop's choice, so with complete_wait 0 both schedules are generated like for any "
    "other value. max_wait / resize_wait only govern get_input()'s blocking and must not influence decoding",
    "a read that returns no bytes is one of the 'successive reads' of the statement: the posix "
    "_read_raw_input returns an empty bytearray whenever the watch callback was woken by another "
    "descriptor (resize pipe, gpm) and get_input() polls with max_wait; such a wake-up happens before the "
    "completion timeout, so it must change neither the events nor the bytes accounted for, and bytes "
    "still pending after it must still be covered by an armed completion alarm ('rather than lost')",
    "names for the independently generated forms come from the xterm ctlseqs documentation (PC-style "
    "function keys, modifier parameter 2..8 = 1 + shift(1) + alt(2) + ctrl(4)); urwid's documented "
    "spelling is used: 'shift ', 'meta ' (Alt), 'ctrl ' in that order, keypad digits/operators as the "
    "character, 'page up'/'page down'",
    "mouse reports outside the protocol-defined / urwid-documented domain (X10 button byte < 32 or "
    "with bit 128, wheel with low bits 2/3, motion without button, SGR b >= 128) are only required to "
    "decode to one mouse tuple, nothing is asserted about its name; nothing is asserted about an SGR "
    "coordinate sent as 0 (the protocol is 1-based)",
    "X10 coordinates: one byte = (1-based position + 32) mod 256, so bytes 33..255 are columns/rows "
    "0..222 and bytes 0..32 are the wrapped encoding of 223..255 - the reading escape.py documents "
    "('supports 0-255') and the only one compatible with userinput.rst ('coordinates starting from "
    "(0, 0)': never negative); asserted for all 256 values of each coordinate byte",
    "ESC + X, X self-delimiting and not starting with '[' / 'O' (so that ESC X.. is no table sequence): the "
    "accepted event lists are 'esc' followed by the events of X (the ESC is a byte that forms no known "
    "sequence and X is decoded undisturbed), or - only if the first event of X is a key name that does "
    "not already carry the meta modifier - the events of X with 'meta ' put in front of the first one "
    "(userinput.rst: ALT+J = 'meta j'; a documented name has each modifier word at most once). Which of "
    "the two urwid chooses, and the order of 'meta' relative to other modifier words, is not asserted. "
    "Applied recursively to ESC ESC X",
    "ESC[1;mR with m in 1..8 is ambiguous (modified F3 / cursor position row 1): either decode accepted",
    "xterm forms urwid's table does not know (modified Insert CSI 2;m~, SS3 M/l/X/E) are generated but "
    "only oracles 1, 2, 4 apply to them (the statement speaks of *recognised* sequences)",
    "C0 bytes 0 and 28..31, and stray UTF-8 continuation / 0xF8-0xFF bytes, must each be exactly one "
    "string event; their spelling is not asserted",
    "utf-8 mode, bytes >= 0x80: what is a character is decided by CPython's UTF-8 codec (RFC 3629: no "
    "overlong forms, no surrogates, nothing above U+10FFFF), run incrementally with surrogateescape so "
    "that it also segments: a well-formed character is one event equal to the character, every other "
    "byte is 'a byte that forms no known sequence' = exactly one string event of its own (spelling not "
    "asserted). A string that ends inside a character which further bytes could complete is not "
    "self-delimiting: only oracles 1, 2, 4 apply to it",
    "wide (double-byte) mode, bytes >= 0x80, read strictly left to right: lead 0x81-0xFE followed by "
    "0x40-0x7E or 0x80-0xFE is the double-byte character (one event, the two bytes) - the union of the "
    "second-half ranges of the EUC, Big5, GBK and UHC families urwid maps to this mode; a byte >= 0x80 "
    "followed by a byte outside every second-half range (0x00-0x3F: C0 bytes incl. ESC, space, digits, "
    "punctuation; 0x7F) is a character in none of them, hence 'a byte that forms no known sequence': exactly "
    "one string event of its own (spelling not asserted) and the follower decodes as it does without it. "
    "Nothing is asserted about pairs involving 0x80 / 0xFF (no double-byte codec defines them) beyond oracles "
    "1, 2, 4, and a string ending on a byte >= 0x80 is not self-delimiting. The same high byte in front of "
    "such a follower is one string event in utf-8 mode (not followed by a continuation byte: CPython's codec "
    "rejects it) and the character chr(byte) in the single-byte mode",
]

ENCODINGS = ["utf-8", "euc-jp", "iso8859-1"]
ESC = 0x1B

TABLE = [(s, n) for s, n in escape.input_sequences]


# ---------------------------------------------------------------------------------------------
# driver


class _FakeLoop:
    def __init__(self):
        self.armed = {}  # handle -> (seconds, callback)
        self.n = 0
        self.removed_unknown = 0

    def alarm(self, seconds, callback):
        self.n += 1
        self.armed[self.n] = (seconds, callback)
        return self.n

    def remove_alarm(self, handle):
        return self.armed.pop(handle, None) is not None


class _FeedScreen(raw_display.Screen):
    """Real Screen; only the raw read is replaced by 'the next fragment'."""

    _c05_chunk = b""

    def _read_raw_input(self, timeout):
        chunk, self._c05_chunk = self._c05_chunk, b""
        return bytearray(chunk)


_PIPE = []


def _input_file():
    # one never-written pipe per process; the Screen is not started, so it is never read either
    if not _PIPE:
        r, w = os.pipe()
        _PIPE.extend([os.fdopen(r, "rb", 0), w])
    return _PIPE[0]


def _norm_cuts(cuts, n):
    """cut list [[pos, flags], ...] -> sorted, distinct positions 0 < pos <= n with the flags of a
    repeated position or-ed together.  flags & 1: the completion timeout fires after this read;
    flags & 2: before that, the input callback runs once more and its read returns nothing (a wake-up
    without new bytes).  pos == n (after the last read) is kept only for the wake-up flag - the timeout
    always fires at the end of the stream."""
    d = {}
    for c in cuts:
        p, f = int(c[0]), int(c[1]) & 3
        if 0 < p < n or (p == n and f & 2):
            d[p] = d.get(p, 0) | (f if p < n else 2)
    return sorted(d.items())


DEFAULT_COMPLETE_WAIT = 0.125  # set_input_timeouts' documented default
# The configurable part of "the completion timeout": Screen.set_input_timeouts(max_wait, complete_wait),
# "floating point numbers of seconds".  Every value is a valid delay: zero ("do not wait for the rest of
# a sequence": the timeout expires at once) as int and as float, the default spelled out, an int, tiny and
# large floats.  max_wait (None = wait forever) is set by the same call.
COMPLETE_WAITS = [0, 0.0, DEFAULT_COMPLETE_WAIT, 1, 0.01, 1e-06, 2.5, 30.0]
MAX_WAITS = [None, 0, 0.05, 2.0]


def _norm_waits(waits):
    """case["waits"]: entry i is None (no call) or [max_wait, complete_wait], the arguments of a
    Screen.set_input_timeouts call made before the i-th read (i = 0: after construction, before any input;
    later ones: an option changed while bytes may be pending).  Reads beyond the list keep the last setting."""
    out = []
    for w in waits or ():
        if w is None:
            out.append(None)
            continue
        mw, cw = w
        if isinstance(cw, bool) or not isinstance(cw, (int, float)) or not 0 <= cw < 1e6:
            raise Discard()
        if mw is not None and (isinstance(mw, bool) or not isinstance(mw, (int, float)) or not 0 <= mw < 1e6):
            raise Discard()
        out.append((mw, cw))
    return out


def run_stream(stream: bytes, cuts=(), waits=()):
    """Feed `stream` cut at `cuts` ([(pos, flags)] normalised, see _norm_cuts) to a Screen whose input
    timeouts are set as `waits` says (see _norm_waits; empty: never set, the defaults).  Returns (events,
    effective) where effective is the list of cut positions at which a timeout actually flushed
    pending bytes.  Checks oracle 2 (conservation) and the alarm bookkeeping after every run of the
    input callback (with or without new bytes); urwid exceptions propagate."""
    scr = _FeedScreen(input=_input_file(), output=io.StringIO())
    loop = _FakeLoop()
    events, raws = [], []
    waits = _norm_waits(waits)
    wait_now = [DEFAULT_COMPLETE_WAIT]  # the harness' own record of the completion timeout in effect

    def callback(keys, raw):
        if not isinstance(keys, list) or not isinstance(raw, (list, bytearray)):
            raise Violation("callback-types", f"callback got {type(keys).__name__}, {type(raw).__name__}")
        events.extend(keys)
        raws.extend(raw)

    def wake(chunk, pos, what):
        # what hook_event_loop's watch-file wrapper does when a watched descriptor is readable
        scr._c05_chunk = chunk
        scr.parse_input(loop, callback, scr.get_available_raw_input())
        delivered = len(raws)
        if bytes(bytearray(raws)) != stream[:delivered] or delivered > pos:
            raise Violation(
                "raw-conservation",
                f"after {what} {stream[:pos]!r} (cuts {list(cuts)}) the raw arguments concatenate to "
                f"{bytes(bytearray(raws))!r}, not a prefix of what was fed",
            )
        if delivered < pos and not loop.armed:
            raise Violation(
                "pending-without-alarm",
                f"{stream[delivered:pos]!r} is pending after {what} {stream[:pos]!r} but no completion alarm is armed "
                f"(completion timeout set: {wait_now[0]!r})",
            )
        for sec, _cb in loop.armed.values():
            # every run of the input callback removes the alarm of the previous one, so whatever is armed
            # now was armed under the setting in effect now
            if isinstance(sec, bool) or not isinstance(sec, (int, float)) or sec != wait_now[0]:
                raise Violation("alarm-delay", f"completion alarm armed with {sec!r}, the completion timeout set is {wait_now[0]!r}")

    n = len(stream)
    points = [(p, f) for p, f in cuts if p < n] + [(n, 4 | sum(f & 2 for p, f in cuts if p == n))]
    effective = []
    start = 0
    for i, (pos, flags) in enumerate(points):
        if i < len(waits) and waits[i] is not None:
            scr.set_input_timeouts(max_wait=waits[i][0], complete_wait=waits[i][1])
            wait_now[0] = waits[i][1]
        wake(stream[start:pos], pos, "feeding")
        start = pos
        if flags & 2:
            wake(b"", pos, "a wake-up without new input following")
        if flags & 5:
            rounds = 0
            if loop.armed and flags & 1:
                effective.append(pos)
            while loop.armed:
                rounds += 1
                if rounds > 3:
                    raise Violation(
                        "timeout-flush",
                        f"after the completion timeout fired 3 times bytes are still pending "
                        f"(fed {stream[:pos]!r}, delivered {bytes(bytearray(raws))!r})",
                    )
                for h in sorted(loop.armed):
                    ent = loop.armed.pop(h, None)
                    if ent is not None:
                        ent[1]()
            if bytes(bytearray(raws)) != stream[:pos]:
                raise Violation(
                    "raw-conservation",
                    f"timeout fired after feeding {stream[:pos]!r} (cuts {list(cuts)}): raw arguments concatenate to "
                    f"{bytes(bytearray(raws))!r}",
                )
    if any(not isinstance(e, (str, tuple)) for e in events):
        raise Violation("event-types", f"events {events!r}")
    return events, effective


# ---------------------------------------------------------------------------------------------
# grammar: item -> bytes, completeness, expectation
#
# spec (one per expected event): ("eq", value) | ("str",) one string event, spelling free |
# ("mouse", name|None, button|None, x|None, y|None) | ("any",) exactly one event


def _mods(m):
    bits = m - 1
    return ("shift " if bits & 1 else "") + ("meta " if bits & 2 else "") + ("ctrl " if bits & 4 else "")


CSI1_KEYS = {"A": "up", "B": "down", "C": "right", "D": "left", "E": "5", "F": "end", "H": "home",
             "P": "f1", "Q": "f2", "R": "f3", "S": "f4"}
CSIT_KEYS = {3: "delete", 5: "page up", 6: "page down", 11: "f1", 12: "f2", 13: "f3", 14: "f4", 15: "f5",
             17: "f6", 18: "f7", 19: "f8", 20: "f9", 21: "f10", 23: "f11", 24: "f12", 25: "f13", 26: "f14",
             28: "f15", 29: "f16", 31: "f17", 32: "f18", 33: "f19", 34: "f20"}
CSIT_UNKNOWN = {2: "insert"}  # xterm sends it; urwid's table has no CSI 2;m~ (observation, not asserted)
SS3_KEYS = {"A": "up", "B": "down", "C": "right", "D": "left", "H": "home", "F": "end",
            "P": "f1", "Q": "f2", "R": "f3", "S": "f4", "j": "*", "k": "+", "m": "-", "n": ".", "o": "/",
            **{chr(ord("p") + i): str(i) for i in range(10)}}
SS3_UNKNOWN = "MlXE"  # keypad enter , = and cursor-mode Begin: not in urwid's table
SS3M_KEYS = {"P": "f1", "Q": "f2", "R": "f3", "S": "f4"}


def is_lead(b, mode):
    if mode == "utf8":
        return 0xC0 <= b <= 0xF7
    if mode == "wide":
        return b >= 0x80
    return False


def byte_spec(b, mode):
    """expected event of a byte that is a whole event by itself, or None if it is not (ESC, lead)."""
    if b == ESC or is_lead(b, mode):
        return None
    if 32 <= b <= 126:
        return ("eq", chr(b))
    if b == 9:
        return ("eq", "tab")
    if b in (10, 13):
        return ("eq", "enter")
    if b in (8, 127):
        return ("eq", "backspace")
    if 1 <= b <= 26:
        return ("eq", "ctrl " + chr(96 + b))
    if b >= 128 and mode == "narrow":
        return ("eq", chr(b))
    return ("str",)


def not_second_half(b):
    """True for a byte that is the second half of a double-byte character in none of the encodings urwid's
    wide mode stands for (EUC-JP/KR/CN: 0xA1-0xFE; Big5 / GBK / UHC / Shift-JIS-like: also 0x40-0x7E and
    0x80-0xA0): the C0 bytes, space, ASCII punctuation and digits (0x00-0x3F) and DEL."""
    return b < 0x40 or b == 0x7F


def _wide_specs(data):
    """wide mode, ESC-free bytes, consumed strictly left to right.  A byte < 0x80 is an event by itself.
    A byte >= 0x80 followed by a byte that cannot be a second half forms no character and no known
    sequence: one string event of its own (spelling not asserted), and the follower is decoded as it
    would be without it.  Lead 0x81-0xFE followed by 0x40-0x7E / 0x80-0xFE is the double-byte character
    (one event, the two bytes).  No reading (None): the string ends on a byte >= 0x80 (more input could
    complete it), or a pair involves 0x80 / 0xFF, which no double-byte encoding defines."""
    specs, i, n = [], 0, len(data)
    while i < n:
        b = data[i]
        if b < 0x80:
            specs.append(byte_spec(b, "wide"))
            i += 1
        elif i + 1 == n:
            return None
        elif not_second_half(data[i + 1]):
            specs.append(("str",))
            i += 1
        elif 0x81 <= b <= 0xFE and data[i + 1] != 0xFF:
            specs.append(("eq", chr(b) + chr(data[i + 1])))
            i += 2
        else:
            return None
    return specs


def text_specs(data, mode):
    """Expected events of a byte string without ESC, or None when the harness has no independent
    reading or when the string ends inside a character that more bytes could still complete.  wide
    mode: see _wide_specs.  utf8 mode: CPython's incremental UTF-8 decoder (the trusted reference for
    "is a character") with the surrogateescape handler segments the bytes left to right into
    well-formed characters - one event each, equal to the character - and bytes that belong to no
    character (stray continuation bytes, overlong forms, surrogates, code points above U+10FFFF,
    leads 0xC0/0xC1/0xF5-0xFF, truncated characters followed by something else): one string event
    per byte."""
    if ESC in data:
        return None
    if mode == "wide":
        return _wide_specs(data)
    if mode != "utf8":
        specs = [byte_spec(b, mode) for b in data]
        return specs if all(s is not None for s in specs) else None
    dec = codecs.getincrementaldecoder("utf-8")("surrogateescape")
    text = dec.decode(data, False)
    if dec.getstate()[0]:
        return None
    specs = []
    for ch in text:
        o = ord(ch)
        if o < 0x80:
            specs.append(byte_spec(o, mode))
        elif 0xDC80 <= o <= 0xDCFF:
            specs.append(("str",))
        else:
            specs.append(("eq", ch))
    return specs


def _mouse_prefix(b):
    return ("shift " if b & 4 else "") + ("meta " if b & 8 else "") + ("ctrl " if b & 16 else "")


def x10_spec(cb, cx, cy):
    # One byte per coordinate: 1-based position + 32, modulo 256.  Bytes 33..255 are columns/rows 0..222;
    # on a terminal wider/taller than that the byte wraps, so 0..32 stand for 223..255 (escape.py
    # documents "supports 0-255"; userinput.rst: coordinates start from (0, 0), i.e. are never negative).
    x = (cx - 33) % 256
    y = (cy - 33) % 256
    b = cb - 32
    low, motion, wheel = b & 3, b & 32, b & 64
    if b < 0 or b >= 128 or (wheel and low >= 2) or (wheel and motion) or (motion and low == 3):
        return ("mouse", None, None, x, y)
    if low == 3:
        return ("mouse", _mouse_prefix(b) + "mouse release", 0, x, y)
    button = low + 1 + (3 if wheel else 0)
    return ("mouse", _mouse_prefix(b) + ("mouse drag" if motion else "mouse press"), button, x, y)


def sgr_spec(b, x, y, final):
    xx = x - 1 if x >= 1 else None
    yy = y - 1 if y >= 1 else None
    low, motion, wheel = b & 3, b & 32, b & 64
    if b >= 128 or low == 3 or (wheel and low >= 2) or (wheel and motion) or (wheel and final == "m"):
        return ("mouse", None, None, xx, yy)
    button = low + 1 + (3 if wheel else 0)
    action = "release" if final == "m" else ("drag" if motion else "press")
    return ("mouse", _mouse_prefix(b) + "mouse " + action, button, xx, yy)


_SGR_OK = re.compile(rb"^[0-9]+;[0-9]+;[0-9]+$")
_SGR_ANY = re.compile(rb"\x1b\[<([^Mm]*)[Mm]", re.S)


class Item:
    """spec: the expected events (one spec each) or None; alts: the accepted event lists - [spec] for
    an ordinary item, several for an ESC-prefixed one (see esc_alts), None = no independent reading."""

    __slots__ = ("kind", "data", "complete", "spec", "strong", "alts")

    def __init__(self, kind, data, complete=False, spec=None, strong=False, alts=None):
        self.kind, self.data, self.complete, self.spec, self.strong = kind, bytes(data), complete, spec, strong
        self.alts = alts if alts is not None else ([spec] if spec is not None else None)


def _has_meta(name):
    return "meta" in name.split(" ")[:-1]


def esc_alts(alts):
    """Accepted event lists of ESC + X, from those of a self-delimiting X that does not continue a
    table sequence.  ESC ESC.. / ESC + anything but '[' 'O' is no table sequence, so the statement
    allows two readings and nothing else: (a) the ESC is a byte that forms no known sequence - the event
    'esc' - and X follows undisturbed; (b) urwid's documented ESC+key form of Alt+key ('meta j'): the
    first event of X, if it is a key name, is reported with 'meta ' in front.  (b) is not available when
    that first event is no key (mouse report, cursor position) or already carries the meta modifier - a
    documented name has each of 'shift ', 'meta ', 'ctrl ' at most once.  Where the spelling of the key
    itself is not asserted, (b) only requires the 'meta ' prefix."""
    out = []
    for alt in alts:
        first = alt[0]
        if first[0] == "eq" and isinstance(first[1], str):
            if not _has_meta(first[1]):
                out.append([("eq", "meta " + first[1]), *alt[1:]])
        elif first[0] in ("str", "any"):
            out.append([("prefix", "meta "), *alt[1:]])
        out.append([("eq", "esc"), *alt])
    return out


def build_item(it, mode) -> Item:
    k = it[0]
    if k == "tab":
        seq, name = TABLE[it[1] % len(TABLE)]
        data = b"\x1b" + seq.encode("ascii")
        if name in ("mouse", "sgrmouse"):
            return Item("tab-prefix", data)
        return Item("tab", data, True, [("eq", name)], True)
    if k == "csi1":
        m, x = it[1], it[2]
        data = f"\x1b[1;{m}{x}".encode("ascii")
        return Item("csi1", data, True, [("eq", _mods(m) + CSI1_KEYS[x])], True)
    if k == "csit":
        n, m = it[1], it[2]
        data = f"\x1b[{n};{m}~".encode("ascii")
        if n in CSIT_KEYS:
            return Item("csit", data, True, [("eq", _mods(m) + CSIT_KEYS[n])], True)
        return Item("csit-unknown", data)
    if k == "ss3":
        x = it[1]
        data = b"\x1bO" + x.encode("ascii")
        if x in SS3_KEYS:
            return Item("ss3", data, True, [("eq", SS3_KEYS[x])], True)
        return Item("ss3-unknown", data)
    if k == "ss3m":
        m, x = it[1], it[2]
        return Item("ss3m", f"\x1bO{m}{x}".encode("ascii"), True, [("eq", _mods(m) + SS3M_KEYS[x])], True)
    if k == "x10":
        cb, cx, cy = it[1] & 255, it[2] & 255, it[3] & 255
        return Item("x10", bytes([ESC, 0x5B, 0x4D, cb, cx, cy]), True, [x10_spec(cb, cx, cy)], True)
    if k == "sgr":
        b, x, y, final = it[1], it[2], it[3], it[4]
        return Item("sgr", f"\x1b[<{b};{x};{y}{final}".encode("ascii"), True, [sgr_spec(b, x, y, final)], True)
    if k == "sgrbad":
        body = it[1].encode("latin-1")
        final = it[2].encode("ascii")
        data = b"\x1b[<" + body + final
        m = _SGR_ANY.match(data)
        if m is not None and m.end() == len(data) and _SGR_OK.match(m.group(1)):
            return Item("sgr-wellformed-text", data)  # not malformed after all: opaque
        return Item("sgrbad", data)
    if k == "cpr":
        row, col = it[1], it[2]
        data = f"\x1b[{row};{col}R".encode("ascii")
        if row == 1 and 1 <= col <= 8:
            return Item("cpr-ambiguous", data, True, [("any",)], True)
        return Item("cpr", data, True, [("eq", ("cursor position", col - 1, row - 1))], True)
    if k == "u8":
        cp = it[1]
        data = chr(cp).encode("utf-8")
        if len(data) == 1:
            return build_item(["raw", chr(cp)], mode)
        if mode == "utf8":
            return Item("u8", data, True, [("eq", chr(cp))], True)
        if mode == "narrow":
            return Item("u8-as-latin1", data, True, [("eq", chr(b)) for b in data], True)
        return Item("u8-in-wide", data)
    if k == "db":
        lead, trail = it[1] & 255, it[2] & 255
        data = bytes([lead, trail])
        if mode == "wide" and 0x81 <= lead <= 0xFE and (0x40 <= trail <= 0x7E or 0x80 <= trail <= 0xFE):
            # EUC (trail >= 0xA1) and Big5 / GBK / UHC (trail 0x40-0x7E, 0x80-0xFE) double-byte characters
            return Item("db", data, True, [("eq", chr(lead) + chr(trail))], True)
        if mode == "narrow":
            return build_item(["raw", data.decode("latin-1")], mode)
        specs = text_specs(data, mode) if mode == "wide" else None
        if specs is not None:
            # a byte >= 0x80 in front of a byte that is no second half: passed through, follower undisturbed
            return Item("db-stray-lead", data, True, specs, True)
        return Item("db-other", data)
    if k == "esc":
        return Item("esc", b"\x1b")
    if k == "alt":
        c = it[1]
        if not 32 <= c <= 126 or c in (0x5B, 0x4F):
            return Item("alt-prefix", bytes([ESC, c & 255]))
        return Item("alt", bytes([ESC, c]), True, [("eq", "meta " + chr(c))], True)
    if k == "meta":
        inner = build_item(it[1], mode)
        complete = inner.complete and inner.data[:1] not in (b"[", b"O", b"")
        # ESC + X: 'esc' then X, or the first key of X with 'meta ' in front (esc_alts); an X without an
        # independent reading of its own leaves only the metamorphic composition oracle
        alts = esc_alts(inner.alts) if complete and inner.alts is not None else None
        return Item("meta+" + inner.kind, b"\x1b" + inner.data, complete, None, alts is not None, alts)
    if k == "stray":
        # a byte >= 0x80 in front of a self-delimiting item X whose first byte can neither be the second
        # half of a double-byte character nor a UTF-8 continuation byte (ESC, a C0 byte, space, digit,
        # punctuation, DEL): in every mode the byte forms no character and no known sequence with what
        # follows - one event of its own - and X is decoded undisturbed.  In the single-byte mode that
        # holds whatever X starts with, and the event is the character itself
        hb = 0x80 | (it[1] & 0x7F)
        inner = build_item(it[2], mode)
        data = bytes([hb]) + inner.data
        if inner.complete and inner.alts is not None and inner.data and (mode == "narrow" or not_second_half(inner.data[0])):
            head = ("eq", chr(hb)) if mode == "narrow" else ("str",)
            return Item("stray+" + inner.kind, data, True, None, True, [[head, *a] for a in inner.alts])
        return Item("stray+" + inner.kind, data)
    if k == "trunc":
        inner = build_item(it[1], mode)
        if len(inner.data) < 2:
            return inner
        keep = 1 + it[2] % (len(inner.data) - 1)
        return Item("trunc+" + inner.kind, inner.data[:keep])
    if k == "raw":
        data = it[1].encode("latin-1")
        specs = text_specs(data, mode) if data else None
        if specs is None:
            return Item("garbage", data)
        return Item("singles" if len(specs) == len(data) else "text", data, True, specs, True)
    if k == "u8x":
        # UTF-8-shaped bytes (all >= 0x80 by construction of the generators; any bytes accepted)
        data = it[1].encode("latin-1")
        specs = text_specs(data, mode) if data else None
        if specs is None:
            return Item("u8x-in-wide" if mode == "wide" else "u8x-open", data)
        if mode == "narrow":
            return Item("u8x-as-latin1", data, True, specs, True)
        if mode == "wide":
            return Item("u8x-as-double-byte", data, True, specs, True)
        return Item("u8x-chars" if len(specs) < len(data) and all(sp[0] == "eq" for sp in specs) else "u8x", data, True, specs, True)
    raise AssertionError(it)


def build_stream(case):
    mode = {"utf-8": "utf8", "euc-jp": "wide", "gbk": "wide", "big5": "wide", "uhc": "wide", "iso8859-1": "narrow"}[case["enc"]]
    items = [build_item(it, mode) for it in case["items"]]
    return mode, items, b"".join(i.data for i in items)


def _match(spec, ev):
    t = spec[0]
    if t == "eq":
        return type(ev) is type(spec[1]) and ev == spec[1]
    if t == "str":
        return isinstance(ev, str)
    if t == "prefix":
        return isinstance(ev, str) and ev.startswith(spec[1]) and len(ev) > len(spec[1])
    if t == "any":
        return True
    if t == "mouse":
        if not (isinstance(ev, tuple) and len(ev) == 4 and isinstance(ev[0], str)
                and all(type(v) is int for v in ev[1:])):
            return False
        if spec[1] is None:
            if not ev[0].endswith(("mouse press", "mouse release", "mouse drag")):
                return False
        elif ev[0] != spec[1] or ev[1] != spec[2]:
            return False
        return (spec[3] is None or ev[2] == spec[3]) and (spec[4] is None or ev[3] == spec[4])
    raise AssertionError(spec)


def _show_spec(spec):
    if spec[0] == "eq":
        return repr(spec[1])
    if spec[0] == "mouse":
        return "(" + ", ".join("*" if v is None else repr(v) for v in spec[1:]) + ")"
    if spec[0] == "prefix":
        return f"<{spec[1]!r} + key>"
    return "<one event>" if spec[0] == "any" else "<one string>"


# ---------------------------------------------------------------------------------------------
# the check


def _show_cuts(cuts):
    return "[" + ", ".join(f"{p}{'+wake-up without input' if f & 2 else ''}" for p, f in cuts) + "]"


def _show_waits(waits):
    return f", set_input_timeouts(max_wait, complete_wait) before successive reads: {list(waits)!r}" if waits else ""


def check_stream(case):
    """case: {"enc": ..., "items": [...], "frags": [[[pos, fire], ...], ...], "waits": [...]}
    "waits" (optional, see _norm_waits) configures the input timeouts of the Screen every fragmentation is
    fed to; the reference decodes (whole streams, pieces as they stand) use a Screen with the defaults: which
    events a stream decodes to depends on where the timeout fires, never on the delay it was set to."""
    use_encoding(case["enc"])
    mode, items, stream = build_stream(case)
    n = len(stream)
    if n == 0:
        raise Discard()
    waits = case.get("waits") or ()
    _norm_waits(waits)
    memo = {}

    def whole(data):
        if data not in memo:
            memo[data] = run_stream(data)[0] if data else []
        return memo[data]

    ev_whole = whole(stream)

    # (3)+(5) composition: the leading run of self-delimiting items decodes item by item to the
    # protocol-defined events, whatever follows; the rest decodes as it does on its own.
    k = 0
    while k < len(items) and items[k].complete:
        k += 1
    if k:
        pos = 0
        for it in items[:k]:
            alts = it.alts if it.alts is not None else [[("eq", e) for e in whole(it.data)]]
            # no accepted list is a prefix of another one (they differ in an 'eq' / 'meta ' event), so
            # at most one matches
            spec = next(
                (a for a in alts if len(ev_whole) - pos >= len(a) and all(_match(s, e) for s, e in zip(a, ev_whole[pos:]))),
                None,
            )
            if spec is None:
                clause = ("decode:" if it.alts is not None else "composition:") + it.kind.split("+")[0]
                width = max(len(a) for a in alts)
                raise Violation(
                    clause,
                    f"[{case['enc']}] item {it.data!r} ({it.kind}) inside {stream!r}: expected "
                    + " or ".join(f"[{', '.join(_show_spec(s) for s in a)}]" for a in alts)
                    + f", events at that place are {ev_whole[pos : pos + width]!r} (all events {ev_whole!r})",
                )
            pos += len(spec)
        rest = b"".join(i.data for i in items[k:])
        if ev_whole[pos:] != whole(rest):
            raise Violation(
                "composition",
                f"[{case['enc']}] {stream!r}: after the self-delimiting prefix the rest {rest!r} decodes to "
                f"{ev_whole[pos:]!r}, on its own to {whole(rest)!r}",
            )

    # (4)/(4b) fragmentations.  The byte-by-byte one is always included, plain and with a wake-up
    # without new bytes after every read.
    frags = [[(p, 0) for p in range(1, n)]] if n > 1 else []
    frags.append([(p, 2) for p in range(1, n + 1)])
    frags += [_norm_cuts(f, n) for f in case.get("frags", ())]
    seen = set()
    for cuts in frags:
        key = tuple(cuts)
        if not cuts or key in seen:
            continue
        seen.add(key)
        ev, eff = run_stream(stream, cuts, waits)
        if not eff:
            if ev != ev_whole:
                raise Violation(
                    "fragmentation",
                    f"[{case['enc']}] {stream!r} whole -> {ev_whole!r}; cut at {_show_cuts(cuts)} without timeout{_show_waits(waits)} -> {ev!r}",
                )
            continue
        exp, a = [], 0
        for b in [*eff, n]:
            exp.extend(whole(stream[a:b]))
            a = b
        if ev != exp:
            raise Violation(
                "timeout-decodes-pending",
                f"[{case['enc']}] {stream!r} cut at {_show_cuts(cuts)}{_show_waits(waits)}, timeout flushed at {eff}: events {ev!r}; "
                f"decoding the pieces {[stream[x:y] for x, y in zip([0, *eff], [*eff, n])]!r} as they stand gives {exp!r}",
            )


def check_sync(case):
    """Stream written to a pipe - whole, or in the pieces given by case["parts"] (cut positions) - and read
    with get_input() of a started Screen (no event loop): one call after every write, one more that finds
    nothing new, three more at the end.  There is no clock in this mode, so the events must be those of
    the whole stream."""
    use_encoding(case["enc"])
    mode, items, stream = build_stream(case)
    if not stream or len(stream) > 4096:
        raise Discard()
    ev_whole = run_stream(stream)[0]
    n = len(stream)
    cuts = sorted({int(p) for p in case.get("parts", ()) if 0 < int(p) < n})
    pieces = [stream[a:b] for a, b in zip([0, *cuts], [*cuts, n])]
    r, w = os.pipe()
    rf = os.fdopen(r, "rb", 0)
    scr = raw_display.Screen(input=rf, output=io.StringIO())
    scr.set_input_timeouts(max_wait=0, complete_wait=0, resize_wait=0)
    events, raws = [], []
    try:
        scr.start()
        try:
            for i, piece in enumerate(pieces):
                os.write(w, piece)
                # one call that sees the bytes, then calls with nothing new to read
                for _ in range(2 if i < len(pieces) - 1 else 4):
                    keys, raw = scr.get_input(raw_keys=True)
                    events.extend(keys)
                    raws.extend(raw)
        finally:
            scr.stop()
    finally:
        rf.close()
        os.close(w)
    got = bytes(bytearray(raws))
    if got != stream:
        if stream.startswith(got) and events == ev_whole[: len(events)]:
            raise Violation(
                "sync-pending-never-decoded",
                f"[{case['enc']}] get_input() after {pieces!r} (and x3 more) delivered {events!r} / raw {got!r}; "
                f"{stream[len(got):]!r} stays pending although no more input arrives (event-loop path: {ev_whole!r})",
            )
        raise Violation("sync-raw-conservation", f"[{case['enc']}] get_input() after each of {pieces!r}: raw {got!r}")
    if events != ev_whole:
        raise Violation("sync-events", f"[{case['enc']}] get_input() after each of {pieces!r}: {events!r}, event-loop path {ev_whole!r}")


SUBS = {"stream": check_stream, "sync": check_sync}


# ---------------------------------------------------------------------------------------------
# strategies
#
# Hypothesis draws plain integer vectors (cheap to draw, shrink towards 0 = the first table entry,
# no cuts); a pure function turns them into the readable grammar items / cut lists stored in the
# case.  Measured: ~4x more cases per CPU-second than a tree of one_of/tuples strategies.

_CSI1 = sorted(CSI1_KEYS)
_CSIT = sorted(CSIT_KEYS) + sorted(CSIT_UNKNOWN)
_SS3 = sorted(SS3_KEYS) + list(SS3_UNKNOWN)
_SS3M = sorted(SS3M_KEYS)
_C0 = [*range(0, 27), *range(28, 32), 127]
_U8_RANGES = [(0x80, 0x7FF), (0x800, 0xD7FF), (0xE000, 0xFFFF), (0x10000, 0x10FFFF), (0x20, 0x7E)]
_SGR_BAD_ALPHABET = "0123456789;;;; +-_.:<>[a\x1b\x00\xb2\xff"
_SPECIAL = "\x1b[O<M;0123456789~R\x80\xc3\xe2\xf0\xa4"
_BIG = 2**20 + 1
N_COMPLETE = 22


def _digits(v, alphabet, maxlen):
    n = v % (maxlen + 1)
    v //= maxlen + 1
    out = []
    for _ in range(n):
        out.append(alphabet[v % len(alphabet)])
        v //= len(alphabet)
    return "".join(out)


def _bytes_of(*vals):
    return "".join(chr((v >> s) & 255) for v in vals for s in (0, 8, 16))


_CONT_EDGES = [0x80, 0x8F, 0x90, 0x9F, 0xA0, 0xBF]  # the second-byte boundaries of RFC 3629's table
_NOT_CONT = [0x41, 0x7F, 0xC0, 0xC3, 0xE2, 0xF0, 0xF8, 0xFF, 0x0D, 0x20]


def u8x_from_ints(a, b, c, d, e):
    """UTF-8-shaped byte string (as latin-1 str): a lead byte with the number of continuation bytes its
    bit pattern announces (continuation bytes biased to the boundaries that separate overlong forms,
    surrogates and > U+10FFFF from characters), the obsolete 5/6-byte forms, stray continuation /
    0xF8-0xFF bytes, or a shaped sequence with one continuation byte replaced by something else.  Valid
    characters are a frequent outcome; the oracle decides by CPython's codec, not by this function."""

    def cont(x):
        return _CONT_EDGES[(x >> 1) % 6] if x & 1 else 0x80 + (x >> 1) % 64

    t = a % 8
    sel = (a >> 3) % 3
    if t <= 1:
        out = [[0xC0, 0xC1, 0xC2 + b % 30][sel] if t else 0xC0 + b % 32, cont(c)]
    elif t <= 3:
        out = [[0xE0, 0xED, 0xE0 + b % 16][sel], cont(c), cont(d)]
    elif t <= 5:
        out = [[0xF0, 0xF4, 0xF0 + b % 8][sel], cont(c), cont(d), cont(e)]
    elif t == 6:
        if sel == 0:  # 5- and 6-byte forms of the original UTF-8 definition
            lead = 0xF8 + b % 8
            out = [lead] + [cont(x) for x in (c, d, e, c >> 8, d >> 8)][: 4 if lead < 0xFC else 5]
        else:  # stray bytes
            out = [(0x80 + (x >> 1) % 64) if x & 1 else (0xF8 + (x >> 1) % 8) for x in (b, c, d, e)][: 1 + (a >> 5) % 4]
    else:
        lead = [0xC2 + b % 30, 0xE0 + b % 16, 0xF0 + b % 8][sel]
        out = [lead] + [cont(x) for x in (c, d, e)][: sel + 1]
        out[1 + (a >> 5) % (sel + 1)] = _NOT_CONT[(a >> 8) % len(_NOT_CONT)]
        if (a >> 12) & 1:
            out = out[: 2 + (a >> 5) % (sel + 1)]
    return "".join(chr(x) for x in out)


def item_from_ints(v, complete_only=False):
    """v: 8 integers in 0..2**24-1 -> grammar item."""
    k, a, b, c, d, e = v[0], v[1], v[2], v[3], v[4], v[5]
    k %= N_COMPLETE if complete_only else 34
    m = 2 + a % 7
    if k <= 3:
        return ["tab", b % len(TABLE)]
    if k <= 5:
        return ["csi1", m, _CSI1[b % len(_CSI1)]]
    if k <= 7:
        return ["csit", _CSIT[b % len(_CSIT)], m]
    if k == 8:
        return ["ss3", _SS3[b % len(_SS3)]]
    if k == 9:
        return ["ss3m", m, _SS3M[b % len(_SS3M)]]
    if k == 10:
        return ["x10", b % 256, c % 256, d % 256]
    if k == 11:
        return ["x10", 32 + b % 96, 33 + c % 223, 33 + d % 223]
    if k <= 13:
        bb = b % 128 if a % 4 < 3 else b % _BIG
        x = 1 + c % 300 if (a >> 2) % 4 < 3 else c % _BIG
        y = 1 + d % 300 if (a >> 4) % 4 < 3 else d % _BIG
        return ["sgr", bb, x, y, "Mm"[(a >> 6) & 1]]
    if k == 14:
        return ["cpr", 1 + (b % 200 if a & 1 else b % 2**20), 1 + (c % 200 if a & 2 else c % 2**20)]
    if k == 15:
        lo, hi = _U8_RANGES[a % 5]
        return ["u8", lo + b % (hi - lo + 1)]
    if k == 16:
        return ["u8x", u8x_from_ints(a, b, c, d, e)]
    if k == 17:
        lead = [0xA1 + b % 94, 0x8E, 0x80 + b % 128][a % 3]
        trail = 0xA1 + c % 94 if (a >> 2) & 1 else 0x20 + c % 224
        return ["db", lead, trail]
    if k == 18:
        return ["raw", chr(_C0[b % len(_C0)])]
    if k <= 20:
        return ["raw", "".join(chr(32 + x % 95) for x in (b, c, d, e)[: 1 + a % 4])]
    if k == 21:
        return ["alt", 32 + b % 95]
    # ---- not self-delimiting
    if k == 22:
        t = a % 3
        if t == 0:
            params = [("" if x % 5 == 0 else str(x % 1000)) for x in (b, c, d, e)[: (a >> 2) % 5]]
            body = ";".join(params)
        elif t == 1:
            body = _digits(b * 2**24 + c, _SGR_BAD_ALPHABET, 10)
        else:
            body = _bytes_of(b, c)[: (a >> 2) % 7].replace("M", "N").replace("m", "n")
        return ["sgrbad", body, "Mm"[(a >> 6) & 1]]
    if k == 23:
        return ["esc"]
    if k == 24:
        return ["raw", _bytes_of(b, c, d)[: 1 + a % 8]]
    if k == 25:
        return ["raw", _digits(b * 2**24 + c, _SPECIAL, 7) or "\x1b"]
    if k <= 27 or k == 31:
        return ["meta", item_from_ints([*v[1:], 0], True)]
    if k == 28:
        return ["meta", ["meta", item_from_ints([*v[1:], 0], True)]]
    if k >= 32:
        return ["stray", 0x80 + v[7] % 128, item_from_ints([*v[1:], 0], True)]
    return ["trunc", item_from_ints([*v[1:], 0], True), v[7] % 41]


def cuts_from_ints(vals, n, allow_fire):
    """cut values -> [[pos, flags]]; bit 0 of a value: the timeout fires there (if this fragmentation
    allows timeouts), bits 21-22 both set (one cut in four): a wake-up without new bytes follows that
    read, and then the position may also be n, i.e. after the last read."""
    out = []
    for v in vals:
        idle = 2 if (v >> 21) & 3 == 3 else 0
        if n < 2 and not idle:
            continue
        pos = 1 + (v >> 1) % (n if idle else n - 1)
        out.append([pos, ((v & 1) if allow_fire else 0) | idle])
    return out


def waits_from_int(v):
    """0 (and one value in four): set_input_timeouts is never called.  Otherwise one call before the first
    read, and for one value in four of those one or two more entries (a call or none) before the second and
    third read - the timeouts changed after input has started to arrive."""
    if v % 4 == 0:
        return []

    def entry(x):
        return [MAX_WAITS[(x >> 4) % len(MAX_WAITS)], COMPLETE_WAITS[x % 16 % len(COMPLETE_WAITS)]]

    v >>= 2
    out = [entry(v)]
    if (v >> 8) % 4 == 0:
        for x in ((v >> 10) & 0x7F, (v >> 17) & 0x7F)[: 1 + (v >> 24) % 2]:
            out.append(None if x % 5 == 4 else entry(x))
    return out


def case_from_ints(t, with_frags=True):
    enc_i, item_vs, frag_vs = t
    case = {"enc": ["utf-8", "utf-8", "euc-jp", "iso8859-1"][enc_i % 4], "items": [item_from_ints(v) for v in item_vs]}
    if enc_i >> 2 and with_frags:
        case["waits"] = waits_from_int(enc_i >> 2)
    if with_frags:
        n = len(build_stream(case)[2])
        case["frags"] = [cuts_from_ints(vals, n, fire) for fire, vals in frag_vs] if n else []
    return case


_MIX = 0x9E3779B97F4A7C15F39CC0605CEDC8341082276BF3A27251  # odd: v -> v * _MIX mod 2**192 is a bijection


def _fields(big, count):
    # Hypothesis prefers small magnitudes for wide integer ranges; the multiplication spreads them
    # over all fields (0 stays 0, so a shrunk element is still the simplest item / cut)
    big = (big * _MIX) & (2**192 - 1)
    return [(big >> (24 * i)) & 0xFFFFFF for i in range(count)]


def _case_from_bigs(t, with_frags=True):
    enc_i, item_bigs, frag_bigs = t
    item_vs = [_fields(v, 8) for v in item_bigs]
    # one fragmentation = (timeouts allowed?, 1..8 cut values)
    frag_vs = [((v >> 1) & 1, _fields(v, 8)[: 1 + (v >> 2) % 8]) for v in frag_bigs]
    return case_from_ints((enc_i, item_vs, frag_vs), with_frags)


_item_big = st.integers(0, 2**192 - 1)
_frag_big = st.integers(0, 2**192 - 1)


def _stream_case(max_frags=6):
    # first integer: bits 0-1 the encoding, the rest the input-timeout settings (waits_from_int)
    return st.tuples(
        st.integers(0, 2**30 - 1).map(lambda v: (v & 3) | (((v >> 2) * 0x9E3779B1 & 0xFFFFFFF) << 2)), st.lists(_item_big, min_size=1, max_size=12), st.lists(_frag_big, min_size=1, max_size=max_frags)
    ).map(_case_from_bigs)


def _sync_from(t):
    case = _case_from_bigs((t[0], t[1], []), with_frags=False)
    n = len(build_stream(case)[2])
    case["parts"] = sorted({1 + v % (n - 1) for v in t[2]}) if n > 1 else []
    return case


def _sync_case():
    return st.tuples(
        st.integers(0, 3), st.lists(_item_big, min_size=1, max_size=8), st.lists(st.integers(0, 2**24 - 1), max_size=2)
    ).map(_sync_from)


# ---------------------------------------------------------------------------------------------
# classification / non-trivial rule


def _extents(case):
    mode, items, stream = build_stream(case)
    out, a = [], 0
    for it in items:
        out.append((a, a + len(it.data), it))
        a += len(it.data)
    return mode, out, stream


def is_nontrivial(case):
    mode, ext, stream = _extents(case)
    n = len(stream)
    inside = set()
    for a, b, it in ext:
        if b - a >= 2 and it.kind not in ("singles", "garbage"):
            inside.update(range(a + 1, b))
    for f in case.get("frags", ()):
        if any(p in inside for p, _ in _norm_cuts(f, n)):
            return True
    return False


def classify(case):
    mode, ext, stream = _extents(case)
    out = {f"enc:{case['enc']}"}
    for _, _, it in ext:
        out.add("item:" + it.kind.split("+")[0])
        if "+" in it.kind:
            out.add("item:" + it.kind.split("+")[0] + "+*")
        if it.kind == "x10" or it.kind == "sgr":
            out.add(f"{it.kind}:{'protocol-domain' if it.spec[0][1] is not None else 'outside-domain'}")
        if it.kind == "x10" and (it.data[4] < 33 or it.data[5] < 33):
            out.add("x10:coordinate-byte-wrapped(223..255)")
        if it.kind.startswith("meta+"):
            out.add("meta:independent-reading" if it.alts is not None else "meta:metamorphic-only")
    n = len(stream)
    flags = 0
    for fr in case.get("frags", ()):
        for _, f in _norm_cuts(fr, n):
            flags |= f
    out.add("schedule:with-timeouts" if flags & 1 else "schedule:no-timeouts")
    waits = case.get("waits") or ()
    if not waits:
        out.add("complete_wait:never-set(default)")
    else:
        for w in waits:
            if w is not None:
                out.add("complete_wait:" + ("zero" if w[1] == 0 else "default-value" if w[1] == DEFAULT_COMPLETE_WAIT else "positive")
                        + ":" + type(w[1]).__name__)
        if len(waits) > 1 and any(w is not None for w in waits[1:]):
            out.add("complete_wait:changed-between-reads")
    if flags & 2:
        out.add("schedule:with-wake-up-without-input")
    if is_nontrivial(case):
        out.add("cut-inside-multibyte")
    return sorted(out)


def classify_sync(case):
    return [f"sync:enc:{case['enc']}", f"sync:writes:{len(case.get('parts', ())) + 1}"]


# ---------------------------------------------------------------------------------------------
# exhaustive sweeps


def _single_cut_frags(n):
    """every single cut x (plain, timeout fires, wake-up without new bytes, wake-up then timeout), and the
    wake-up after the whole stream"""
    return [[[p, f]] for f in (0, 1, 2, 3) for p in range(1, n)] + [[[n, 2]]]


def table_cases():
    for enc in ENCODINGS:
        for i, (seq, _name) in enumerate(TABLE):
            yield {"enc": enc, "items": [["tab", i]], "frags": _single_cut_frags(len(seq) + 1)}
            # followed by a printable byte and preceded by one: the sequence is found in context
            yield {"enc": enc, "items": [["raw", "x"], ["tab", i], ["raw", "y"]], "frags": [[[1, 0], [len(seq) + 1, 1]]]}


def xterm_cases():
    forms = []
    for m in range(2, 9):
        forms += [["csi1", m, x] for x in sorted(CSI1_KEYS)]
        forms += [["csit", n, m] for n in sorted(CSIT_KEYS) + sorted(CSIT_UNKNOWN)]
        forms += [["ss3m", m, x] for x in sorted(SS3M_KEYS)]
    forms += [["ss3", x] for x in sorted(SS3_KEYS) + list(SS3_UNKNOWN)]
    for enc in ENCODINGS:
        for f in forms:
            n = len(build_item(f, "utf8").data)
            yield {"enc": enc, "items": [f], "frags": _single_cut_frags(n)}
            yield {"enc": enc, "items": [f, f, ["raw", "q"]], "frags": [[[n - 1, 0], [n + 1, 0]], [[n + 2, 1]]]}


def x10_cases():
    frags = _single_cut_frags(6)
    for v in range(256):
        yield {"enc": "utf-8", "items": [["x10", v, 40, 50]], "frags": frags}
        yield {"enc": "utf-8", "items": [["x10", 32, v, 50]], "frags": frags}
        yield {"enc": "utf-8", "items": [["x10", 32, 40, v]], "frags": frags}
    for enc in ("euc-jp", "iso8859-1"):
        for v in range(0, 256, 5):
            yield {"enc": enc, "items": [["x10", v, 255 - v, (v * 7) & 255], ["raw", "z"]], "frags": frags}


def dbcs_cases():
    """every two-byte character that Python's own codec (independent of urwid and of this harness) decodes
    to one character, for the double-byte codecs urwid's wide mode stands for; whole, split between the two
    bytes, and embedded between printable bytes"""
    for enc in ("gbk", "big5", "uhc", "euc-jp"):
        for lead in range(0x81, 0xFF):
            for trail in range(0x40, 0xFF):
                try:
                    if len(bytes([lead, trail]).decode(enc)) != 1:
                        continue
                except UnicodeDecodeError:
                    continue
                yield {"enc": enc, "items": [["db", lead, trail]], "frags": [[[1, 0]]]}
                if trail < 0x80 or (lead + trail) % 16 == 0:
                    yield {"enc": enc, "items": [["raw", "x"], ["db", lead, trail], ["raw", "y"]], "frags": [[[2, 0]]]}


def utf8_shape_cases():
    """every byte string that has the *shape* of a UTF-8 character - lead byte 0xC0-0xF7 followed by as
    many continuation bytes as its bit pattern announces - with the second byte taking all 64 values and
    the later ones the two extremes; characters and non-characters (overlong, surrogate, > U+10FFFF,
    leads 0xC0/0xC1/0xF5-0xF7) alike, told apart by CPython's codec.  Alone and between printable bytes."""
    def shapes():
        for lead in range(0xC0, 0xE0):
            for c1 in range(0x80, 0xC0):
                yield bytes([lead, c1])
        for lead in range(0xE0, 0xF0):
            for c1 in range(0x80, 0xC0):
                for c2 in (0x80, 0xBF):
                    yield bytes([lead, c1, c2])
        for lead in range(0xF0, 0xF8):
            for c1 in range(0x80, 0xC0):
                for c2 in (0x80, 0xBF):
                    for c3 in (0x80, 0xBF):
                        yield bytes([lead, c1, c2, c3])

    for i, data in enumerate(shapes()):
        txt = data.decode("latin-1")
        n = len(data)
        yield {"enc": "utf-8", "items": [["u8x", txt]], "frags": _single_cut_frags(n)}
        yield {"enc": "utf-8", "items": [["raw", "x"], ["u8x", txt], ["raw", "y"]], "frags": [[[n, 1]], [[2, 2], [n + 1, 0]]]}
        yield {"enc": "utf-8", "items": [["u8x", txt], ["u8x", txt], ["tab", 0]], "frags": [[[n - 1, 0], [n + 1, 3]]]}
        if i % 16 == 0:
            yield {"enc": "iso8859-1", "items": [["u8x", txt], ["raw", "y"]], "frags": [[[1, 2]]]}
            yield {"enc": "euc-jp", "items": [["u8x", txt], ["raw", "y"]], "frags": [[[1, 2]]]}


def _recognised_items():
    """every input_sequences entry and every independently written xterm form (all modifier parameters), an
    X10 / SGR mouse report per modifier combination, cursor position reports, a character of every class,
    every C0 byte and every ESC + printable byte"""
    inner = [["tab", i] for i, (_s, name) in enumerate(TABLE) if name not in ("mouse", "sgrmouse")]
    for m in range(2, 9):
        inner += [["csi1", m, x] for x in sorted(CSI1_KEYS)]
        inner += [["csit", n, m] for n in sorted(CSIT_KEYS)]
        inner += [["ss3m", m, x] for x in sorted(SS3M_KEYS)]
    inner += [["ss3", x] for x in sorted(SS3_KEYS)]
    for mods in range(8):
        inner += [["x10", 32 + 4 * mods + low, 40, 50] for low in (0, 3)]
        inner += [["sgr", 4 * mods, 12, 7, final] for final in "Mm"]
    inner += [["cpr", 24, 80], ["cpr", 1, 3]]
    inner += [["u8", cp] for cp in (0xE9, 0x20AC, 0x1F600)] + [["db", 0xA4, 0xA2], ["u8x", "\xc0\x80"], ["u8x", "\xbf"]]
    inner += [["raw", chr(c)] for c in _C0 if c != ESC] + [["alt", c] for c in range(32, 127)]
    return inner


def esc_prefix_cases():
    """an ESC byte in front of every recognised report (_recognised_items); then a second ESC in front of
    that.  Whole, cut after the first ESC (plain / wake-up without input / timeout), inside the sequence,
    and followed by a printable byte."""
    for enc in ENCODINGS:
        mode = {"utf-8": "utf8", "euc-jp": "wide", "iso8859-1": "narrow"}[enc]
        for it in _recognised_items():
            n = len(build_item(it, mode).data) + 1
            yield {"enc": enc, "items": [["meta", it], ["raw", "z"]],
                   "frags": [[[1, 0]], [[1, 2]], [[1, 1]], [[2, 0], [n - 1, 2]]]}
            yield {"enc": enc, "items": [["meta", ["meta", it]]], "frags": [[[1, 0], [2, 0]], [[2, 3]]]}


_WIDE_ENCODINGS = ["euc-jp", "gbk", "big5", "uhc"]
_STRAY_FOLLOWERS = [
    ["tab", 0], ["tab", len(TABLE) // 2], ["csi1", 5, "A"], ["csit", 5, 2], ["ss3", "P"], ["x10", 32, 40, 50],
    ["sgr", 0, 12, 7, "M"], ["cpr", 24, 80], ["alt", ord("j")], ["meta", ["raw", "\r"]], ["meta", ["csi1", 3, "D"]],
]


def stray_high_byte_cases():
    """a byte >= 0x80 that is not followed by a possible second half / continuation byte is a byte that forms
    no known sequence: every such byte x every follower byte that is no second half (0x00-0x3F and DEL; the
    follower ESC as the first byte of a key sequence, mouse report, cursor position report or meta form) in
    the double-byte mode; every such byte x the ESC-led forms and a diagonal of the single followers in every
    double-byte codec name, utf-8 and iso8859-1; and four such bytes in front of every recognised item.
    Whole, byte by byte, cut after the high byte (plain / timeout / wake-up without input), followed by
    a printable byte."""
    singles = [c for c in [*range(0x40), 0x7F] if c != ESC]
    frags = [[[1, 0]], [[1, 1]], [[1, 3]]]
    for hb in range(0x80, 0x100):
        for c in singles:
            yield {"enc": "euc-jp", "items": [["stray", hb, ["raw", chr(c)]], ["raw", "y"]], "frags": frags}
            if (hb + c) % 8 == 0:
                for enc in ("gbk", "big5", "uhc", "utf-8", "iso8859-1"):
                    yield {"enc": enc, "items": [["raw", "x"], ["stray", hb, ["raw", chr(c)]], ["raw", "y"]], "frags": [[[2, 0]], [[2, 1]]]}
        for j, f in enumerate(_STRAY_FOLLOWERS):
            for enc in (_WIDE_ENCODINGS[(hb + j) % 4], "utf-8", "iso8859-1"):
                yield {"enc": enc, "items": [["stray", hb, f], ["raw", "y"]], "frags": [[[1, 0], [3, 0]], [[1, 1]], [[2, 2]]]}
        # a double-byte / UTF-8 character in front of the stray byte; two such bytes in a row (they are two
        # characters in the single-byte mode only)
        yield {"enc": "euc-jp", "items": [["db", 0xA4, 0xA2], ["stray", hb, ["tab", 0]]], "frags": [[[3, 0]], [[2, 1]]]}
        yield {"enc": "utf-8", "items": [["u8", 0x20AC], ["stray", hb, ["tab", 0]]], "frags": [[[4, 0]], [[3, 1]]]}
        yield {"enc": "iso8859-1", "items": [["stray", hb, ["stray", hb ^ 0x41, ["tab", 0]]]], "frags": [[[1, 0]], [[2, 1]]]}
    for enc in ENCODINGS:
        for it in _recognised_items():
            for hb in (0x80, 0x8E, 0xA1, 0xFF):
                yield {"enc": enc, "items": [["stray", hb, it], ["raw", "z"]], "frags": [[[1, 0]], [[1, 3]]]}


def timeout_value_cases():
    """every completion-timeout value of COMPLETE_WAITS (zero as int and float, the default spelled out, an
    int, tiny and large floats; max_wait values in rotation), set with set_input_timeouts before the first
    read, x every recognised item (_recognised_items) followed by a printable byte x 3 encodings: byte by
    byte (built in), cut after the first byte with the timeout firing, cut before the item's last byte with a
    wake-up without input and then the timeout.  Then every ordered pair of values, the second one set between
    two reads that both end inside a sequence."""
    items = _recognised_items()
    for enc in ENCODINGS:
        mode = {"utf-8": "utf8", "euc-jp": "wide", "iso8859-1": "narrow"}[enc]
        for j, it in enumerate(items):
            n = len(build_item(it, mode).data)
            frags = [[[1, 1]], [[n - 1, 3]]] if n > 2 else [[[1, 1]], [[1, 2], [n, 2]]]
            for i, cw in enumerate(COMPLETE_WAITS):
                yield {"enc": enc, "items": [it, ["raw", "z"]], "frags": frags, "waits": [[MAX_WAITS[(i + j) % len(MAX_WAITS)], cw]]}
    pair_items = [["tab", 0], ["csi1", 5, "A"], ["x10", 32, 40, 50], ["sgr", 0, 12, 7, "M"], ["cpr", 24, 80], ["u8", 0x20AC],
                  ["meta", ["csit", 5, 2]]]
    for a in COMPLETE_WAITS:
        for b in COMPLETE_WAITS:
            for j, it in enumerate(pair_items):
                for first in ([None, a], None):
                    yield {"enc": "utf-8", "items": [it, it], "frags": [[[1, 0], [2, 1]], [[1, 1], [2, 0], [3, 3]]],
                           "waits": [first, [MAX_WAITS[j % len(MAX_WAITS)], b]]}


def mouse_sgr_cases():
    for b in range(128):
        for final in "Mm":
            yield {"enc": "utf-8", "items": [["sgr", b, 1 + b, 300 - b, final]], "frags": [[[4, 0]], [[5, 1]]]}


# ---------------------------------------------------------------------------------------------
# atheris (thorough tier): arbitrary bytes + a 4-byte header choosing encoding and fragmentations


def fuzz_case(data: bytes):
    """Deterministic map fuzz input -> case (the case is explicit, so a crash becomes a replay)."""
    if len(data) < 5:
        return None
    enc = ENCODINGS[data[0] % 3]
    stream = data[4:]
    n = len(stream)
    frags = []
    for d in data[1:4]:
        if d == 0 or n < 2:
            continue
        step = d % 7 + 1
        cuts = [
            [p, (1 if ((p * 5 + d) >> 3) & 1 and d & 128 else 0) | (2 if (p * 3 + d) & 3 == 0 and d & 64 else 0)]
            for p in range(1 + d % step, n, step)
        ]
        if cuts:
            frags.append(cuts)
    case = {"enc": enc, "items": [["raw", stream.decode("latin-1")]], "frags": frags}
    w = data[0] // 3  # 0 (all corpus seeds): the default timeouts, never set
    if w:
        case["waits"] = [[MAX_WAITS[(w >> 3) % len(MAX_WAITS)], COMPLETE_WAITS[w % len(COMPLETE_WAITS)]]]
    return case


def _fuzz_seeds():
    seeds = []
    for seq, _ in TABLE[::7]:
        seeds.append(b"\x00\x01\x82\x00\x1b" + seq.encode("ascii"))
    seeds += [
        b"\x00\x01\x83\x00\x1b[<0;12;7M\x1b[<35;1;1m",
        b"\x00\x02\x00\x00\x1b[M !!\x1b[M#~~",
        b"\x00\x01\x00\x00\x1b[24;80R",
        b"\x00\x01\x81\x00\xc3\xa9\xe2\x82\xac\xf0\x9f\x98\x80",
        b"\x01\x01\x00\x00a\xa4\xa2b",
        b"\x02\x01\x00\x00\xe9\x1b\x1b[1;5A",
    ]
    return seeds


def _run_atheris(ctx, runs, max_time):
    root = os.path.dirname(os.path.dirname(os.path.abspath(__file__)))
    work = os.path.join(root, ".work", f"C05-atheris-{os.getpid()}-{ctx.shard}")
    corpus, fails = os.path.join(work, "corpus"), os.path.join(work, "fail")
    for d in (corpus, fails):
        os.makedirs(d, exist_ok=True)
    seeded = ctx.shard % 2 == 0  # even shards start from the table, odd ones from an empty corpus
    if seeded:
        for i, s in enumerate(_fuzz_seeds()):
            with open(os.path.join(corpus, f"seed{i:03d}"), "wb") as f:
                f.write(s)
    cmd = [
        sys.executable, os.path.join(root, "vlib", "c05_fuzz.py"), corpus,
        f"-runs={runs}", f"-seed={ctx.derive_seed('atheris') % (2**31 - 1) + 1}", "-max_len=160", "-len_control=0",
        f"-max_total_time={int(max_time)}", "-timeout=25", f"-artifact_prefix={fails}/", "-print_final_stats=1",
    ]
    env = dict(os.environ, C05_FAIL_DIR=fails, C05_KNOWN=",".join(sorted(ctx.known_active)))
    try:
        p = subprocess.run(cmd, env=env, capture_output=True, text=True, timeout=max_time + 120, cwd=root)
        out = p.stdout + p.stderr
        rc = p.returncode
    except subprocess.TimeoutExpired as e:
        out, rc = str(e.stdout or "") + str(e.stderr or ""), -9
    m = re.search(r"stat::number_of_executed_units:\s*(\d+)", out)
    executed = int(m.group(1)) if m else 0
    cov = re.findall(r"cov: (\d+)", out)
    ctx.count("atheris:executions", executed)
    ctx.count("atheris:seeded-shards" if seeded else "atheris:empty-corpus-shards")
    ctx.notes.append(f"atheris shard {ctx.shard}: rc={rc} executed={executed} cov={cov[-1] if cov else '?'} seeded={seeded}")
    stat = os.path.join(fails, "known_skipped.stat")
    if os.path.exists(stat):
        with open(stat) as f:
            for fid, cnt in json.load(f).items():
                ctx.excluded[fid] = ctx.excluded.get(fid, 0) + cnt
    cases = []
    for name in sorted(os.listdir(fails)):
        path = os.path.join(fails, name)
        if name.endswith(".json"):
            with open(path) as f:
                cases.append(json.load(f))
        elif name.startswith(("crash-", "timeout-", "oom-", "leak-")):
            with open(path, "rb") as f:
                c = fuzz_case(f.read())
            if c is not None:
                cases.append(c)
    if rc != 0 and not cases and executed == 0:
        ctx.notes.append("atheris did not run: " + out[-400:])
    for c in cases:
        if c.get("known"):
            continue
        c.pop("known", None)
        try:
            ctx.evaluate("stream", c)
        except Violation as v:
            ctx.fail("stream", c, v)
            break
    if ctx.failure is None:
        import shutil

        shutil.rmtree(work, ignore_errors=True)


# ---------------------------------------------------------------------------------------------


def shard(ctx):
    sweeps = [
        ("every input_sequences entry x 3 encodings x every single cut, with and without timeout", table_cases()),
        ("independently written xterm forms (CSI 1;m X, CSI n;m ~, SS3 X, SS3 m X; m 2..8) x 3 encodings x every single cut", xterm_cases()),
        ("X10 mouse: every value of each of the three bytes x every single cut", x10_cases()),
        ("SGR mouse: every button code 0..127 x M/m", mouse_sgr_cases()),
        ("ESC and ESC ESC before every input_sequences entry / xterm form / mouse report per modifier set / CPR / "
         "character class / C0 byte x 3 encodings", esc_prefix_cases()),
        ("every UTF-8-shaped sequence (lead 0xC0-0xF7 x every second byte x extreme later bytes), character or not", utf8_shape_cases()),
        ("every two-byte character of gbk / big5 / uhc / euc-jp (by Python's codecs): whole and split", dbcs_cases()),
    ]
    for name, cases in sweeps:
        if ctx.failure is None:
            ctx.sweep("stream", cases, nontrivial=is_nontrivial, classify=classify, exhaustive_name=name)
    if ctx.failure is None:
        ctx.sweep(
            "stream", timeout_value_cases(), nontrivial=is_nontrivial, classify=classify,
            exhaustive_name="every completion-timeout value (0, 0.0, 0.125, 1, 0.01, 1e-06, 2.5, 30.0) set with set_input_timeouts x "
            "every recognised item x 3 encodings, cut after the first byte / before the last with the timeout firing; every ordered "
            "pair of values with the second set between two reads",
        )
    if ctx.failure is None:
        ctx.given("sync", _sync_case(), ctx.scale(100, 3000), classify=classify_sync)
    if ctx.failure is None:
        ctx.sweep(
            "stream", stray_high_byte_cases(), nontrivial=is_nontrivial, classify=classify,
            exhaustive_name="a byte >= 0x80 (all 128) in front of every byte that is no second half (0x00-0x3F, DEL), in front of "
            "the ESC-led forms, and four of them in front of every recognised item x double-byte / utf-8 / iso8859-1",
        )
    if ctx.failure is None:
        ctx.given("stream", _stream_case(max_frags=ctx.scale(4, 6)), ctx.scale(1200, 60000),
                  nontrivial=is_nontrivial, classify=classify)
    if ctx.failure is None and ctx.tier == "thorough" and not ctx.expired():
        import time

        left = ctx.budget - (time.monotonic() - ctx.t0)
        if left > 120:
            _run_atheris(ctx, runs=40000, max_time=min(300.0, left - 60))
        else:
            ctx.notes.append("atheris skipped: budget used up by the Hypothesis campaign")


# ---------------------------------------------------------------------------------------------
# known findings (active only while listed with status "known")


def _stream_of(case):
    return build_stream(case)[2]


def _known_sgr(sub, case, v):
    if not v.clause.startswith("exception:ValueError@display/escape.py:"):
        return False
    if not v.clause.endswith((":read_sgrmouse_info", ":<genexpr>")):
        return False
    return any(not _SGR_OK.match(m.group(1)) for m in _SGR_ANY.finditer(_stream_of(case)))


def _known_wide(sub, case, v):
    if case["enc"] != "euc-jp" or not v.clause.startswith("exception:TypeError@str_util.py:within_double_byte"):
        return False
    s = _stream_of(case)
    return any(b >= 0x80 for b in s[:-1])


def _known_sync(sub, case, v):
    return sub == "sync" and v.clause == "sync-pending-never-decoded"


_ESC_CPR = re.compile(rb"\x1b\x1b\[[1-9][0-9]*;[1-9][0-9]*R")


def _known_esc_cpr(sub, case, v):
    if v.clause != "exception:AttributeError@display/escape.py:process_keyqueue":
        return False
    return _ESC_CPR.search(_stream_of(case)) is not None


KNOWN = {
    "C05-esc-before-cursor-position-attributeerror": _known_esc_cpr,
    "C05-sgr-mouse-malformed-valueerror": _known_sgr,
    "C05-wide-double-byte-typeerror": _known_wide,
    "C05-get-input-never-flushes-pending": _known_sync,
}
