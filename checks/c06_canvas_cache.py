"""C06 — the canvas cache is invisible: cached rendering equals fresh rendering.

Twin-world, model-free differential check driven by an op list (the case is JSON).

From one widget-tree spec (vlib.gen_widgets) two identical but separate trees are built:

  world A  uses urwid.CanvasCache exactly as an application would; the canvases A hands out are kept
           alive together with a snapshot of their content - and so is every finalized canvas below
           them (the canvases the cache handed to the parent widgets).  case["hold"] == "all": until a
           "drop" op releases them (+ gc.collect(1)); "last": like a Screen, only the canvas tree of the
           latest root rendering, the previous one is released after the new one has been rendered;
  world B  performs every call with ``CanvasCache.fetch -> None`` and ``CanvasCache.store -> no-op``
           patched in (restored afterwards): for B the cache is always empty and B never adds to it,
           so A's entries, dependency lists and weakref clean-ups are left untouched
           (``CanvasCache.clear()`` would also drop A's entries).

Besides the widgets of vlib.gen_widgets the trees contain probe widgets (this module): multi-row flow / box
leaves without a cursor, optionally selectable, whose rendering is cached, declared ``no_cache = ["render"]``
or returns a canvas with ``cacheable = False`` (as urwid.Terminal), changed through the public mutator
``set_value()`` (calls ``_invalidate()``); an uncached transparent decoration; ListBoxes of 2..8 such items and
Buttons with wrapping labels, bare or under a cached box parent (a quarter of the box-mode roots).  They come
in as roots, through case["plant"] (a node replaced via its parent's public API before the first rendering)
and through the child-replacing mutators.

Every op (render/rows of any node at one of 2-3 recurring sizes and either focus, keypress,
mouse_event, a public mutator of a node addressed by its index in walk order of the *live* tree or
of the node mutated last ("again") or of the j-th ListBox / j-th probe of the tree ("lb", "probe"), drop+gc) is
applied to A and then to B.  ListBox nodes also take the size-aware public methods change_focus / shift_focus /
make_cursor_visible (any documented offset, also for the position that already has the focus), scrolling keys
and wheel events directly, with the size their latest render() call was given in the always-fresh world.

One operation, every public spelling: where urwid offers several documented ways to perform the same change, the
mutator entry performs it through any of them (op argument a: a % table length picks the operation, a // table
length the spelling) - the set_x() method, the writable property (text.align = / .wrap =, edit_text =, edit_pos =,
state =, current =, attr_map = / focus_map =, attr = / focus_attr =), the combined setter (Text.set_layout(align, wrap
[, layout]) with the other mode unchanged; AttrWrap.set_attr_map for set_attr) and the backwards-compatibility
aliases urwid still ships (they emit DeprecationWarning and delegate: AttrWrap.w = / set_w, Filler.body = / set_body,
BoxAdapter.box_widget =, Frame.set_header/set_body/set_footer/set_focus, Pile/Columns/GridFlow set_focus(int |
widget), focus_item =, focus_col = / set_focus_column, focus_cell =, and item assignment through the self-writing
legacy lists widget_list / cells).  Whole-object setters are operations of their own: Text.set_layout(align, wrap,
layout) with both modes new and a layout object (None = shared default, another StandardTextLayout, a user subclass
as docs/manual/textlayout.rst describes), contents = <rotated item list> on Pile/Columns/GridFlow, ListBox.body = <new
walker of the same class | plain list> over the rotated items, BarGraph.set_segment_attributes.

Container content edits and list-walker edits, as a list: Pile/Columns/GridFlow.contents and the body of a ListBox on a
Simple(Focus)ListWalker are list objects (MonitoredList / MonitoredFocusList); the manual: "When this object or its contents are
modified the widget is automatically flagged to be redrawn", SimpleListWalker: "it can be treated as a list. Changes made to
this object (when it is treated as a list) are detected automatically".  Op "list" performs any in-place list method or operator on the list of the j-th such widget (list_ops /
LIST_METHODS): append, extend (also of nothing), +=, pop() / pop(i) / pop(-i), remove(item), reverse(), sort(key=, reverse=)
into any order (the key ranks the items by a permutation of their positions, so also orders that leave the focused item
where it is), *= 1 / *= 0, [i:j] = (0-2 new items or the same items reversed), del [i:j], extended-slice assignment
(steps 2, 3, -1, -2: new items or the same items rotated) and deletion, clear(), [-i] = and the swap idiom
a[i], a[j] = a[j], a[i] - whenever the resulting list is one the container can display (length bounds, a box Pile keeps a
WEIGHT item, a flow Columns a flow column, no widget object in two slots).  A deterministic sweep (_list_sweep) runs, as
hist cases, every such method with every argument shape on Pile (flow / box), Columns, GridFlow and ListBox (both
walkers) of 0/1..4 (thorough 5) distinct Text / Edit items with the focus on every position, bare (rendered with and
without focus, all canvases held) and inside a LineBox (only the latest rendering held, as a Screen): render, ONE list edit,
render.

Every child is a dependency, whatever else the cache holds: whether a container's canvas is cached and which widgets it is
registered with is decided when it is stored, from what the cache holds at that moment (the children's canvases, or the
widgets the container names itself - the columns a Columns could not show).  A second deterministic sweep (_dep_sweep,
exhaustive 'dependencies') therefore varies the history BEFORE a change: small Pile (flow / box), GridFlow, ListBox (both
walkers), Frame and Columns with every assignment of GIVEN / PACK / WEIGHT to 1..3 (thorough 4) columns, focus on the first or
last child, bare (all canvases held) or inside a LineBox (latest rendering held); rendered at the size that shows every child or
at a narrower one that leaves children out (hidden columns, items outside the window); over a cold cache, after every node
was rendered on its own, or after the root was rendered at another size; then render, change leaf i, render, change leaf j,
render at the same size and focus (every ordered pair with texts of about the old width; leaf i made to wrap or emptied, then
i again or its neighbour refilled).  The first histories of the Hypothesis campaign are run once more over a warm cache
(case["warm"]: every node below the root rendered on its own before the first root rendering).

After every op the root is rendered in both worlds at the
current view (size, focus) and compared:

  content-differs   same cols/rows and the same rows of (attr, charset, bytes) runs (adjacent runs with
                    equal attr+cs merged, empty runs dropped: the segmentation of a row is not content)
  cursor-differs    canvas.cursor equal
  rows-differ       rows(size, focus) equal (sub-clause render-disagrees-with-rows:<Class> when the fresh
                    world's own render() and rows() disagree: C01's subject showing through the cache)
  one-world-raises  a render()/rows() call that raises with the cache and not without it on the same tree
                    (or the other way round)
  cached-canvas-modified   every canvas A handed out still has the content/cursor snapshotted when it
                    was handed out (checked after every op, at every drop and at the end)
  finalized-canvas-mutable every Canvas/CompositeCanvas mutator called on a handed-out canvas raises
                    CanvasError (and leaves it unchanged)

World B is the detector; a difference between the twins is then CONFIRMED on the same tree, which is the
literal (and weaker) form of the statement: A's widget is rendered once more with fetch/store patched
out and must differ from what it rendered with the cache available.  If A agrees with itself, the
twins' states drifted apart earlier (a cache hit skipped a side effect of render()); the statement is
silent about that and the history ends without verdict (counted: twins-diverged-without-stale-canvas).

Deliberately weak readings:
  * same-tree confirmation (above); differing return values of keypress / mouse_event / selectable / pack,
    differing tree shapes, or a mutator / keypress / mouse_event raising in one twin only are state divergence,
    not a verdict (DESIGN.md counted the last as a violation; nothing can be re-run on the same tree there);
  * an op that raises the same exception *type* in both worlds ends the history (exceptions are
    C01/C07/C08's business); a history during which urwid emitted its own WidgetWarning is discarded;
  * pop-up coordinates and other canvas "coords" entries are not compared (content and cursor only);
  * only documented public mutators / writable properties are used; plain attribute writes
    (Padding.left, BoxAdapter.height, Divider.top ...) and WidgetWrap._w are outside the domain;
  * new children are always built for the sizing mode of the slot they go into;
  * a failing history in which some widget was handed a size with no room for its own borders/margins or a
    dimension < 1 (vlib.gen_widgets.starved, the rule C01 uses) is discarded: layout in that regime is
    erratic (0-column children are hidden, not rendered) and is outside the quantifier.
"""
from __future__ import annotations

import gc
import math
import operator
import warnings

from hypothesis import strategies as st

import urwid
from urwid.canvas import CanvasError
from urwid.widget.widget import WidgetWarning
from vlib import gen_text as T
from vlib import gen_widgets as G
from vlib.runner import Discard, Violation, innermost_is_urwid, jhash, urwid_frame
from vlib.widths import use_encoding

PROPERTY = "C06"
LEVEL = "exploration"
RULE = (
    "Hypothesis cases {encoding (utf-8 x4, euc-jp, iso8859-1), root sizing mode box/flow/fixed, widget-tree "
    "spec of depth 1..3 (4 thorough) from vlib.gen_widgets (all leaves, decorations and containers of C01) or, for a "
    "quarter of the box roots, a ListBox of 2..8 items (flow leaves, multi-row cursor-less probes with cached / "
    "no_cache / uncacheable-canvas rendering, Buttons with wrapping labels) bare, under a cached box parent or under "
    "an uncached decoration; 0-2 planted replacements (probes, such list boxes) before the first rendering, "
    "2-3 recurring sizes (1..24 x 1..10), canvas holding policy all-until-drop / latest-root-rendering-only (as a "
    "Screen), op list (<=25 ops quick, <=60 thorough)} interpreted on a twin pair "
    "(A cached / B with CanvasCache.fetch+store patched out). Ops: view(size index, focus); render / rows of "
    "any live node at a recurring size; keypress (16 keys) and mouse press (buttons 1/4/5, any cell) on the "
    "root; public mutation of the node at index n (walk order of the live tree) chosen from that class's "
    "mutators (or, op 'again', of the node mutated last), each performed through any of its documented public spellings "
    "(a // table length: set_x() method | writable property | combined setter | backwards-compatibility alias that still "
    "ships, e.g. align= / set_layout(align, same wrap, same layout), edit_text=, state=, current=, attr_map=, AttrWrap.w=/set_w, "
    "Filler.body=/set_body, BoxAdapter.box_widget=, Frame.set_header/set_body/set_footer/set_focus, container set_focus(int|widget)/"
    "focus_item=/focus_col=/set_focus_column/focus_cell=, widget_list[i]= / cells[i]=): Text set_text (incl. '')/set_align_mode/"
    "set_wrap_mode/set_layout(align, wrap[, None | StandardTextLayout() | user layout subclass]), "
    "Edit set_caption/set_edit_text/set_edit_pos/insert_text/set_mask, IntEdit, Button.set_label, CheckBox/RadioButton set_state/toggle_state/set_label, "
    "ProgressBar set_completion/done, BarGraph set_data/set_bar_width/set_segment_attributes, BigText set_text/set_font, AttrMap "
    "set_attr_map/set_focus_map, AttrWrap set_attr/set_focus_attr, LineBox.set_title, Padding align=/width=, "
    "original_widget= on every decoration, Pile/Columns/GridFlow contents insert/delete/assign/options + "
    "focus_position= + contents= (whole list, rotated), GridFlow.cell_width=, Frame header/body/footer=/focus_position=, Overlay contents[0]/[1]= "
    "and set_overlay_parameters, ListBox set_focus/set_focus_valign/focus_position=/body= (new walker or plain list over "
    "the rotated items), walker insert/delete/replace, change_focus/shift_focus/make_cursor_visible/scroll keys/wheel at the size it was last rendered with "
    "(ops 'lb'/'probe' address the j-th ListBox / probe), probe set_value, Scrollable.set_scrollpos, ScrollBar side/width; op 'list': any in-place list "
    "method / operator on the contents list of the j-th Pile/Columns/GridFlow or the walker list of the j-th ListBox (append, extend, +=, pop()/pop(i)/pop(-i), "
    "remove, reverse, sort(key, reverse) into any permutation, *= 1/0, [i:j]= new items | same items reversed, del [i:j], extended-slice assignment / deletion "
    "with steps 2,3,-1,-2, clear, [-i]=, swap a[i],a[j]=a[j],a[i]) when the container can display the result; drop all held canvases + gc.collect(1). ~20% of "
    "the ops are not followed by the comparison render; 1 in 7 list elements is a correlated pattern (change "
    "without redraw / other view / change again; view A, view B, change, view A; three changes of one widget; a node rendered on its own, another view, a change of that node; "
    "two list edits of one container, the first without redraw). Before the Hypothesis campaign a deterministic sweep (exhaustive 'list-methods', ~19000 hist cases quick): "
    "{Pile flow, Pile box, Columns, GridFlow, ListBox on SimpleFocusListWalker / SimpleListWalker} x length 0|1..4 (5 thorough) of distinct Text/Edit items x every focus "
    "position x {bare root rendered focused, bare unfocused (hold all), inside a LineBox (hold last)} x every list method x its whole argument domain for that length "
    "(all i<=j, every sort order (<=24 quick, 120 thorough; 6 when unfocused) and reverse=True with the first six keys, all extended slices, all swaps): render, one list edit, render. "
    "Second sweep (exhaustive 'dependencies', ~32000 hist cases quick): {Pile flow, Pile box, GridFlow, ListBox x2 walkers of 1..4 (5 thorough) Text/Edit leaves, Frame "
    "(header, body, footer), Columns of 1..3 (4 thorough) columns x every assignment of GIVEN 4 / PACK / WEIGHT 1 to the columns} x focus on the first | last child x "
    "{bare, hold all | inside a LineBox, hold last} x {size showing every child | narrower sizes that leave children out} x cache population {cold | every node rendered "
    "on its own first | root rendered at another size first} x {render, change leaf i, render, change leaf j, render: all ordered pairs (i, j) with short texts; i made "
    "to wrap or emptied, then i or its neighbour set to a short text}. After the Hypothesis campaign its first 100 (1000 thorough) histories run again with case['warm']: "
    "every node below the root rendered on its own (first recurring size, unfocused, canvases held) before the first root rendering. "
    "Oracle after every op: root rendering of A == B (content runs, cursor), rows equal, confirmed on the same "
    "tree; every held canvas (and every finalized canvas below it) unchanged; canvas mutators raise. Non-trivial: a mutation of a strict descendant of the "
    "root (or a list edit of the root's own contents / walker) is followed by the comparison render of the root at a (size, focus) that was rendered before the "
    "mutation while the canvases were still held; distinct by hash of the case."
)
ASSUMPTIONS = [
    "two trees built from the same spec by vlib.gen_widgets.build and driven by the same calls are in the same "
    "state except for what the canvas cache does (urwid has no other global mutable state that rendering reads: "
    "the text-layout lru caches are pure)",
    "CanvasCache.fetch/store are the only entry points through which widgets read/fill the cache (patched from "
    "outside for world B; invalidate/cleanup stay real)",
    "content is compared as rows of merged (attr, charset, bytes) runs; no width table is needed",
    "the alternative spellings are the ones urwid itself documents or still ships as deprecation shims (DeprecationWarning "
    "is recorded and ignored); the user text layout (StandardTextLayout subclass swapping left/right) is pure and stateless, "
    "as the manual requires of a layout object",
    "contents lists and Simple(Focus)ListWalker are documented as lists to be edited in place (docs/manual/widgets.rst: 'When this object or its contents are modified the widget is automatically flagged to be redrawn'; "
    "Pile/Columns/GridFlow.contents: 'as a list of (widget, options) tuples'; SimpleListWalker: 'it can be treated as a list. Changes made to this object ... are "
    "detected automatically and will cause ListBox objects using this list walker to be updated'); list edits keep to lists the container can display (non-empty Pile/Columns, a WEIGHT item in a box Pile, a flow column in a flow Columns, each "
    "widget object in one slot only: *= n with n >= 2 is not generated); sort keys are pure functions of the item",
    "a history in which urwid emits WidgetWarning (unsupported sizing combination) is mis-built and discarded; an "
    "op raising the same exception type in both worlds ends the history without verdict; a FAILING history in which "
    "a widget was handed a size with no room for its borders/margins or a dimension < 1 (gen_widgets.starved, as "
    "C01) is discarded",
    "CPython reference counting: canvases are released when the harness drops them (plus gc.collect(1): young "
    "generations only, a full collection costs 0.3 s per call under Hypothesis' heap; canvases form no cycles)",
    "rendering any node of the tree on its own at a recurring size (warm-up, op 'render') is a call an application may make (Widget.render is public; "
    "the widget must support the sizing mode of its slot itself); a node whose render raises in both worlds during the warm-up is skipped",
    "a twin difference that the same tree does not show (A cached == A re-rendered without the cache) is state "
    "drift caused by render() side effects skipped on a cache hit; the statement is read as silent about it",
]

_CTX = None

PACK, GIVEN, WEIGHT, RELATIVE, CLIP = (urwid.WHSettings.PACK, urwid.WHSettings.GIVEN, urwid.WHSettings.WEIGHT,
                                       urwid.WHSettings.RELATIVE, urwid.WHSettings.CLIP)

KEYS = ["up", "down", "left", "right", "page up", "page down", "home", "end", "enter", " ", "tab", "x", "5",
        "backspace", "delete", "-"]
ALIGNS = ["left", "center", "right"]
WRAPS = ["space", "any", "clip", "ellipsis"]
VALIGNS = ["top", "middle", "bottom", ("relative", 25), ("relative", 80)]
FONTS = ["Thin3x3Font", "HalfBlock5x4Font", "Thin6x6Font"]


class MirrorLayout(urwid.StandardTextLayout):
    """a user text layout object (docs/manual/textlayout.rst, "Custom Text Layouts"; Text.set_layout's third
    argument): StandardTextLayout with left and right alignment swapped - pure, stateless"""

    def layout(self, text, width, align, wrap):
        return super().layout(text, width, {"left": "right", "right": "left"}.get(align, align), wrap)


# layout argument of Text.set_layout(): None (the shared default), another StandardTextLayout instance, a user layout
LAYOUTS = [None, urwid.StandardTextLayout(), MirrorLayout()]
LAYOUT_NAMES = ["None", "StandardTextLayout()", "MirrorLayout()"]


def _count(label, n=1):
    if _CTX is not None and _CTX.failure is None:
        _CTX.count(label, n)


# ---------------------------------------------------------------------------------------------
# world B: the cache is always empty


def _no_fetch(cls, widget, wcls, size, focus):
    return None


def _no_store(cls, wcls, canvas):
    return None


class _Uncached:
    def __enter__(self):
        cc = urwid.CanvasCache
        self.saved = (cc.__dict__["fetch"], cc.__dict__["store"])
        cc.fetch = classmethod(_no_fetch)
        cc.store = classmethod(_no_store)

    def __exit__(self, *exc):
        cc = urwid.CanvasCache
        cc.fetch, cc.store = self.saved
        return False


class _Stop(Exception):
    """both worlds raised the same exception type: the history ends here without verdict"""


class World:
    def __init__(self, name, cached):
        self.name, self.cached = name, cached
        self.root = None
        self.rec = []  # (spec, size) of every render call on a widget built from a spec (vlib.gen_widgets.build)


# ---------------------------------------------------------------------------------------------
# probe widgets: leaves / a decoration whose rendering is NOT cached (documented `no_cache = ["render"]`, or a
# canvas with `cacheable = False` as urwid.Terminal's), next to cached twins of the same shape.  Multi-row,
# optionally selectable, never a cursor.  Content depends on value, row index and focus.


class _UncacheableCanvas(urwid.TextCanvas):
    cacheable = False


class Probe(urwid.Widget):
    """flow leaf of `nrows` rows (kind "flow") or box leaf (kind "box"); public mutator set_value()"""

    _sizing = frozenset([urwid.FLOW])
    canvas_cls = urwid.TextCanvas

    def __init__(self, tag, value, nrows, selectable, box=False):
        super().__init__()
        self.tag, self.value, self.nrows, self._sel, self.box = tag, value, nrows, bool(selectable), box

    def sizing(self):
        return frozenset([urwid.BOX if self.box else urwid.FLOW])

    def selectable(self):
        return self._sel

    def rows(self, size, focus=False):
        return self.nrows

    def _draw(self, size, focus):
        maxcol = size[0]
        nrows = size[1] if len(size) > 1 else self.nrows
        mark = "*" if focus else "."
        rows = [f"{self.tag}{self.value}{mark}{i}".encode("ascii")[:maxcol].ljust(maxcol) for i in range(nrows)]
        return self.canvas_cls(rows, maxcol=maxcol)

    def render(self, size, focus=False):
        return self._draw(size, focus)

    def keypress(self, size, key):
        return key

    def set_value(self, value, nrows=None):
        """public mutator"""
        self.value = value
        if nrows is not None and not self.box:
            self.nrows = nrows
        self._invalidate()


class NCProbe(Probe):
    no_cache = ["render"]

    def render(self, size, focus=False):
        return self._draw(size, focus)


class UCProbe(Probe):
    """render is wrapped by the cache as usual, but the canvas refuses to be cached"""

    canvas_cls = _UncacheableCanvas


class NCDeco(urwid.WidgetDecoration):
    """transparent decoration (not selectable) whose own rendering is not cached"""

    no_cache = ["render", "rows"]

    def sizing(self):
        return self._original_widget.sizing()

    def rows(self, size, focus=False):
        return self._original_widget.rows(size, focus)

    def pack(self, size=(), focus=False):
        return self._original_widget.pack(size, focus)

    def render(self, size, focus=False):
        return urwid.CompositeCanvas(self._original_widget.render(size, focus))


PROBES = {"cached": Probe, "no_cache": NCProbe, "uncacheable": UCProbe}


def build_spec(spec, enc, rec):
    """vlib.gen_widgets.build plus the probe classes (which may wrap / be listed with gen_widgets specs)"""
    c = spec["cls"]
    if c == "Probe":
        return PROBES[spec["cache"]](spec["tag"], spec["value"], spec["rows"], spec["sel"], box=spec["kind"] == "box")
    if c == "NCDeco":
        return NCDeco(build_spec(spec["w"], enc, rec))
    if c == "LB":
        items = [build_spec(x, enc, rec) for x in spec["items"]]
        lb = urwid.ListBox(getattr(urwid, spec["walker"])(items))
        if items:
            lb.set_focus(spec["focus"] % len(items))
        return lb
    if c == "FillerP":
        return urwid.Filler(build_spec(spec["w"], enc, rec), valign="top", height="pack")
    if c == "BoxIn":
        # a box widget (spec["w"]) under an ordinary cached box parent
        inner = build_spec(spec["w"], enc, rec)
        k = spec["kind"]
        if k == "frame":
            return urwid.Frame(inner, header=urwid.Text("head"), footer=urwid.Text("foot") if spec.get("footer") else None)
        if k == "linebox":
            return urwid.LineBox(inner)
        if k == "attrmap":
            return urwid.AttrMap(inner, "a1", "hl")
        if k == "pile":
            return urwid.Pile([("pack", urwid.Text("above")), inner])
        if k == "columns":
            return urwid.Columns([("weight", 2, inner), ("given", 2, urwid.SolidFill("|"))], box_columns=[0, 1])
        raise AssertionError(k)
    return G.build(spec, enc, rec)


# ---------------------------------------------------------------------------------------------
# the live tree


def _is_leaf(w):
    return isinstance(w, (urwid.Text, urwid.Button, urwid.CheckBox, urwid.Divider, urwid.ProgressBar,
                          urwid.SolidFill, urwid.BarGraph, urwid.BigText, Probe))


def kids(w, mode):
    """[(child widget, sizing mode of its slot)] of a live widget rendered in `mode`.
    Slot modes: box / flow / fixed / text (a Text is required: 'pack' slots in flow containers) /
    scroll (a box widget with the scrolling API)."""
    if _is_leaf(w):
        return []
    if isinstance(w, urwid.Pile):
        out = []
        for c, (t, _n) in w.contents:
            if t == GIVEN:
                out.append((c, "box"))
            elif t == WEIGHT:
                out.append((c, "box" if mode == "box" else "flow"))
            else:
                out.append((c, "fixed" if mode == "fixed" else "flow"))
        return out
    if isinstance(w, urwid.Columns):
        out = []
        for c, (t, _n, box) in w.contents:
            if box or mode == "box":
                out.append((c, "box"))
            elif mode == "flow":
                out.append((c, "text" if t == PACK else "flow"))
            else:
                out.append((c, "fixed" if t == PACK else "flow"))
        return out
    if isinstance(w, urwid.GridFlow):
        return [(c, "flow") for c, _o in w.contents]
    if isinstance(w, urwid.ListBox):
        return [(c, "flow") for c in w.body]
    if isinstance(w, urwid.Frame):
        out = []
        if w.header is not None:
            out.append((w.header, "flow"))
        out.append((w.body, "box"))
        if w.footer is not None:
            out.append((w.footer, "flow"))
        return out
    if isinstance(w, urwid.Overlay):
        if w.height_type == PACK:
            tm = "fixed" if w.width_type == PACK else "flow"
        else:
            tm = "box"
        return [(w.top_w, tm), (w.bottom_w, "box")]
    if isinstance(w, urwid.ScrollBar):
        return [(w.original_widget, "scroll")]
    if isinstance(w, urwid.Scrollable):
        ow = w.original_widget
        return [(ow, "flow" if urwid.FLOW in ow.sizing() else "fixed")]
    if isinstance(w, urwid.Padding):
        wt = w._width_type  # read-only use: `width` simplifies the type away
        if mode == "box":
            return [(w.original_widget, "box")]
        if mode == "flow":
            return [(w.original_widget, "text" if wt == PACK else ("fixed" if wt == CLIP else "flow"))]
        return [(w.original_widget, "fixed" if wt == PACK else "flow")]
    if isinstance(w, urwid.Filler):
        return [(w.original_widget, "flow" if w.height_type == PACK else "box")]
    if isinstance(w, (urwid.BoxAdapter, urwid.PopUpTarget)):
        return [(w.original_widget, "box")]
    if isinstance(w, urwid.WidgetDecoration):  # AttrMap, AttrWrap, LineBox, WidgetPlaceholder, WidgetDisable, PopUpLauncher
        return [(w.original_widget, mode)]
    if isinstance(w, G.Wrapped):
        return [(w._w, mode)]
    raise AssertionError(f"unknown widget {w!r}")


def live_nodes(root, mode):
    """walk order list of (widget, mode, depth)"""
    out = []

    def rec(w, m, d):
        out.append((w, m, d))
        for c, cm in kids(w, m):
            rec(c, cm, d + 1)

    rec(root, mode, 0)
    return out


def _size_for(mode, wh):
    if mode == "box":
        return (wh[0], wh[1])
    if mode in ("flow", "text"):
        return (wh[0],)
    if mode == "scroll":
        return (wh[0], wh[1])
    return ()


# ---------------------------------------------------------------------------------------------
# new widgets / payloads (deterministic functions of small integers and the op's serial number)


def _text_spec(s, k=0):
    return {"cls": "Text", "markup": s, "bytes": False, "align": ALIGNS[k % 3], "wrap": "space"}


def _probe_spec(kind, k, ser):
    return {"cls": "Probe", "kind": kind, "cache": ["no_cache", "cached", "no_cache", "uncacheable"][k % 4], "tag": "p",
            "value": ser, "rows": 1 + (k // 4 + ser) % 4, "sel": bool(k & 2) or kind == "flow" and bool(k & 1)}


def new_spec(slot, k, ser):
    """k < 40: widgets of vlib.gen_widgets; 40 <= k < 48: probes (uncached / cached / uncacheable canvas), an uncached
    decoration, list boxes of several multi-row selectable cursor-less items"""
    t = f"n{ser}"
    if slot == "text":
        return _text_spec(t + "x" * (k % 4), k)
    if k >= 40 and slot in ("flow", "box", "scroll"):
        j = k - 40
        long_button = {"cls": "Button", "label": f"{t} button with a label that wraps"}
        items = [_probe_spec("flow", j + i, ser + i) if i % 2 == 0 else [long_button, _text_spec(f"{t} item {i}"), _probe_spec("flow", 5, ser)][i % 3]
                 for i in range(3 + j % 4)]
        lb = {"cls": "LB", "items": items, "focus": j, "walker": ["SimpleFocusListWalker", "SimpleListWalker"][j % 2]}
        if slot == "scroll":
            return lb
        if slot == "flow":
            return [_probe_spec("flow", j, ser), _probe_spec("flow", j, ser), long_button,
                    {"cls": "NCDeco", "w": _text_spec(t)}, {"cls": "NCDeco", "w": _probe_spec("flow", j + 1, ser)},
                    _probe_spec("flow", j, ser), long_button, _probe_spec("flow", j, ser)][j]
        return [_probe_spec("box", j, ser), lb, lb, {"cls": "NCDeco", "w": lb}, {"cls": "FillerP", "w": _probe_spec("flow", j, ser)},
                lb, _probe_spec("box", j, ser), lb][j]
    flow = [
        _text_spec(t),
        _text_spec(f"{t} more words\nline two", 1),
        {"cls": "Edit", "caption": "e", "text": t, "multiline": bool(k & 8), "align": "left", "wrap": "space", "pos": k % 3},
        {"cls": "Button", "label": t},
        {"cls": "CheckBox", "label": t, "state": bool(k & 8)},
        {"cls": "Pile", "items": [{"opt": ["pack", None], "w": _text_spec(t)},
                                  {"opt": ["pack", None], "w": {"cls": "Edit", "caption": "", "text": t, "multiline": False,
                                                                "align": "left", "wrap": "space", "pos": 0}}], "focus": 1},
        {"cls": "Columns", "items": [{"opt": ["weight", 1], "w": _text_spec(t), "box": False},
                                     {"opt": ["given", 3], "w": {"cls": "Button", "label": "k"}, "box": False}],
         "dividechars": 1, "min_width": 1, "focus": 1},
        {"cls": "AttrMap", "w": _text_spec(t), "attr": "a1", "focus": "hl"},
        {"cls": "Divider", "char": "-=."[ser % 3], "top": 0, "bottom": k % 2},
        {"cls": "LineBox", "w": _text_spec(t), "title": "", "title_align": "center", "drop": []},
    ]
    if slot == "flow":
        return flow[k % len(flow)]
    if slot == "fixed":
        if k % 3 == 2:
            return {"cls": "BigText", "text": str(ser % 100), "font": FONTS[k % 3]}
        return _text_spec(t + "\nf" * (k % 2), k)
    filler = {"cls": "Filler", "w": flow[(k // 4) % len(flow)], "height": "pack", "valign": "top", "min_height": None, "top": 0, "bottom": 0}
    listbox = {"cls": "ListBox", "items": [flow[(k + i) % len(flow)] for i in range(1 + k % 3)], "focus": k, "walker": "SimpleFocusListWalker"}
    if slot == "scroll":
        return [listbox, {"cls": "Scrollable", "w": flow[k % len(flow)], "pos": k % 2}][k % 2]
    if slot == "box":
        return [filler, {"cls": "SolidFill", "char": "#.x"[ser % 3]}, listbox, filler][k % 4]
    raise AssertionError(slot)


def payload_text(b, ser, enc, newlines=True):
    wide = "漢字" if enc in ("utf-8", "euc-jp") else "WW"
    acc = "é" if enc in ("utf-8", "iso8859-1") else "e"
    opts = ["", f"t{ser}", f"text {ser} with several words", f"{ser}{wide}{acc}", "x", f"{ser} " * 6]
    if newlines:
        opts += [f"l1 {ser}\nl2", "\n"]
    return opts[b % len(opts)]


def payload_markup(b, ser, enc):
    t = payload_text(b, ser, enc)
    k = b // 8
    if k % 3 == 1:
        return ("a1", t)
    if k % 3 == 2:
        return [("hl", "m"), t, ("a2", str(ser))]
    return t


# ---------------------------------------------------------------------------------------------
# public mutators per class: list of (name, fn(b, c) -> description | None when not applicable)


def _dim(t, n):
    return "pack" if t == PACK else (n if t == GIVEN else ("relative", n))


def mutators(w, mode, ser, enc, build, shown_size=None, spell=None):
    """build(slot, k) -> new widget for a slot of that sizing mode; shown_size: the size this node was handed by
    its latest render() call in the always-fresh world (both twins are given the same one); spell: {"v": n} chooses,
    when the chosen entry is called, among the documented public spellings of that one operation (method /
    writable property / combined setter / backwards-compatibility alias that urwid still ships; 0 = the first
    one listed) and receives the name of the spelling used under "used" """
    M = []
    spell = {"v": 0} if spell is None else spell

    def add(name, fn):
        M.append((name, fn))

    def alt(*spellings):
        """(name, thunk) pairs that perform the same operation: call the one selected by spell["v"]"""
        name, thunk = spellings[spell["v"] % len(spellings)]
        spell["used"] = name
        thunk()
        return name

    def text_layout_mutators(wraps):
        # align / wrap: the method, the writable property, and Text.set_layout(), the documented all-at-once setter
        def set_align(b, c):
            m = ALIGNS[b % 3]
            return alt(("set_align_mode", lambda: w.set_align_mode(m)),
                       ("align=", lambda: setattr(w, "align", m)),
                       ("set_layout", lambda: w.set_layout(m, w.wrap, w.layout))) + f" {m}"

        def set_wrap(b, c):
            m = wraps[b % len(wraps)]
            return alt(("set_wrap_mode", lambda: w.set_wrap_mode(m)),
                       ("wrap=", lambda: setattr(w, "wrap", m)),
                       ("set_layout", lambda: w.set_layout(w.align, m, w.layout))) + f" {m}"

        def set_layout(b, c):
            al, wr, k = ALIGNS[b % 3], wraps[(b // 3) % len(wraps)], c % len(LAYOUTS)
            if spell["v"] % 2:
                w.set_layout(al, wr)  # layout omitted: the shared default layout
                return f"{al}, {wr}"
            w.set_layout(al, wr, LAYOUTS[k])
            return f"{al}, {wr}, {LAYOUT_NAMES[k]}"

        return set_align, set_wrap, set_layout

    def replace_child(name, setter, *aliases):
        """aliases: (name, setter) of the backwards-compatibility spellings of original_widget= that urwid ships"""
        ch = kids(w, mode)
        if len(ch) == 1:
            slot = ch[0][1]

            def replace(b, c):
                nw = build(slot, b)
                return alt((name, lambda: setter(nw)), *[(n2, (lambda f: lambda: f(nw))(f2)) for n2, f2 in aliases]) + f" new {slot} widget #{b}"

            add(name, replace)

    def focus_mutator(n, *aliases):
        """focus_position = i, or one of the older spellings: (name, fn(i, widget at i))"""
        def set_focus_position(b, c):
            if not n:
                return None
            i = b % n
            child = w.contents[i][0] if aliases else None
            return alt(("focus_position=", lambda: setattr(w, "focus_position", i)),
                       *[(n2, (lambda f: lambda: f(i, child))(f2)) for n2, f2 in aliases]) + f" {i}"

        return set_focus_position

    if isinstance(w, urwid.Edit):
        if isinstance(w, urwid.IntEdit):
            add("set_edit_text", lambda b, c: (w.set_edit_text(str((b * 37 + ser) % 10 ** (1 + c % 5))), "digits")[1])
        else:
            def set_edit_text(b, c):
                t = payload_text(b, ser, enc)
                return alt(("set_edit_text", lambda: w.set_edit_text(t)), ("edit_text=", lambda: setattr(w, "edit_text", t))) + f" {t!r}"

            add("set_edit_text", set_edit_text)
            add("insert_text", lambda b, c: (w.insert_text(payload_text(b, ser, enc, newlines=False)), "")[1])
            add("set_mask", lambda b, c: (w.set_mask([None, "*"][b % 2]), repr([None, "*"][b % 2]))[1])
        add("set_caption", lambda b, c: (w.set_caption(payload_markup(b, ser, enc)), repr(payload_markup(b, ser, enc)))[1])

        def set_edit_pos(b, c):
            p = b % (len(w.edit_text) + 1)
            return alt(("set_edit_pos", lambda: w.set_edit_pos(p)), ("edit_pos=", lambda: setattr(w, "edit_pos", p))) + f" {p}"

        set_align, set_wrap, set_layout = text_layout_mutators(WRAPS[:3])
        add("set_edit_pos", set_edit_pos)
        add("set_align_mode", set_align)
        add("set_wrap_mode", set_wrap)
        add("set_layout", set_layout)
    elif isinstance(w, urwid.Text):  # Text, SelectableIcon
        add("set_text", lambda b, c: (w.set_text(payload_markup(b, ser, enc)), repr(payload_markup(b, ser, enc)))[1])
        add("set_text", lambda b, c: (w.set_text(payload_markup(b + 1, ser, enc)), repr(payload_markup(b + 1, ser, enc)))[1])
        add("set_text", lambda b, c: (w.set_text(""), "''")[1])
        set_align, set_wrap, set_layout = text_layout_mutators(WRAPS)
        add("set_align_mode", set_align)
        add("set_wrap_mode", set_wrap)
        add("set_layout", set_layout)
    elif isinstance(w, urwid.RadioButton):
        add("set_state", lambda b, c: alt(("set_state", lambda: w.set_state(bool(b % 2))), ("state=", lambda: setattr(w, "state", bool(b % 2)))) + f" {bool(b % 2)}")
        add("toggle_state", lambda b, c: (w.toggle_state(), "")[1])
        add("set_label", lambda b, c: (w.set_label(payload_markup(b, ser, enc)), repr(payload_markup(b, ser, enc)))[1])
    elif isinstance(w, urwid.CheckBox):
        st3 = [True, False, "mixed"]
        add("set_state", lambda b, c: alt(("set_state", lambda: w.set_state(st3[b % 3])), ("state=", lambda: setattr(w, "state", st3[b % 3]))) + f" {st3[b % 3]!r}")
        add("toggle_state", lambda b, c: (w.toggle_state(), "")[1])
        add("set_label", lambda b, c: (w.set_label(payload_markup(b, ser, enc)), repr(payload_markup(b, ser, enc)))[1])
    elif isinstance(w, urwid.Button):
        add("set_label", lambda b, c: (w.set_label(payload_markup(b, ser, enc)), repr(payload_markup(b, ser, enc)))[1])
    elif isinstance(w, urwid.ProgressBar):
        def set_completion(b, c):
            v = (b * 7 + ser) % 131 - 10
            return alt(("set_completion", lambda: w.set_completion(v)), ("current=", lambda: setattr(w, "current", v))) + f" {v}"

        add("set_completion", set_completion)

        def set_done(b, c):
            w.done = [100, 1, 7, 50][b % 4]
            return str(w.done)

        add("done=", set_done)
    elif isinstance(w, urwid.BarGraph):
        def set_data(b, c):
            data = [((b + i + ser) % 10, (c + 2 * i) % 10) for i in range(b % 5)]
            w.set_data(data, 1 + (b + c) % 9, None if c % 2 else [1 + c % 8])
            return repr(data)

        add("set_data", set_data)
        add("set_bar_width", lambda b, c: (w.set_bar_width([None, 1, 2][b % 3]), repr([None, 1, 2][b % 3]))[1])

        def set_segment_attributes(b, c):
            # background + two segments (the graphs are built with two-segment data), plain attributes or
            # (attribute, fill character); optional hline attributes and smoothing attributes
            att = [["a1", "a2", "hl"], ["hl", "a1", "a2"], [("m1", "."), "a2", ("hl", "#")], ["m2", ("a1", "x"), "m1"]][b % 4]
            hatt = [None, ["m1"], ["m2", "a1", "a2"]][c % 3]
            satt = [None, {(1, 0): "m1", (2, 0): "m2"}][(c // 3) % 2]
            w.set_segment_attributes(list(att), hatt, satt)
            return f"{att!r}, {hatt!r}, {satt!r}"

        add("set_segment_attributes", set_segment_attributes)
    elif isinstance(w, urwid.BigText):
        add("set_text", lambda b, c: (w.set_text(str((ser * 7 + b) % 1000)), str((ser * 7 + b) % 1000))[1])
        add("set_font", lambda b, c: (w.set_font(getattr(urwid, FONTS[b % 3])()), FONTS[b % 3])[1])
    elif isinstance(w, (urwid.Divider, urwid.SolidFill)):
        pass
    elif isinstance(w, Probe):
        add("set_value", lambda b, c: (w.set_value(f"{ser}v{b}", 1 + c % 4), f"{ser}v{b}, rows={1 + c % 4}")[1])
        add("set_value", lambda b, c: (w.set_value(f"{ser}w{b}"), f"{ser}w{b}")[1])
    elif isinstance(w, urwid.AttrWrap):
        def set_attr(b, c):
            v = T.ATTRS[b % 3]
            return alt(("set_attr", lambda: w.set_attr(v)), ("attr=", lambda: setattr(w, "attr", v)),
                       ("set_attr_map", lambda: w.set_attr_map({None: v})), ("attr_map=", lambda: setattr(w, "attr_map", {None: v}))) + f" {v}"

        def set_focus_attr(b, c):
            v = [None, *T.ATTRS][b % 4]
            return alt(("set_focus_attr", lambda: w.set_focus_attr(v)), ("focus_attr=", lambda: setattr(w, "focus_attr", v))) + f" {v!r}"

        add("set_attr", set_attr)
        add("set_focus_attr", set_focus_attr)
        replace_child("original_widget=", lambda nw: setattr(w, "original_widget", nw),
                      ("w=", lambda nw: setattr(w, "w", nw)), ("set_w", lambda nw: w.set_w(nw)))
    elif isinstance(w, urwid.AttrMap):
        maps = [{None: "m1"}, {None: "a2", "a1": "m2"}, {"a1": "hl", "hl": "a1"}, {None: None}]
        def set_attr_map(b, c):
            v = dict(maps[b % 4])
            return alt(("set_attr_map", lambda: w.set_attr_map(v)), ("attr_map=", lambda: setattr(w, "attr_map", v))) + f" {v!r}"

        def set_focus_map(b, c):
            v = [None, *maps][b % 5] and dict([None, *maps][b % 5])
            return alt(("set_focus_map", lambda: w.set_focus_map(v)), ("focus_map=", lambda: setattr(w, "focus_map", v))) + f" {v!r}"

        add("set_attr_map", set_attr_map)
        add("set_focus_map", set_focus_map)
        replace_child("original_widget=", lambda nw: setattr(w, "original_widget", nw))
    elif isinstance(w, urwid.LineBox):
        if w.tline_widget:
            add("set_title", lambda b, c: (w.set_title(payload_text(b, ser, enc, newlines=False)), repr(payload_text(b, ser, enc, newlines=False)))[1])
            add("set_title", lambda b, c: (w.set_title(payload_text(b + 1, ser, enc, newlines=False)), repr(payload_text(b + 1, ser, enc, newlines=False)))[1])
        replace_child("original_widget=", lambda nw: setattr(w, "original_widget", nw))
    elif isinstance(w, urwid.Padding):
        def set_align(b, c):
            v = [*ALIGNS, ("relative", (b * 13) % 101)][b % 4]
            w.align = v
            return repr(v)

        add("align=", set_align)
        if w._width_type in (GIVEN, RELATIVE):
            def set_width(b, c):
                v = 1 + (b + ser) % 12 if w._width_type == GIVEN else ("relative", 1 + (b * 17 + ser) % 100)
                w.width = v
                return repr(v)

            add("width=", set_width)
        replace_child("original_widget=", lambda nw: setattr(w, "original_widget", nw))
    elif isinstance(w, urwid.Scrollable):
        add("set_scrollpos", lambda b, c: (w.set_scrollpos(b % 9 - 2), str(b % 9 - 2))[1])
        add("set_scrollpos", lambda b, c: (w.set_scrollpos(c % 4), str(c % 4))[1])
        replace_child("original_widget=", lambda nw: setattr(w, "original_widget", nw))
    elif isinstance(w, urwid.ScrollBar):
        def set_side(b, c):
            w.scrollbar_side = ["left", "right"][b % 2]
            return w.scrollbar_side

        def set_width(b, c):
            w.scrollbar_width = 1 + b % 2
            return str(1 + b % 2)

        add("scrollbar_side=", set_side)
        add("scrollbar_width=", set_width)
        replace_child("original_widget=", lambda nw: setattr(w, "original_widget", nw))
    elif isinstance(w, urwid.Filler):
        replace_child("original_widget=", lambda nw: setattr(w, "original_widget", nw),
                      ("body=", lambda nw: setattr(w, "body", nw)), ("set_body", lambda nw: w.set_body(nw)))
    elif isinstance(w, urwid.BoxAdapter):
        replace_child("original_widget=", lambda nw: setattr(w, "original_widget", nw),
                      ("box_widget=", lambda nw: setattr(w, "box_widget", nw)))
    elif isinstance(w, urwid.WidgetDecoration):  # WidgetPlaceholder, WidgetDisable, PopUpLauncher, PopUpTarget
        replace_child("original_widget=", lambda nw: setattr(w, "original_widget", nw))
    elif isinstance(w, G.Wrapped):
        pass
    elif isinstance(w, urwid.Pile):
        cont = w.contents

        def insert(b, c):
            if len(cont) >= 6:
                return None
            i = b % (len(cont) + 1)
            k = c % 3
            if mode == "fixed":
                item = (build("fixed", c), w.options("pack"))
            elif k == 0:
                item = (build("flow", c), w.options("pack"))
            elif k == 1:
                item = (build("box", c), w.options("given", 1 + c % 3))
            else:
                item = (build("box" if mode == "box" else "flow", c), w.options("weight", 1 + c % 3))
            cont.insert(i, item)
            return f"at {i}: {item[1]}"

        def delete(b, c):
            if len(cont) <= 1:
                return None
            i = b % len(cont)
            if mode == "box" and cont[i][1][0] == WEIGHT and sum(1 for _w, o in cont if o[0] == WEIGHT) <= 1:
                return None  # a box Pile needs a WEIGHT item to take the remaining rows
            del cont[i]
            return f"[{i}]"

        def options(b, c):
            idx = [i for i, (_w, o) in enumerate(cont) if o[0] != PACK]
            if not idx:
                return None
            i = idx[b % len(idx)]
            cw, (t, n) = cont[i]
            n2 = 1 + (n + c) % 3 if t == WEIGHT else 1 + (n + c) % 4
            cont[i] = (cw, w.options(t, n2))
            return f"[{i}] {t!s} {n} -> {n2}"

        add("contents.insert", insert)
        add("contents.delete", delete)
        add("contents[i]=", lambda b, c: _assign(w, mode, cont, b, c, build, alt, "widget_list"))
        add("contents.options", options)
        add("focus_position=", focus_mutator(len(cont), ("set_focus(int)", lambda i, cw: w.set_focus(i)), ("set_focus(widget)", lambda i, cw: w.set_focus(cw)),
                                             ("focus_item=", lambda i, cw: setattr(w, "focus_item", cw))))
        add("contents=", lambda b, c: _assign_all(w, cont, b))
    elif isinstance(w, urwid.Columns):
        cont = w.contents

        def insert(b, c):
            if len(cont) >= 6:
                return None
            i = b % (len(cont) + 1)
            k = c % 3
            if mode == "fixed":
                item = (build("fixed", c), w.options("pack")) if k else (build("flow", c), w.options("given", 2 + c % 6))
            elif mode == "box":
                item = (build("box", c), w.options(["weight", "given"][k % 2], 1 + c % 4, bool(k == 2)))
            elif k == 0:
                item = (build("box", c), w.options("given", 1 + c % 4, True))
            elif k == 1:
                item = (build("flow", c), w.options("weight", 1 + c % 3))
            else:
                item = (build("flow", c), w.options("given", 2 + c % 6))
            cont.insert(i, item)
            return f"at {i}: {item[1]}"

        def delete(b, c):
            if len(cont) <= 1:
                return None
            i = b % len(cont)
            if mode == "flow" and not cont[i][1][2] and sum(1 for _w, o in cont if not o[2]) <= 1:
                return None  # a flow Columns needs a flow column to get its height from
            del cont[i]
            return f"[{i}]"

        def options(b, c):
            idx = [i for i, (_w, o) in enumerate(cont) if o[0] != PACK]
            if not idx:
                return None
            i = idx[b % len(idx)]
            cw, (t, n, box) = cont[i]
            n2 = 1 + (int(n) + c) % 3 if t == WEIGHT else 1 + (n + c) % 8
            cont[i] = (cw, w.options(t, n2, box))
            return f"[{i}] {t!s} {n} -> {n2}"

        add("contents.insert", insert)
        add("contents.delete", delete)
        add("contents[i]=", lambda b, c: _assign(w, mode, cont, b, c, build, alt, "widget_list"))
        add("contents.options", options)
        add("focus_position=", focus_mutator(len(cont), ("set_focus(int)", lambda i, cw: w.set_focus(i)), ("set_focus(widget)", lambda i, cw: w.set_focus(cw)),
                                             ("set_focus_column", lambda i, cw: w.set_focus_column(i)), ("focus_col=", lambda i, cw: setattr(w, "focus_col", i))))
        add("contents=", lambda b, c: _assign_all(w, cont, b))
    elif isinstance(w, urwid.GridFlow):
        cont = w.contents

        def insert(b, c):
            if len(cont) >= 7:
                return None
            i = b % (len(cont) + 1)
            cont.insert(i, (build("flow", c), w.options()))
            return f"at {i}"

        def delete(b, c):
            if not len(cont):
                return None
            i = b % len(cont)
            del cont[i]
            return f"[{i}]"

        def cell_width(b, c):
            if not len(cont):
                return None
            w.cell_width = 1 + (b + ser) % 8
            return str(w.cell_width)

        add("contents.insert", insert)
        add("contents.delete", delete)
        add("contents[i]=", lambda b, c: _assign(w, mode, cont, b, c, build, alt, "cells"))
        add("cell_width=", cell_width)
        add("focus_position=", focus_mutator(len(cont), ("set_focus(int)", lambda i, cw: w.set_focus(i)), ("set_focus(widget)", lambda i, cw: w.set_focus(cw)),
                                             ("focus_cell=", lambda i, cw: setattr(w, "focus_cell", cw))))
        add("contents=", lambda b, c: _assign_all(w, cont, b))
    elif isinstance(w, urwid.Frame):
        def header(b, c):
            nw = None if c % 3 == 0 else build("flow", b)
            return alt(("header=", lambda: setattr(w, "header", nw)), ("set_header", lambda: w.set_header(nw))) + (" None" if c % 3 == 0 else f" flow #{b}")

        def footer(b, c):
            nw = None if c % 3 == 0 else build("flow", b)
            return alt(("footer=", lambda: setattr(w, "footer", nw)), ("set_footer", lambda: w.set_footer(nw))) + (" None" if c % 3 == 0 else f" flow #{b}")

        def body(b, c):
            nw = build("box", b)
            return alt(("body=", lambda: setattr(w, "body", nw)), ("set_body", lambda: w.set_body(nw))) + f" box #{b}"

        def focus(b, c):
            parts = [p for p in ("body", "header", "footer") if getattr(w, p) is not None]
            part = parts[b % len(parts)]
            return alt(("focus_position=", lambda: setattr(w, "focus_position", part)), ("set_focus", lambda: w.set_focus(part))) + f" {part}"

        add("header=", header)
        add("footer=", footer)
        add("body=", body)
        add("focus_position=", focus)
    elif isinstance(w, urwid.Overlay):
        def top(b, c):
            old, opts = w.contents[1]
            slot = kids(w, mode)[0][1]
            w.contents[1] = (build(slot, b), opts)
            return f"{slot} #{b}"

        def bottom(b, c):
            old, opts = w.contents[0]
            w.contents[0] = (build("box", b), opts)
            return f"box #{b}"

        def params(b, c):
            al = [*ALIGNS, ("relative", (b * 13) % 101)][b % 4]
            va = [*VALIGNS][c % 5]
            w.set_overlay_parameters(al, _dim(w.width_type, w.width_amount), va, _dim(w.height_type, w.height_amount),
                                     w.min_width, w.min_height, w.left, w.right, w.top, w.bottom)
            return f"align={al!r} valign={va!r}"

        add("contents[1]=", top)
        add("contents[0]=", bottom)
        add("set_overlay_parameters", params)
    elif isinstance(w, urwid.ListBox):
        body = w.body

        def set_focus(b, c):
            if not len(body):
                return None
            cf = [None, "above", "below"][c % 3]
            w.set_focus(b % len(body), cf)
            return f"{b % len(body)}, {cf!r}"

        def valign(b, c):
            v = VALIGNS[b % 5]
            w.set_focus_valign(v)
            return repr(v)

        def insert(b, c):
            if len(body) >= 8:
                return None
            i = b % (len(body) + 1)
            body.insert(i, build("flow", c))
            return f"at {i}: flow #{c}"

        def delete(b, c):
            if not len(body):
                return None
            del body[b % len(body)]
            return f"[{b % len(body) if len(body) else 0}]"

        def replace(b, c):
            if not len(body):
                return None
            body[b % len(body)] = build("flow", c)
            return f"[{b % len(body)}] = flow #{c}"

        # methods and input that need the size the ListBox is displayed with: the size of its latest render()
        # (recorded by Run.instrument); not applicable before the first rendering
        size = shown_size if shown_size is not None and min(shown_size) >= 1 else None

        def focus_rows():
            fw, _pos = body.get_focus()
            return 0 if fw is None else fw.rows((size[0],), True)

        def offset(c):
            # any offset_inset the docstring allows: 0..maxrow-1 rows above the focus widget, or 1..rows-1 of its rows cut
            fr = focus_rows()
            choices = list(range(size[1])) + [-i for i in range(1, fr)]
            return choices[c % len(choices)]

        def change_focus(b, c):
            if size is None or not len(body):
                return None
            _fw, pos = body.get_focus()
            if b % 3 == 2:
                pos = b % len(body)
                w.change_focus(size, pos, 0, [None, "above", "below"][c % 3])
                return f"{size}, {pos}, 0, {[None, 'above', 'below'][c % 3]!r}"
            off = offset(c)
            w.change_focus(size, pos, off)
            return f"{size}, {pos} (the focus), {off}"

        def shift_focus(b, c):
            if size is None or not len(body):
                return None
            off = offset(c)
            w.shift_focus(size, off)
            return f"{size}, {off}"

        def make_cursor_visible(b, c):
            if size is None:
                return None
            w.make_cursor_visible(size)
            return f"{size}"

        def lb_key(b, c):
            if size is None or not w.selectable():
                return None
            key = ["page up", "page down", "up", "down", "page down", "page up", "home", "end"][b % 8]
            r = w.keypress(size, key)
            return f"{size}, {key!r} -> {r!r}"

        def lb_wheel(b, c):
            if size is None:
                return None
            button = [4, 5][b % 2]
            r = w.mouse_event(size, "mouse press", button, c % size[0], (c // 3) % size[1], True)
            return f"{size}, wheel {button} -> {bool(r)}"

        add("set_focus", set_focus)
        add("set_focus_valign", valign)
        add("body.insert", insert)
        add("body.delete", delete)
        add("body[i]=", replace)
        def new_body(b, c):
            # ListBox.body = ...: a new list walker of the same class over the same item widgets (rotated by b), or,
            # as the setter documents, a plain list of widgets (it is wrapped in a SimpleListWalker)
            if type(body) not in (urwid.SimpleListWalker, urwid.SimpleFocusListWalker):
                return None
            items = list(body)
            k = b % len(items) if items else 0
            items = items[k:] + items[:k]
            if c % 3 == 2:
                w.body = items
                return f"list rotated by {k}"
            w.body = type(body)(items)
            return f"{type(body).__name__} rotated by {k}"

        add("focus_position=", focus_mutator(len(body)))
        add("change_focus", change_focus)
        add("shift_focus", shift_focus)
        add("make_cursor_visible", make_cursor_visible)
        add("keypress", lb_key)
        add("keypress", lb_key)
        add("mouse_event", lb_wheel)
        add("body=", new_body)
    else:
        raise AssertionError(f"no mutator table for {w!r}")
    return M


def _assign(w, mode, cont, b, c, build, alt, legacy):
    """contents[i] = (new widget, same options), or the same through the backwards-compatibility widget list
    (Pile/Columns.widget_list, GridFlow.cells: a list of the widgets that writes itself back when modified)"""
    if not len(cont):
        return None
    i = b % len(cont)
    slot = kids(w, mode)[i][1]
    nw = build(slot, c)

    def via_list():
        getattr(w, legacy)[i] = nw

    return alt(("contents[i]=", lambda: cont.__setitem__(i, (nw, cont[i][1]))), (f"{legacy}[i]=", via_list)) + f" [{i}] = {slot} #{c}"


def _assign_all(w, cont, b):
    """the writable `contents` property as a whole: the same (widget, options) items, rotated by b"""
    if len(cont) < 2:
        return None
    k = 1 + b % (len(cont) - 1)
    items = list(cont)
    w.contents = items[k:] + items[:k]
    return f"rotated by {k}"


# ---------------------------------------------------------------------------------------------
# container content edits / list-walker edits: every mutating method of the list type
#
# Pile/Columns/GridFlow.contents and the body of a ListBox on a SimpleListWalker / SimpleFocusListWalker ARE lists
# (urwid.MonitoredList / MonitoredFocusList: "this class can trigger a callback any time its contents are changed");
# the manual: "When this object or its contents are modified the widget is automatically flagged to be redrawn".  The mutator tables above use insert / del [i] / [i] = .
# Here: each in-place list method and operator, with every argument shape the list type accepts.  Items are
# (widget, options) for the containers and widgets for a ListBox.  An edit is performed only if the resulting list is
# one the container can display (same rules as contents.insert / contents.delete above: length bounds, a box Pile keeps
# a WEIGHT item, a flow Columns keeps a flow column, no widget twice).

LIST_METHODS = ["append", "extend", "+=", "pop()", "pop(i)", "remove", "reverse", "sort", "*=", "[i:j]=", "del [i:j]",
                "[ext. slice]=", "del [ext. slice]", "clear", "[-i]=", "swap"]
EXT_SLICES = [slice(0, None, 2), slice(1, None, 2), slice(None, None, -1), slice(None, None, 3), slice(None, None, -2), slice(1, None, 3)]
LIST_BEARING = (urwid.Pile, urwid.Columns, urwid.GridFlow, urwid.ListBox)


def _perm(n, k):
    """the (k mod n!)-th permutation of range(n) in lexicographic order (0: the identity)"""
    pool, out = list(range(n)), []
    k %= math.factorial(n)
    for i in range(n, 0, -1):
        f = math.factorial(i - 1)
        out.append(pool.pop(k // f))
        k %= f
    return out


def _sl(s):
    f = lambda x: "" if x is None else str(x)  # noqa: E731
    return f"{f(s.start)}:{f(s.stop)}" + ("" if s.step is None else f":{s.step}")


def list_ops(w, mode, build):
    """[(name, fn(b, c) -> description | None)] aligned with LIST_METHODS, or None if `w` has no such list.
    build(slot, k, t) -> the t-th new widget of this edit (distinct texts)"""
    if isinstance(w, urwid.ListBox):
        cont, attr, lo, hi = w.body, "body", 0, 8
        if not isinstance(cont, urwid.MonitoredList):
            return None
        new = lambda k, t=0: build("flow", k, t)  # noqa: E731
        wid = lambda it: it  # noqa: E731
        ok = lambda items: True  # noqa: E731
    elif isinstance(w, urwid.Pile):
        cont, attr, lo, hi = w.contents, "contents", 1, 6

        def new(k, t=0):
            if mode == "fixed":
                return (build("fixed", k, t), w.options("pack"))
            if k % 3 == 0:
                return (build("flow", k, t), w.options("pack"))
            if k % 3 == 1:
                return (build("box", k, t), w.options("given", 1 + k % 3))
            return (build("box" if mode == "box" else "flow", k, t), w.options("weight", 1 + k % 3))

        wid = lambda it: it[0]  # noqa: E731
        ok = lambda items: mode != "box" or any(o[0] == WEIGHT for _w, o in items)  # noqa: E731
    elif isinstance(w, urwid.Columns):
        cont, attr, lo, hi = w.contents, "contents", 1, 6

        def new(k, t=0):
            if mode == "fixed":
                return (build("fixed", k, t), w.options("pack")) if k % 3 else (build("flow", k, t), w.options("given", 2 + k % 6))
            if mode == "box":
                return (build("box", k, t), w.options(["weight", "given"][k % 2], 1 + k % 4, bool(k % 3 == 2)))
            if k % 3 == 0:
                return (build("box", k, t), w.options("given", 1 + k % 4, True))
            if k % 3 == 1:
                return (build("flow", k, t), w.options("weight", 1 + k % 3))
            return (build("flow", k, t), w.options("given", 2 + k % 6))

        wid = lambda it: it[0]  # noqa: E731
        ok = lambda items: mode != "flow" or any(not o[2] for _w, o in items)  # noqa: E731
    elif isinstance(w, urwid.GridFlow):
        cont, attr, lo, hi = w.contents, "contents", 0, 7
        new = lambda k, t=0: (build("flow", k, t), w.options())  # noqa: E731
        wid = lambda it: it[0]  # noqa: E731
        ok = lambda items: True  # noqa: E731
    else:
        return None
    n = len(cont)

    def run(desc, op):
        """perform op(list) if the container can display the result (tried on a plain copy first)"""
        trial = list(cont)
        op(trial)
        if not lo <= len(trial) <= hi or not ok(trial) or len({id(wid(it)) for it in trial}) != len(trial):
            return None
        op(cont)
        return f"{attr}{desc}"

    def news(k, count):
        return [new((k + t) % 48, t) for t in range(count)]  # k: an op argument, 0..47 (new_spec's domain)

    def append(b, c):
        item = new(c)
        return run(f".append(new #{c})", lambda lst: lst.append(item))

    def extend(b, c):
        items = news(c, b % 3)  # also extend([])
        return run(f".extend({b % 3} new from #{c})", lambda lst: lst.extend(items))

    def iadd(b, c):
        items = news(c, b % 3)
        return run(f" += {b % 3} new from #{c}", lambda lst: operator.iadd(lst, items))

    def pop_last(b, c):
        return run(".pop()", lambda lst: lst.pop()) if n else None

    def pop(b, c):
        if not n:
            return None
        i = b % n - (n if c % 2 else 0)
        return run(f".pop({i})", lambda lst: lst.pop(i))

    def remove(b, c):
        if not n:
            return None
        item = cont[b % n]
        return run(f".remove(item {b % n})", lambda lst: lst.remove(item))

    def reverse(b, c):
        return run(".reverse()", lambda lst: lst.reverse())

    def sort(b, c):
        # any order: the key ranks the items by a permutation of their current positions
        perm = _perm(n, b + 48 * (c // 2))
        rank = {id(wid(cont[p])): r for r, p in enumerate(perm)}
        rev = bool(c % 2)
        return run(f".sort(key=rank in {perm}, reverse={rev})", lambda lst: lst.sort(key=lambda it: rank[id(wid(it))], reverse=rev))

    def imul(b, c):
        # *= 1 (nothing changes, the list reports a modification) and *= 0 (emptied); larger factors would put
        # one widget object into several slots
        f = [1, 0][b % 2]
        return run(f" *= {f}", lambda lst: operator.imul(lst, f))

    def setslice(b, c):
        i = b % (n + 1)
        j = i + (b // (n + 1)) % (n - i + 1)
        if (c // 3) % 2 and j - i >= 2:
            items = list(cont[i:j])[::-1]  # the same items in another order
            return run(f"[{i}:{j}] = the same items reversed", lambda lst: lst.__setitem__(slice(i, j), items))
        items = news(c, c % 3)
        return run(f"[{i}:{j}] = {c % 3} new from #{c}", lambda lst: lst.__setitem__(slice(i, j), items))

    def delslice(b, c):
        i = b % (n + 1)
        j = i + (b // (n + 1)) % (n - i + 1)
        return run(f": del [{i}:{j}]", lambda lst: lst.__delitem__(slice(i, j)))

    def setext(b, c):
        s = EXT_SLICES[b % len(EXT_SLICES)]
        idx = list(range(n)[s])
        if not idx:
            return None
        if c % 2:
            old = [cont[x] for x in idx]
            items = old[1:] + old[:1]  # the same items rotated by one
            return run(f"[{_sl(s)}] = the same items rotated", lambda lst: lst.__setitem__(s, items))
        items = news(c, len(idx))
        return run(f"[{_sl(s)}] = {len(idx)} new from #{c}", lambda lst: lst.__setitem__(s, items))

    def delext(b, c):
        s = EXT_SLICES[b % len(EXT_SLICES)]
        if not range(n)[s]:
            return None
        return run(f": del [{_sl(s)}]", lambda lst: lst.__delitem__(s))

    def clear(b, c):
        return run(".clear()", lambda lst: lst.clear())

    def setneg(b, c):
        if not n:
            return None
        i = -1 - b % n
        old = cont[i]
        item = new(c) if isinstance(w, (urwid.ListBox, urwid.GridFlow)) else None
        if item is None:
            # same slot, same options: a new widget for the sizing mode of that slot
            slot = kids(w, mode)[i][1]
            item = (build(slot, c, 0), old[1])
        return run(f"[{i}] = new #{c}", lambda lst: lst.__setitem__(i, item))

    def swap(b, c):
        if n < 2:
            return None
        i = b % n
        j = (i + 1 + (b // n) % (n - 1)) % n

        def op(lst):
            lst[i], lst[j] = lst[j], lst[i]

        return run(f": [{i}], [{j}] = [{j}], [{i}]", op)

    fns = [append, extend, iadd, pop_last, pop, remove, reverse, sort, imul, setslice, delslice, setext, delext, clear, setneg, swap]
    assert len(fns) == len(LIST_METHODS)
    return list(zip(LIST_METHODS, fns))


# ---------------------------------------------------------------------------------------------
# observing canvases


def snap(canv):
    """(cols, rows, rows of merged runs | None, cursor)"""
    cols, rows = canv.cols(), canv.rows()
    if cols <= 0 or rows <= 0:
        return (cols, rows, None, canv.cursor)
    body = []
    for row in canv.content():
        out = []
        for attr, cs, text in row:
            if not text:
                continue
            if out and out[-1][0] == attr and out[-1][1] == cs:
                out[-1][2] = out[-1][2] + text
            else:
                out.append([attr, cs, text])
        body.append(out)
    return (cols, rows, body, canv.cursor)


def _first_diff(sa, sb):
    if sa[:2] != sb[:2]:
        return f"canvas size {sa[0]}x{sa[1]} (cached) != {sb[0]}x{sb[1]} (fresh)"
    ba, bb = sa[2] or [], sb[2] or []
    if len(ba) != len(bb):
        return f"content() yields {len(ba)} rows (cached), {len(bb)} (fresh)"
    for y, (ra, rb) in enumerate(zip(ba, bb)):
        if ra != rb:
            return f"row {y}: cached {ra!r} != fresh {rb!r}"
    return None


def _mutator_trials(canv, widget, size, focus):
    yield "finalize", lambda: canv.finalize(widget, size, focus)
    if canv.cacheable:
        yield "set_cursor", lambda: canv.set_cursor((0, 0))
        yield "set_cursor(None)", lambda: canv.set_cursor(None)
        yield "set_pop_up", lambda: canv.set_pop_up(widget, 0, 0, 1, 1)
    if isinstance(canv, urwid.CompositeCanvas):
        other = urwid.CompositeCanvas(urwid.SolidCanvas("z", 1, 1))
        yield "pad_trim_left_right", lambda: canv.pad_trim_left_right(1, 0)
        yield "pad_trim_top_bottom", lambda: canv.pad_trim_top_bottom(0, 1)
        yield "trim", lambda: canv.trim(0)
        yield "trim_end", lambda: canv.trim_end(1)
        yield "overlay", lambda: canv.overlay(other, 0, 0)
        yield "fill_attr", lambda: canv.fill_attr("zz")
        yield "fill_attr_apply", lambda: canv.fill_attr_apply({None: "zz"})
        yield "set_depends", lambda: canv.set_depends([])


def check_finalized(canv, widget, size, focus, what):
    if canv.cols() < 1 or canv.rows() < 1:
        return
    for name, fn in _mutator_trials(canv, widget, size, focus):
        try:
            fn()
        except CanvasError as e:
            # Canvas._finalized_error is ONE exception instance raised again and again: its __traceback__ chain
            # keeps every frame (and so every refused canvas) alive, which would defeat the release / garbage
            # collection schedule this check is about.  Drop it.
            e.__traceback__ = None
            continue
        raise Violation("finalized-canvas-mutable", f"{what}: {name}() on the canvas handed out by render() did not raise CanvasError")


# ---------------------------------------------------------------------------------------------
# the interpreter


class Run:
    def __init__(self, case):
        self.case = case
        self.enc = case["enc"]
        self.mode = case["mode"]
        self.sizes = case["sizes"]
        self.hold = case.get("hold", "all")  # "all": every canvas until a drop op; "last": like a Screen, only the
        # canvases of the latest root rendering (the previous ones are released after the new one was rendered)
        self.A = World("A", True)
        self.B = World("B", False)
        self.held = []  # (canvas, snapshot, description) handed out in world A and still referenced
        self.held_ids = set()
        self.keep = []
        self.trace = []
        self.view = (0, True)
        self.rendered = set()  # views of the root rendered in A since the last drop
        self.nt = False
        self.last_mut = None
        self.hits0 = urwid.CanvasCache.hits
        self.uncached = _Uncached()

    # -- calling into the worlds --------------------------------------------------------------
    def _call(self, world, fn):
        try:
            if world.cached:
                return ("ok", fn(world))
            with self.uncached:
                return ("ok", fn(world))
        except (Violation, Discard):
            raise
        except Exception as e:  # noqa: BLE001
            if not innermost_is_urwid(e):
                raise
            return ("exc", e)

    def both(self, what, fn, query=False):
        """fn(world) in A, then in B.  Same exception type in both: the history ends (_Stop).  An exception in one
        world only: for a query (render / rows: query=True) it is confirmed on the same tree - the query is
        repeated on A with the cache patched out and must behave differently from A with the cache - and is then
        a violation; for a state-changing op (mutator, keypress, mouse_event) nothing can be repeated, the twins'
        states may have drifted apart (see same_tree) and the history ends without verdict."""
        ra = self._call(self.A, fn)
        rb = self._call(self.B, fn)
        if ra[0] == "ok" and rb[0] == "ok":
            return ra[1], rb[1]
        if ra[0] == "exc" and rb[0] == "exc" and type(ra[1]) is type(rb[1]):
            raise _Stop(type(ra[1]).__name__)
        if query:
            try:
                with self.uncached:
                    fn(self.A)
                again = "ok"
            except Exception as e:  # noqa: BLE001
                if not innermost_is_urwid(e):
                    raise
                again = "exc"
            if again != ra[0]:
                desc = lambda r: f"raises {type(r[1]).__name__}: {r[1]} @{urwid_frame(r[1])}" if r[0] == "exc" else "returns"  # noqa: E731
                raise Violation("one-world-raises", self.msg(
                    f"{what}: with the cache {desc(ra)}; the same tree without the cache {'raises' if again == 'exc' else 'returns'}; "
                    f"the fresh twin {desc(rb)}"))
        _count("twins-diverged:one-world-raises")
        raise _Stop("twins-diverged")

    def msg(self, text):
        return f"{text} || history: " + "; ".join(self.trace)

    # -- observations --------------------------------------------------------------------------
    def render_pair(self, what, pick, size, focus):
        """render pick(world) in both worlds, compare, hold A's canvas"""
        def go(world):
            w = pick(world)
            canv = w.render(size, focus)
            return (w, canv, snap(canv))

        (wa, ca, sa), (wb, cb, sb) = self.both(what, go, query=True)
        d = _first_diff(sa, sb)
        if d is not None:
            self.same_tree(wa, size, focus, sa)
            raise Violation("content-differs", self.msg(f"{what} size {size} focus {focus}: {d} [the same tree rendered without the cache differs too]"))
        if sa[3] != sb[3]:
            self.same_tree(wa, size, focus, sa)
            raise Violation("cursor-differs", self.msg(
                f"{what} size {size} focus {focus}: cursor cached {sa[3]!r} != fresh {sb[3]!r} [the same tree rendered without the cache differs too]"))
        if id(ca) not in self.held_ids:
            check_finalized(ca, wa, size, focus, what)
            s2 = snap(ca)
            if s2 != sa:
                raise Violation("finalized-canvas-mutable", self.msg(f"{what}: a refused mutator changed the canvas"))
            self.hold_canvas(ca, sa, f"{what} size {size} focus {focus} after step {len(self.trace)}")
        check_finalized(cb, wb, size, focus, what + " (fresh)")
        return ca

    def hold_canvas(self, canv, s0, desc):
        """keep a canvas handed out in world A alive, with the snapshot taken now; also every finalized canvas
        below it (those are the canvases the cache handed to the parent widgets)"""
        self.held.append((canv, s0, desc))
        self.held_ids.add(id(canv))
        stack = [canv]
        while stack:
            c = stack.pop()
            for _x, _y, child, _pos in getattr(c, "children", ()):
                if id(child) in self.held_ids:
                    continue
                self.held_ids.add(id(child))
                if child.widget_info:
                    wi = child.widget_info
                    try:
                        cs = snap(child)
                    except Exception:  # noqa: BLE001
                        # content() of an inner canvas is not always defined (0-column text canvas inside a
                        # padded parent ...): such a canvas cannot be snapshotted, only kept alive
                        self.keep.append(child)
                    else:
                        self.held.append((child, cs, f"{type(wi[0]).__name__} canvas {wi[1]} focus {wi[2]} inside [{desc}]"))
                else:
                    self.keep.append(child)  # keeps id() unique
                stack.append(child)

    def release(self, when, keep_last=None):
        self.check_held(when)
        del self.held[:]
        del self.keep[:]
        self.held_ids.clear()
        if keep_last is not None:
            self.hold_canvas(keep_last, snap(keep_last), "latest root rendering")

    def same_tree(self, wa, size, focus, sa):
        """The twins differ.  Confirm on the SAME tree (the literal form of the statement, the weaker reading):
        world A's widget is rendered once more with fetch/store patched out and compared with what it rendered
        with the cache available.  If those agree, A's cached canvas is right for A's state and the twins'
        states drifted apart earlier (a cache hit skipped a side effect of render(), e.g. Edit's
        _shift_view_to_cursor flag read by a later mouse_event): the statement is silent about that, the
        history ends without verdict.  Returns only if the same-tree comparison fails too."""
        try:
            with self.uncached:
                s = snap(wa.render(size, focus))
        except Exception as e:  # noqa: BLE001
            if not innermost_is_urwid(e):
                raise
            return
        if _first_diff(sa, s) is None and sa[3] == s[3]:
            _count("twins-diverged-without-stale-canvas")
            raise _Stop("twins-diverged")

    def rows_differ(self, what, pick, size, focus, ra, rb):
        """rows() answered from a cached canvas differs from rows() computed afresh.  If the fresh world's
        own render has a different number of rows than its rows() reports, the disagreement is between
        render() and rows() (C01's subject) and merely shows through the cache: separate clause."""
        wa = pick(self.A)
        try:
            with self.uncached:
                same = wa.rows(size, focus) == ra
        except Exception:  # noqa: BLE001
            same = False
        if same:
            # weaker (same-tree) reading, see same_tree()
            _count("twins-diverged-without-stale-canvas")
            raise _Stop("twins-diverged")
        w = pick(self.B)
        clause = "rows-differ"
        extra = ""
        try:
            with self.uncached:
                rr = w.render(size, focus).rows()
            if rr != rb:
                clause = f"rows-differ:render-disagrees-with-rows:{type(w).__name__}"
                extra = f" (without any cache render({size}, {focus}) has {rr} rows where rows() reports {rb})"
        except Exception:  # noqa: BLE001
            pass
        raise Violation(clause, self.msg(f"{what}.rows({size}, {focus}): cached {ra} != fresh {rb}{extra}"))

    def check_held(self, when):
        for canv, s0, desc in self.held:
            s1 = snap(canv)
            if s1 != s0:
                d = _first_diff(s0, s1) or f"cursor {s0[3]!r} -> {s1[3]!r}"
                raise Violation("cached-canvas-modified", self.msg(f"{when}: canvas handed out by [{desc}] changed afterwards: {d}"))

    def check_view(self, why):
        si, focus = self.view
        size = _size_for(self.mode, self.sizes[si % len(self.sizes)])
        ca = self.render_pair(f"root render ({why})", lambda world: world.root, size, focus)
        if self.hold == "last":
            # a Screen: the previous canvas tree is released once the new one has been rendered
            self.release(f"release after {why}", keep_last=ca)
            self.rendered.clear()
        self.rendered.add((si % len(self.sizes), focus))

    # -- the history ----------------------------------------------------------------------------
    def instrument(self):
        """record, on every ListBox of both trees, the size its latest render() call was given (instance attribute
        around the bound method, as vlib.gen_widgets.build does; the cache wrapper below it is untouched)"""
        for world in (self.A, self.B):
            for w, _m, _d in live_nodes(world.root, self.mode):
                if isinstance(w, urwid.ListBox) and "_c06_last_size" not in w.__dict__:
                    w._c06_last_size = None

                    def render(size, focus=False, _orig=w.render, _w=w):
                        _w._c06_last_size = tuple(size)
                        return _orig(size, focus)

                    w.render = render

    def plant(self):
        """case["plant"]: [[n, k], ...] - before the first rendering node n (walk order, not the root) is replaced,
        through its parent's public API, by new_spec(slot mode, k): how probes get into the initial tree"""
        for j, (n, k) in enumerate(self.case.get("plant", [])):
            ser = 900 + j
            for world in (self.A, self.B):
                nodes = live_nodes(world.root, self.mode)
                i = n % len(nodes)
                if i == 0:
                    continue
                target = nodes[i][0]
                for pw, pm, _d in nodes:
                    ks = kids(pw, pm)
                    idx = next((x for x, (cw, _cm) in enumerate(ks) if cw is target), None)
                    if idx is None:
                        continue
                    slot = ks[idx][1]
                    if slot in ("text", "fixed") or isinstance(pw, G.Wrapped):
                        break
                    new = build_spec(new_spec(slot, k, ser), self.enc, world.rec)
                    if isinstance(pw, (urwid.Pile, urwid.Columns, urwid.GridFlow)):
                        pw.contents[idx] = (new, pw.contents[idx][1])
                    elif isinstance(pw, urwid.ListBox):
                        pw.body[idx] = new
                    elif isinstance(pw, urwid.Frame):
                        part = [p for p in ("header", "body", "footer") if getattr(pw, p) is not None][idx]
                        setattr(pw, part, new)
                    elif isinstance(pw, urwid.Overlay):
                        pw.contents[1 - idx] = (new, pw.contents[1 - idx][1])
                    else:
                        pw.original_widget = new
                    break

    def warm_up(self):
        """case["warm"]: before the first root rendering every node below the root is rendered on its own (first
        recurring size, no focus; the canvases are held as all others are).  The cache then holds canvases of widgets that
        a root rendering does not display (hidden columns, list items outside the window, an unfocused part) - what
        CanvasCache.store sees when it decides whether and with which dependencies the ancestors' canvases are cached.
        A node that cannot be rendered at that size on its own (both worlds raise) is skipped."""
        n = 1
        while n < len(live_nodes(self.A.root, self.mode)):
            try:
                self.step("render", ["~render", n, 0, False], 0)
            except _Stop as s:
                if str(s) == "twins-diverged":
                    raise
                self.trace.append("(raised in both worlds: skipped)")
            n += 1
        _count("history:warm-cache")

    def run(self):
        spec = self.case["spec"]
        self.A.root = build_spec(spec, self.enc, self.A.rec)
        self.B.root = build_spec(spec, self.enc, self.B.rec)
        try:
            try:
                self.plant()
            except Exception as e:  # noqa: BLE001
                if not innermost_is_urwid(e):
                    raise
                raise _Stop(type(e).__name__) from None
            self.instrument()
            if self.case.get("warm"):
                self.warm_up()
            self.check_view("init")
            for ser, op in enumerate(self.case["ops"]):
                kind = op[0]
                quiet = kind.startswith("~")
                kind = kind.lstrip("~")
                if not self.step(kind, op, ser + 1):
                    continue
                self.check_held(f"after step {ser + 1}")
                if not quiet:
                    self.check_view(f"after step {ser + 1}")
            self.check_view("final")
            self.check_held("end")
        except _Stop as s:
            _count(f"stopped:{s}")
        finally:
            del self.held[:]
            del self.keep[:]
        if urwid.CanvasCache.hits > self.hits0:
            _count("history:with-cache-hits")

    def nodes_pair(self):
        na = live_nodes(self.A.root, self.mode)
        nb = live_nodes(self.B.root, self.mode)
        if [(type(w), m) for w, m, _d in na] != [(type(w), m) for w, m, _d in nb]:
            _count("twins-diverged-without-stale-canvas")
            raise _Stop("twins-diverged")
        return na, nb

    def step(self, kind, op, ser):
        """apply one op to both worlds; False if it was not applicable (nothing happened)"""
        sizes = self.sizes
        if kind == "view":
            self.view = (op[1] % len(sizes), bool(op[2]))
            self.trace.append(f"{ser}:view size#{self.view[0]} focus={self.view[1]}")
            return True
        if kind == "drop":
            self.release(f"drop at step {ser}")
            # canvases hold no reference cycles: they die by reference count when dropped; the young
            # generations are collected as well (a full collection costs 0.3 s under Hypothesis' heap)
            gc.collect(1)
            self.rendered.clear()
            self.trace.append(f"{ser}:drop+gc")
            _count("op:drop")
            return True
        if kind in ("render", "rows"):
            na, _nb = self.nodes_pair()
            if kind == "rows":
                idx = [i for i, (w, m, _d) in enumerate(na) if m in ("flow", "text") and urwid.FLOW in w.sizing()]
                if not idx:
                    return False
                n = idx[op[1] % len(idx)]
            else:
                n = op[1] % len(na)
            mode = na[n][1]
            need = {"box": urwid.BOX, "scroll": urwid.BOX, "flow": urwid.FLOW, "text": urwid.FLOW, "fixed": urwid.FIXED}[mode]
            if need not in na[n][0].sizing():
                return False  # the slot's mode is the container's business; a direct call needs the widget's own support
            size = _size_for(mode, sizes[op[2] % len(sizes)])
            focus = bool(op[3])
            name = type(na[n][0]).__name__
            pick = lambda world: live_nodes(world.root, self.mode)[n][0]  # noqa: E731
            self.trace.append(f"{ser}:{kind} node {n} {name} {size} focus={focus}")
            if kind == "render":
                self.render_pair(f"render of node {n} ({name})", pick, size, focus)
                if n == 0:
                    self.rendered.add((op[2] % len(sizes), focus))
                _count("op:render-node")
            else:
                ra, rb = self.both(f"rows of node {n}", lambda world: pick(world).rows(size, focus), query=True)
                if ra != rb:
                    self.rows_differ(f"node {n} ({name})", pick, size, focus, ra, rb)
                _count("op:rows")
            return True
        si, focus = self.view
        size = _size_for(self.mode, sizes[si])
        if kind == "key":
            sa, sb = self.both("selectable()", lambda world: world.root.selectable())
            if sa != sb:
                _count("twins-diverged-without-stale-canvas")
                raise _Stop("twins-diverged")
            if not sa:
                return False
            key = op[1]
            self.trace.append(f"{ser}:keypress {size} {key!r}")
            ra, rb = self.both(f"keypress({size}, {key!r})", lambda world: world.root.keypress(size, key))
            if ra != rb:
                # the statement is about rendering; a different return value means the twins' states differ
                _count("twins-diverged-without-stale-canvas")
                raise _Stop("twins-diverged")
            _count("op:key-handled" if ra is None else "op:key-unhandled")
            return True
        if kind == "mouse":
            if self.mode == "box":
                cols, rows = size
            elif self.mode == "flow":
                cols = size[0]
                ra, rb = self.both(f"rows({size})", lambda world: world.root.rows(size, True), query=True)
                if ra != rb:
                    self.rows_differ("root", lambda world: world.root, size, True, ra, rb)
                rows = ra
            else:
                ra, rb = self.both("pack(())", lambda world: tuple(world.root.pack((), True)))
                if ra != rb:
                    _count("twins-diverged-without-stale-canvas")
                    raise _Stop("twins-diverged")
                cols, rows = ra
            if cols < 1 or rows < 1:
                return False
            x, y = op[2] % cols, op[3] % rows
            self.trace.append(f"{ser}:mouse press {op[1]} at ({x},{y}) size {size}")
            ra, rb = self.both("mouse_event", lambda world: world.root.mouse_event(size, "mouse press", op[1], x, y, True))
            if bool(ra) != bool(rb):
                _count("twins-diverged-without-stale-canvas")
                raise _Stop("twins-diverged")
            _count("op:mouse-handled" if ra else "op:mouse-unhandled")
            return True
        if kind in ("mut", "again", "lb", "probe", "list"):
            na, _nb = self.nodes_pair()
            if kind in ("lb", "probe", "list"):
                # addressed to the j-th ListBox / the j-th probe leaf of the tree: ["lb" | "probe", j, a, b, c];
                # ["list", j, m, b, c]: list method LIST_METHODS[m] on the contents / walker of the j-th Pile, Columns,
                # GridFlow or ListBox
                cls = {"lb": urwid.ListBox, "probe": Probe, "list": LIST_BEARING}[kind]
                lbs = [i for i, (w, _m, _d) in enumerate(na) if isinstance(w, cls)]
                if not lbs:
                    return False
                op = [op[0], lbs[op[1] % len(lbs)], *op[2:]]
            if kind == "again":
                # the node mutated last time (same walk index), e.g. set_text(x) ... set_text(y) on one widget
                if self.last_mut is None:
                    return False
                op = [op[0], self.last_mut, *op[1:]]
            n = op[1] % len(na)
            self.last_mut = n
            a, b, c = op[2], op[3], op[4]
            enc = self.enc
            info = {}

            shown_size = getattr(live_nodes(self.B.root, self.mode)[n][0], "_c06_last_size", None)

            def go(world):
                w, mode, _d = live_nodes(world.root, self.mode)[n]
                spell = {}
                if kind == "list":
                    M = list_ops(w, mode, lambda slot, k, t: build_spec(new_spec(slot, k, ser + 100 * t), enc, world.rec))
                else:
                    M = mutators(w, mode, ser, enc, lambda slot, k: build_spec(new_spec(slot, k, ser), enc, world.rec), shown_size, spell)
                if not M:
                    return None
                name, fn = M[a % len(M)]
                # the quotient chooses among the documented spellings of the operation (0, what shrinking tends to
                # and what the committed replays have: the first one listed)
                spell["v"] = a // len(M)
                info["name"] = f"{type(w).__name__}.{'list ' if kind == 'list' else ''}{name}"
                r = fn(b, c)
                if "used" in spell and r is not None:
                    info["spelling"] = f"{type(w).__name__}.{spell['used']}"
                if kind == "list":
                    return None if r is None else f"{type(w).__name__}.{r}"
                return None if r is None else f"{type(w).__name__}.{name}({r})"

            self.trace.append(f"{ser}:mutate node {n} {type(na[n][0]).__name__} #{a}")
            try:
                ra, rb = self.both(f"mutation of node {n}", go)
            finally:
                if "name" in info:
                    self.trace[-1] = f"{ser}:node {n} {info['name']}"
            if ra != rb:
                _count("twins-diverged-without-stale-canvas")
                raise _Stop("twins-diverged")
            if ra is None:
                self.trace.pop()
                return False
            self.trace[-1] = f"{ser}:node {n} {ra}"
            self.instrument()
            _count(f"mut:{info['name']}")
            if info.get("spelling", info["name"]) != info["name"]:
                _count(f"spelling:{info['spelling']}")
            if (n != 0 or kind == "list") and (si, focus) in self.rendered and not op[0].startswith("~"):
                self.nt = True
            return True
        raise AssertionError(op)


def check_hist(case):
    use_encoding(case["enc"])
    urwid.CanvasCache.clear()
    run = Run(case)
    try:
        with warnings.catch_warnings(record=True) as wlog:
            warnings.simplefilter("always")
            try:
                run.run()
            except Violation:
                if any(issubclass(r.category, WidgetWarning) for r in wlog):
                    raise Discard() from None
                if G.starved(run.A.rec) or G.starved(run.B.rec):
                    # somewhere in this history a widget was handed a size with no room for its own borders /
                    # margins (or a dimension < 1): outside the quantifier, as in C01
                    _count("discard:starved-size-in-failing-history")
                    raise Discard() from None
                raise
            except Exception:
                # urwid raised outside a both() call (tree construction): mis-built if it warned
                if any(issubclass(r.category, WidgetWarning) for r in wlog):
                    raise Discard() from None
                raise
        if any(issubclass(r.category, WidgetWarning) for r in wlog):
            raise Discard()
    finally:
        # belt and braces: never leave the patch or A's entries behind
        cc = urwid.CanvasCache
        if cc.__dict__["fetch"].__func__ is _no_fetch:
            cc.fetch, cc.store = run.uncached.saved
        urwid.CanvasCache.clear()
    if run.nt and _CTX is not None and _CTX.failure is None:
        _CTX.nontrivial(case)
        _CTX.count("nt:descendant-mutated-then-cached-view-rendered")
        if len(_CTX.samples) < 3:
            _CTX.samples.append({"sub": "hist", "case": case})


SUBS = {"hist": check_hist}


# ---------------------------------------------------------------------------------------------
# strategies

_n = st.integers(0, 40)
_si = st.integers(0, 2)
_arg = st.integers(0, 47)

_op = st.one_of(
    st.tuples(st.just("view"), _si, st.booleans()),
    st.tuples(st.just("view"), _si, st.booleans()),
    st.tuples(st.just("key"), st.sampled_from(KEYS)),
    st.tuples(st.just("key"), st.sampled_from(KEYS)),
    st.tuples(st.just("mouse"), st.sampled_from([1, 1, 4, 5]), st.integers(0, 23), st.integers(0, 11)),
    st.tuples(st.just("mut"), _n, _arg, _arg, _arg),
    st.tuples(st.just("mut"), _n, _arg, _arg, _arg),
    st.tuples(st.just("mut"), _n, _arg, _arg, _arg),
    st.tuples(st.just("mut"), _n, _arg, _arg, _arg),
    st.tuples(st.just("mut"), _n, _arg, _arg, _arg),
    st.tuples(st.just("mut"), _n, _arg, _arg, _arg),
    st.tuples(st.just("again"), _arg, _arg, _arg),
    st.tuples(st.just("again"), _arg, _arg, _arg),
    st.tuples(st.just("lb"), st.integers(0, 3), st.integers(6, 11), _arg, _arg),  # size-aware ListBox methods / keys / wheel
    st.tuples(st.just("lb"), st.integers(0, 3), _arg, _arg, _arg),
    st.tuples(st.just("probe"), st.integers(0, 5), _arg, _arg, _arg),
    st.tuples(st.just("probe"), st.integers(0, 5), _arg, _arg, _arg),
    # a list method / operator on the contents of the j-th Pile / Columns / GridFlow or the walker of the j-th ListBox
    st.tuples(st.just("list"), st.integers(0, 5), st.integers(0, len(LIST_METHODS) - 1), _arg, _arg),
    st.tuples(st.just("list"), st.integers(0, 5), st.integers(0, len(LIST_METHODS) - 1), _arg, st.integers(0, 7)),
    st.tuples(st.just("render"), _n, _si, st.booleans()),
    st.tuples(st.just("rows"), _n, _si, st.booleans()),
    st.tuples(st.just("drop")),
)
_op = st.tuples(st.sampled_from(["", "", "", "", "~"]), _op).map(lambda t: [t[0] + t[1][0], *t[1][1:]])

_mut4 = st.tuples(_n, _arg, _arg, _arg)
_ag3 = st.tuples(_arg, _arg, _arg)
_vw = st.tuples(_si, st.booleans())
# short correlated sequences (flattened into the op list): change without redraw / resize or refocus / change again;
# two views, a change, back to the first view; repeated changes of one widget
_pattern = st.one_of(
    st.tuples(_mut4, _vw, _ag3).map(lambda t: [["~mut", *t[0]], ["view", *t[1]], ["again", *t[2]]]),
    st.tuples(_vw, _vw, _mut4, _vw).map(lambda t: [["view", *t[0]], ["view", *t[1]], ["mut", *t[2]], ["view", *t[0]], ["view", *t[3]]]),
    st.tuples(_mut4, _ag3, _ag3).map(lambda t: [["mut", *t[0]], ["again", *t[1]], ["again", *t[2]]]),
    # a ListBox scrolled twice in a row by size-aware methods / keys / wheel (mutators 6..11 of its table)
    st.tuples(st.integers(0, 3), st.integers(6, 11), _arg, _arg, st.integers(6, 11), _arg, _arg).map(
        lambda t: [["lb", t[0], t[1], t[2], t[3]], ["lb", t[0], t[4], t[5], t[6]]]),
    # a node displayed on its own (a canvas of its own in the cache, released at the next root rendering under the
    # 'last' policy), another view, then a change of that same node
    st.tuples(_n, _si, st.booleans(), _vw, _ag3).map(
        lambda t: [["render", t[0], t[1], t[2]], ["view", *t[3]], ["mut", t[0], *t[4]]]),
    # two list edits of one container / walker, the first without a redraw
    st.tuples(st.integers(0, 5), st.integers(0, len(LIST_METHODS) - 1), _arg, _arg, st.integers(0, len(LIST_METHODS) - 1), _arg, _arg).map(
        lambda t: [["~list", t[0], t[1], t[2], t[3]], ["list", t[0], t[4], t[5], t[6]]]),
)


def _ops(max_ops):
    # six distinct strategy objects: one_of() drops repeated occurrences of the same object
    singles = [_op.map(lambda o: [o]) for _ in range(6)]
    return st.lists(st.one_of(*singles, _pattern), min_size=2, max_size=max_ops).map(
        lambda ll: [o for chunk in ll for o in chunk][:max_ops])


_wh = st.tuples(st.one_of(st.integers(1, 24), st.integers(4, 16)), st.one_of(st.integers(1, 10), st.integers(2, 6))).map(list)


_probe = st.fixed_dictionaries({
    "cls": st.just("Probe"), "kind": st.just("flow"), "cache": st.sampled_from(["cached", "cached", "no_cache", "uncacheable"]),
    "tag": st.sampled_from(["p", "q"]), "value": st.integers(0, 9), "rows": st.integers(1, 4), "sel": st.booleans()})


def _lb_root(enc):
    """a ListBox of 2..8 items: gen_widgets flow leaves, multi-row probes (selectable or not, never a cursor, some
    with uncached rendering), Buttons whose label wraps; bare or under an uncached decoration"""
    item = st.one_of(G.flow_leaves(enc), _probe, _probe,
                     st.fixed_dictionaries({"cls": st.just("Button"), "label": st.sampled_from(
                         ["ok", "a button whose label wraps over rows", "press this button to confirm the operation"])}))
    lb = st.fixed_dictionaries({"cls": st.just("LB"), "items": st.lists(item, min_size=2, max_size=8), "focus": st.integers(0, 7),
                                "walker": st.sampled_from(["SimpleFocusListWalker", "SimpleListWalker"])})
    inside = st.builds(lambda x, k, f: {"cls": "BoxIn", "kind": k, "footer": f, "w": x}, lb,
                       st.sampled_from(["frame", "linebox", "attrmap", "pile", "columns"]), st.booleans())
    return st.one_of(lb, lb, inside, inside, lb.map(lambda x: {"cls": "NCDeco", "w": x}))


def _cases(max_depth, max_ops):
    def for_enc(enc):
        def for_mode(m):
            tree = st.integers(1, max_depth).flatmap(lambda d: G.widget(m, d, enc))
            return st.fixed_dictionaries({
                "enc": st.just(enc),
                "mode": st.just(m),
                "spec": st.one_of(tree, tree, tree, _lb_root(enc)) if m == "box" else tree,
                "sizes": st.lists(_wh, min_size=2, max_size=3),
                "hold": st.sampled_from(["all", "last"]),
                "plant": st.lists(st.tuples(st.integers(1, 30), st.one_of(st.integers(40, 47), _arg)).map(list), max_size=2),
                "ops": _ops(max_ops),
            })

        return st.sampled_from(["box", "box", "box", "flow", "flow", "fixed"]).flatmap(for_mode)

    return st.sampled_from(["utf-8", "utf-8", "utf-8", "utf-8", "euc-jp", "iso8859-1"]).flatmap(for_enc)


def _children(spec):
    if spec["cls"] == "LB":
        return list(spec["items"])
    if spec["cls"] in ("NCDeco", "FillerP", "BoxIn"):
        return [spec["w"]]
    if spec["cls"] == "Probe":
        return []
    return G.children(spec)


def _walk(spec):
    yield spec
    for ch in _children(spec):
        yield from _walk(ch)


def _depth(spec):
    return 1 + max((_depth(ch) for ch in _children(spec)), default=0)


def _classes(case):
    out = [f"enc:{case['enc']}", f"hold:{case.get('hold', 'all')}", f"root-mode:{case['mode']}", f"root:{case['spec']['cls']}", f"depth:{_depth(case['spec'])}"]
    for s in _walk(case["spec"]):
        out.append(f"has:{s['cls']}" + (f":{s['cache']}" if s["cls"] == "Probe" else ""))
    for k in {o[0].lstrip('~') for o in case["ops"]}:
        out.append(f"has-op:{k}")
    if any(o[0].startswith("~") for o in case["ops"]):
        out.append("has-op:unrendered-step")
    if case.get("plant"):
        out.append("has:planted-widget")
    return sorted(set(out))


# ---------------------------------------------------------------------------------------------
# deterministic sweep: every list method x every argument shape x every length and focus position


def _sweep_leaf(i):
    if i % 2:
        return {"cls": "Edit", "caption": "", "text": f"e{i}", "multiline": False, "align": "left", "wrap": "space", "pos": 0}
    return _text_spec(f"t{i}")


def _sweep_tree(kind, n, f):
    """(root mode, spec) of a container of n distinct leaves (Text / Edit alternating) with the focus on item f"""
    leaves = [_sweep_leaf(i) for i in range(n)]
    if kind == "pile":
        return "flow", {"cls": "Pile", "items": [{"opt": ["pack", None], "w": x} for x in leaves], "focus": f}
    if kind == "pile-box":
        fill = lambda x: {"cls": "Filler", "w": x, "height": "pack", "valign": "top", "min_height": None, "top": 0, "bottom": 0}  # noqa: E731
        return "box", {"cls": "Pile", "items": [{"opt": ["weight", 1], "w": fill(x)} for x in leaves], "focus": f}
    if kind == "columns":
        return "flow", {"cls": "Columns", "items": [{"opt": ["given", 3], "w": x, "box": False} for x in leaves],
                        "dividechars": 1, "min_width": 1, "focus": f}
    if kind == "gridflow":
        return "flow", {"cls": "GridFlow", "cells": leaves, "cell_width": 3, "h_sep": 1, "v_sep": 0, "align": "left", "focus": f}
    return "box", {"cls": "ListBox", "items": leaves, "focus": f, "walker": kind}


def _sweep_args(n, max_perms):
    """(method index, b, c) covering each method's argument domain for a list of n items (see list_ops for the decoding)"""
    out = []

    def add(name, bc):
        out.extend((LIST_METHODS.index(name), b, c) for b, c in bc)

    pairs = [(i, j) for i in range(n + 1) for j in range(i, n + 1)]
    add("append", [(0, c) for c in range(3)])
    add("extend", [(k, 0) for k in range(3)])
    add("+=", [(k, 1) for k in range(3)])
    add("pop()", [(0, 0)])
    add("pop(i)", [(i, c) for i in range(n) for c in (0, 1)])
    add("remove", [(i, 0) for i in range(n)])
    add("reverse", [(0, 0)])
    # every order; reverse=True only adds another way to reach an order: with the first six keys
    add("sort", [(p % 48, 2 * (p // 48) + r) for p in range(min(math.factorial(n), max_perms)) for r in (0, 1) if not r or p < 6])
    add("*=", [(0, 0), (1, 0)])
    add("[i:j]=", [(i + (n + 1) * (j - i), c) for i, j in pairs for c in range(3)] + [(i + (n + 1) * (j - i), 3) for i, j in pairs if j - i >= 2])
    add("del [i:j]", [(i + (n + 1) * (j - i), 0) for i, j in pairs if j > i])
    add("[ext. slice]=", [(k, c) for k in range(len(EXT_SLICES)) if range(n)[EXT_SLICES[k]] for c in (0, 1)])
    add("del [ext. slice]", [(k, 0) for k in range(len(EXT_SLICES)) if range(n)[EXT_SLICES[k]]])
    add("clear", [(0, 0)])
    add("[-i]=", [(i, 0) for i in range(n)])
    add("swap", [(i + n * d, 0) for i in range(n) for d in range(n - 1)])
    return out


def _list_sweep(max_n, max_perms):
    """hist cases: a container / ListBox of n <= max_n distinct items with the focus on item f, bare (rendered with and
    without focus) or inside a LineBox (the ancestor that displays it), rendered, then ONE list edit, then rendered again"""
    box = lambda x: {"cls": "LineBox", "w": x, "title": "", "title_align": "center", "drop": []}  # noqa: E731
    for kind in ("pile", "columns", "gridflow", "SimpleFocusListWalker", "SimpleListWalker", "pile-box"):
        for n in range(0 if kind in ("gridflow", "SimpleFocusListWalker", "SimpleListWalker") else 1, max_n + 1):
            for f in range(max(n, 1)):
                mode, tree = _sweep_tree(kind, n, f)
                for wrap, vfocus in ((False, True), (False, False), (True, True)):
                    # (the first rendering is the focused one: no view op needed; unfocused: the first six sort orders)
                    for m, b, c in _sweep_args(n, max_perms if vfocus else 6):
                        yield {"enc": "utf-8", "mode": mode, "spec": box(tree) if wrap else tree, "sizes": [[14, 6], [9, 4]],
                               "hold": "last" if wrap else "all", "plant": [],
                               "ops": [["list", 0, m, b, c]] if vfocus else [["view", 0, False], ["list", 0, m, b, c]]}


# ---------------------------------------------------------------------------------------------
# deterministic sweep: every child is a dependency of every rendering of its container, whatever else the cache holds
#
# "A change to any widget is therefore visible in the next rendering of every ancestor that displays it."  Whether a
# container's canvas is cached, and which widgets it is registered with, is decided when it is stored - from what the
# cache holds at that moment (CanvasCache.store looks at the canvases of the children, or at the widgets the container
# names itself, e.g. the columns a Columns could not show).  So the history BEFORE the change matters: which widgets
# already have a canvas (also those the rendering at hand does not display), and whether an earlier change has already
# used up the registrations of the first rendering.  The sweep covers, for small containers of every kind:
#   per-item options    Columns: every assignment of GIVEN / PACK / WEIGHT to its columns
#   size                the widest size shows every child, the narrower ones leave children out (columns hidden on the
#                       side away from the focus, list items outside the window, grid cells wrapped)
#   cache population    cold | every node rendered on its own first | the root rendered at another size first
#   change              render, change leaf i, render, change leaf j, render (same size and focus throughout, the old
#                       canvases still referenced or, under a LineBox, released as a Screen does): every ordered pair
#                       (i, j) with texts of about the old width; i made to wrap / emptied, then i again or its neighbour

DEP_WARM = ["cold", "each-node-rendered-alone", "other-size-first"]
DEP_CHANGES = [("short", 1, 1), ("long", 2, 1), ("emptied-refilled", 0, 1)]  # (label, b of the first change, b of the second)


def _dep_leaf(i, text_only=False):
    s = "abcde"[i % 5] * (2 + 2 * (i % 2))  # aa bbbb cc dddd ee
    if i % 2 and not text_only:
        return {"cls": "Edit", "caption": "", "text": s, "multiline": False, "align": "left", "wrap": "space", "pos": 0}
    return _text_spec(s)


def _dep_trees(max_n, max_cols):
    """(kind, root mode, spec, sizes - widest first) of small containers whose leaves are distinct Text / Edit widgets"""
    fill = lambda x: {"cls": "Filler", "w": x, "height": "pack", "valign": "top", "min_height": None, "top": 0, "bottom": 0}  # noqa: E731
    for n in range(1, max_n + 1):
        leaves = [_dep_leaf(i) for i in range(n)]
        for f in sorted({0, n - 1}):
            yield "pile", "flow", {"cls": "Pile", "items": [{"opt": ["pack", None], "w": x} for x in leaves], "focus": f}, [[14, 6], [5, 2]]
            yield "pile-box", "box", {"cls": "Pile", "items": [{"opt": ["weight", 1], "w": fill(x)} for x in leaves], "focus": f}, [[14, 8], [5, 5]]
            yield "gridflow", "flow", {"cls": "GridFlow", "cells": leaves, "cell_width": 5, "h_sep": 1, "v_sep": 0, "align": "left", "focus": f}, [[24, 6], [7, 2]]
            for walker in ("SimpleFocusListWalker", "SimpleListWalker"):
                yield "listbox", "box", {"cls": "ListBox", "items": leaves, "focus": f, "walker": walker}, [[14, 6], [5, 2]]
    opts = {"given": ["given", 4], "pack": ["pack", None], "weight": ["weight", 1]}
    for n in range(1, max_cols + 1):
        assignments = [[]]
        for _ in range(n):
            assignments = [[*a, o] for a in assignments for o in opts]
        for a in assignments:
            for f in sorted({0, n - 1}):
                items = [{"opt": opts[o], "w": _dep_leaf(i, text_only=o == "pack"), "box": False} for i, o in enumerate(a)]
                # a column takes at most 4 cells + 1 divider: room for all / for all but one / (three or more columns) for one
                sizes = [[8, 3], [3, 3]] if n == 1 else [[5 * n + 3, 3], [5 * (n - 1), 3], [6, 3]][: min(n, 3)]
                yield "columns:" + "+".join(a), "flow", {"cls": "Columns", "items": items, "dividechars": 1, "min_width": 1, "focus": f}, sizes
    for part in ("body", "header", "footer"):
        yield "frame", "box", {"cls": "Frame", "body": fill(_dep_leaf(1)), "header": _dep_leaf(0), "footer": _dep_leaf(2), "focus_part": part}, [[14, 6], [5, 4]]


def _dep_sweep(max_n, max_cols):
    box = lambda x: {"cls": "LineBox", "w": x, "title": "", "title_align": "center", "drop": []}  # noqa: E731
    for kind, mode, tree, sizes in _dep_trees(max_n, max_cols):
        for wrap in (False, True):
            spec = box(tree) if wrap else tree
            specs = list(_walk(spec))
            leaves = [k for k, s in enumerate(specs) if s["cls"] in ("Text", "Edit")]
            sz = [[w + 2, h + 2] for w, h in sizes] if wrap else sizes  # the LineBox takes a cell on every side
            for m in range(len(sz)):
                other = 0 if m else len(sz) - 1
                for warm in DEP_WARM:
                    if warm == "other-size-first":
                        if other == m:
                            continue
                        order, pre = [sz[other], sz[m]], [["view", 1, True]]
                    elif warm == "each-node-rendered-alone":
                        order, pre = [sz[m], sz[other]], [["~render", k, 0, False] for k in range(1, len(specs))] + [["view", 0, True]]
                    else:
                        order, pre = [sz[m], sz[other]], []
                    for x, i in enumerate(leaves):
                        for label, b1, b2 in DEP_CHANGES:
                            # second change: every leaf after a width-keeping change, the same leaf and its neighbour otherwise
                            for j in leaves if label == "short" else sorted({i, leaves[(x + 1) % len(leaves)]}):
                                yield {"enc": "utf-8", "mode": mode, "spec": spec, "sizes": order, "hold": "last" if wrap else "all", "plant": [],
                                       "ops": [*pre, ["mut", i, 0, b1, 0], ["mut", j, 0, b2, 0]],
                                       "sweep": f"{kind.split(':')[0]}:{warm}:{label}"}


def shard(ctx):
    global _CTX
    _CTX = ctx
    try:
        ctx.sweep("hist", _list_sweep(ctx.scale(4, 5), ctx.scale(24, 120)), nontrivial=lambda c: False,
                  classify=lambda c: [f"sweep:list:{LIST_METHODS[c['ops'][-1][2]]}"], exhaustive_name="list-methods")
        if ctx.failure is not None:
            return
        ctx.sweep("hist", _dep_sweep(ctx.scale(4, 5), ctx.scale(3, 4)), nontrivial=lambda c: False,
                  classify=lambda c: [f"sweep:deps:{c['sweep']}"], exhaustive_name="dependencies")
        if ctx.failure is not None:
            return
        ctx.given("hist", _cases(ctx.scale(3, 4), ctx.scale(25, 60)), ctx.scale(500, 5000),
                  nontrivial=lambda c: False, classify=_classes)
        if ctx.failure is not None:
            return
        # the first histories of that campaign once more (same seed, same strategy), over a warm cache: every node is
        # rendered on its own before the first root rendering (Run.warm_up)
        ctx.given("hist", _cases(ctx.scale(3, 4), ctx.scale(25, 60)).map(lambda c: {**c, "warm": True}), ctx.scale(100, 1000),
                  nontrivial=lambda c: False, classify=lambda c: ["warm-cache-campaign"])
    finally:
        _CTX = None


# ---------------------------------------------------------------------------------------------
# known findings
#
# A KNOWN predicate tests the root cause: the failing case is re-evaluated with the proposed repair of a
# recorded finding simulated (see _attribute: the case must hold with all repairs, and is attributed to the
# finding whose repair alone makes it hold).  The repairs are simulated from outside (class attributes swapped
# for the duration of one evaluation, urwid's files are not touched) and are used by the predicates only,
# never by the campaign.


def _repair_edit_text_level():
    """Edit.render() does not go through Text's focus-blind cache entry: super().render is the plain function"""
    orig = urwid.Text.__dict__["render"]

    def render(self, size, focus=False):
        if isinstance(self, urwid.Edit):
            return orig.original_fn(self, size, focus)
        return orig(self, size, focus)

    render.original_fn = orig.original_fn
    urwid.Text.render = render

    def undo():
        urwid.Text.render = orig

    return undo


def _repair_columns_hidden_pack():
    """Columns.render(): when a column is hidden and widths are measured from the widgets ('pack'), the canvas
    depends on every column (set_depends), not only on the rendered ones"""
    cls = urwid.Columns
    orig = cls.__dict__["render"]

    def render(self, size, focus=False):
        if canv := urwid.CanvasCache.fetch(self, cls, size, focus):
            return canv
        canv = orig.original_fn(self, size, focus)
        if canv.widget_info or not isinstance(canv, urwid.CompositeCanvas):
            canv = urwid.CompositeCanvas(canv)
        widths = self.get_column_sizes(size, focus)[0]
        shown = sum(1 for wd in widths if wd > 0)
        if shown < len(self.contents) and any(o[0] == PACK for _w, o in self.contents) and not getattr(self, "_c06_linebox_title_line", False):
            canv.set_depends([w for w, _o in self.contents])
        canv.finalize(self, size, focus)
        urwid.CanvasCache.store(cls, canv)
        return canv

    render.original_fn = orig.original_fn
    cls.render = render

    # LineBox's own title line is such a Columns (an empty title is a hidden 'pack' column); LineBox.set_title()
    # works around the missing dependency by invalidating the title line itself.  The repair is not simulated
    # there, so that the recorded finding does not also explain a LineBox that lost that workaround.
    lb_init = urwid.LineBox.__init__

    def linebox_init(self, *a, **kw):
        lb_init(self, *a, **kw)
        if self.tline_widget is not None:
            self.tline_widget._c06_linebox_title_line = True

    urwid.LineBox.__init__ = linebox_init

    def undo():
        cls.render = orig
        urwid.LineBox.__init__ = lb_init

    return undo


def _repair_scrollable_adjust():
    """Scrollable.render(): a scroll position changed while rendering (clamped for this size, moved to the cursor,
    reset to 0 because the content fits) invalidates the canvases cached before"""
    cls = urwid.Scrollable
    orig = cls.__dict__["render"]

    def render(self, size, focus=False):
        if canv := urwid.CanvasCache.fetch(self, cls, size, focus):
            return canv
        before = self._trim_top
        canv = orig.original_fn(self, size, focus)
        if self._trim_top != before:
            self._invalidate()
        if canv.widget_info:
            canv = urwid.CompositeCanvas(canv)
        canv.finalize(self, size, focus)
        urwid.CanvasCache.store(cls, canv)
        return canv

    render.original_fn = orig.original_fn
    cls.render = render

    def undo():
        cls.render = orig

    return undo


def _repair_scrollbar_nocache():
    """ScrollBar.render() is not cached (as with no_cache = ["render"]); its ancestors then are not stored either"""
    cls = urwid.ScrollBar
    orig = cls.__dict__["render"]

    def render(self, size, focus=False):
        canv = orig.original_fn(self, size, focus)
        if canv.widget_info:
            canv = urwid.CompositeCanvas(canv)
        canv.finalize(self, size, focus)
        return canv

    render.original_fn = orig.original_fn
    cls.render = render

    def undo():
        cls.render = orig

    return undo


def _repair_store_checks_the_canvas_used():
    """CanvasCache.store(): a canvas is cached only if every child canvas it was built from is itself the cached
    canvas of its widget (not merely "that widget has some canvas in the cache")"""
    cc = urwid.CanvasCache
    orig = cc.__dict__["store"]

    def used(canv):
        out = []
        for _x, _y, c, _pos in getattr(canv, "children", ()):
            if c.widget_info:
                out.append(c)
            else:
                out.extend(used(c))
        return out

    def store(cls, wcls, canvas):
        if canvas.cacheable:
            # also when the widget named its dependencies itself (set_depends, e.g. Padding): the child canvases
            # it was built from are still what decides
            for c in used(canvas):
                if not any(ref() is c for ref in cls._widgets.get(c.widget_info[0], {}).values()):
                    return None
        return orig.__func__(cls, wcls, canvas)

    cc.store = classmethod(store)

    def undo():
        cc.store = orig

    return undo


def _repair_bargraph_segment_attributes():
    """BarGraph.set_segment_attributes() invalidates, as set_data() and set_bar_width() do"""
    cls = urwid.BarGraph
    orig = cls.__dict__["set_segment_attributes"]

    def set_segment_attributes(self, attlist, hatt=None, satt=None):
        orig(self, attlist, hatt, satt)
        self._invalidate()

    cls.set_segment_attributes = set_segment_attributes

    def undo():
        cls.set_segment_attributes = orig

    return undo


_REPAIRS = {
    "C06-bargraph-set-segment-attributes-no-invalidate": _repair_bargraph_segment_attributes,
    "C06-parent-cached-over-uncached-child-canvas": _repair_store_checks_the_canvas_used,
    "C06-edit-focus-shift-cached-at-text-level": _repair_edit_text_level,
    "C06-columns-hidden-pack-column-not-a-dependency": _repair_columns_hidden_pack,
    "C06-scrollable-render-moves-position": _repair_scrollable_adjust,
    "C06-scrollbar-thumb-depends-on-undisplayed-content": _repair_scrollbar_nocache,
}


def _holds_with(case, repairs):
    global _CTX
    saved_ctx, _CTX = _CTX, None
    undo = [_REPAIRS[r]() for r in repairs]
    try:
        check_hist(case)
        return True
    except Discard:
        return True  # no violation before the history turned out to be mis-built
    except Exception:  # noqa: BLE001
        return False
    finally:
        for u in reversed(undo):
            u()
        _CTX = saved_ctx


_ATTR_MEMO: dict = {}


def _attribute(case):
    """Which recorded finding explains this failing case?  None if the case still fails with every repair
    simulated.  Otherwise the first finding (in _REPAIRS order, bluntest repair last) whose repair alone makes
    the case hold; if no single repair does, the first one that is necessary; else the first."""
    key = jhash(case)
    if key in _ATTR_MEMO:
        return _ATTR_MEMO[key]
    ids = list(_REPAIRS)
    fid = None
    if _holds_with(case, ids):
        fid = next((i for i in ids if _holds_with(case, [i])), None)
        if fid is None:
            fid = next((i for i in ids if not _holds_with(case, [j for j in ids if j != i])), ids[0])
    if len(_ATTR_MEMO) > 2000:
        _ATTR_MEMO.clear()
    _ATTR_MEMO[key] = fid
    return fid


def _caused_by(fid, case):
    return _attribute(case) == fid


_DIFF = ("content-differs", "cursor-differs")

def _has_uncached_widget(case):
    """the tree can contain a widget whose rendering is not cached: in the spec, planted, or inserted by a mutator
    (new_spec(k >= 40)); any change below the uncached child canvas then goes unnoticed, not only the probe's own"""
    if any(s["cls"] == "NCDeco" or s["cls"] == "Probe" and s["cache"] != "cached" for s in _walk(case["spec"])):
        return True
    if any(k >= 40 for _n, k in case.get("plant", [])):
        return True
    return any(o[0].lstrip("~") in ("mut", "again", "lb", "list") and max(o[-2:]) >= 40 for o in case["ops"])


KNOWN = {
    # BarGraph.set_segment_attributes() (public: new attributes / fill characters / hline and smoothing attributes of
    # an existing graph) stores them and returns without _invalidate(): canvases cached before keep the old ones
    "C06-bargraph-set-segment-attributes-no-invalidate": lambda sub, case, v: sub == "hist"
    and v.clause in _DIFF
    and any(o[0].lstrip("~") in ("mut", "again") for o in case["ops"])
    and _caused_by("C06-bargraph-set-segment-attributes-no-invalidate", case),
    # CanvasCache.store() caches a parent canvas when each child WIDGET has some canvas in the cache; the child canvas
    # actually used may be an uncached one (it shows a no_cache / uncacheable descendant that the cached one, rendered
    # at another size or scroll position, does not show): the parent is then invalidated by nothing below that child
    "C06-parent-cached-over-uncached-child-canvas": lambda sub, case, v: sub == "hist"
    and v.clause in _DIFF
    and _has_uncached_widget(case)
    and _caused_by("C06-parent-cached-over-uncached-child-canvas", case),
    # (C06-listbox-valign-no-invalidate was fixed in /repo by 6fefaa1; replays/C06/fixed_listbox_valign_no_invalidate.json)
    # Edit.render() calls Text.render() through Text's cache wrapper, whose key ignores focus (Text.ignore_focus);
    # the Edit's layout does depend on focus (view shifted to the cursor), so the Text-level entry written by a
    # focus=True render is reused by the next focus=False render at that width (and vice versa)
    "C06-edit-focus-shift-cached-at-text-level": lambda sub, case, v: sub == "hist"
    and v.clause in _DIFF
    and _caused_by("C06-edit-focus-shift-cached-at-text-level", case),
    # Columns.render() hides columns that do not fit; whether a 'pack' column fits depends on that widget's own
    # content, but a hidden widget is not rendered and so is not among the canvas's dependencies: changing it
    # (set_text ...) does not invalidate the Columns canvas
    "C06-columns-hidden-pack-column-not-a-dependency": lambda sub, case, v: sub == "hist"
    and v.clause in _DIFF
    and _caused_by("C06-columns-hidden-pack-column-not-a-dependency", case),
    # Scrollable.render() clamps/moves self._trim_top for the size at hand (a state change made while rendering)
    # without invalidating: canvases cached earlier for other sizes keep showing the old position
    "C06-scrollable-render-moves-position": lambda sub, case, v: sub == "hist"
    and v.clause in _DIFF
    and _caused_by("C06-scrollable-render-moves-position", case),
    # ScrollBar draws its thumb from the wrapped widget's total row count and position (rows_max / get_scrollpos),
    # which depend on content that is not displayed (ListBox items outside the window); only displayed widgets are
    # dependencies of its canvas, so a change to an undisplayed item leaves the cached bar in place
    "C06-scrollbar-thumb-depends-on-undisplayed-content": lambda sub, case, v: sub == "hist"
    and v.clause in _DIFF
    and _caused_by("C06-scrollbar-thumb-depends-on-undisplayed-content", case),
}
