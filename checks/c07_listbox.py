"""C07 -- ListBox always shows a gap-free window of its items containing the focus.

Model-based / stateful check driven by an op list (see DESIGN.md C07).  The case is a JSON
description of the initial list, walker kind, box size and a list of operations; ``check_ops``
rebuilds everything, applies the operations one by one and after every operation renders the
ListBox and compares the canvas (as a cell grid) with the vertical concatenation ``R`` of the
items' own renders.

Oracle (no more than the property statement; every clause is existential over the window
position ``k`` when rows of ``R`` are not unique, which is the weaker reading):

  window         canvas rows == R[k:k+n] + (rows-n) blank rows for some k, and
                 n < rows  =>  k == 0 and k+n == len(R)
  focus-visible  focus item has >= 1 row  =>  one of its rows lies in [k, k+n)
  cursor         focus=True and the (selectable) focus item reports a cursor through
                 get_cursor_coords  =>  canvas.cursor == that cursor translated by the focus
                 item's offset in the window, and it lies inside the window
  mouse-focus    button-1 press (event "mouse press", alone or with the modifier prefixes the display
                 modules add: "ctrl mouse press", "shift meta mouse press", ...) on a cell whose row
                 belongs (under every window candidate of the render immediately before) to a selectable
                 item  =>  focus_position is that item right after mouse_event returns

Items are leaves, Piles and Columns rows (cells of unequal height, padded below by the canvas layer).  When
a call into the ListBox raises, the case is discarded only if some item is unsound when drawn from scratch
(canvas cache by-passed); an item that only fails through canvases kept from earlier renders of the same
history is the property's business ("any history ... never raises").

Insertions, deletions and replacements are performed through every spelling of the walker's list API
(and splices / in-place reorders, which are several of them reported at once); release and drag
events take part in the histories with no clause of their own.

Anything else (which row is aligned where, which item a key selects, return values) is not
asserted: the statement is silent.
"""
from __future__ import annotations

import traceback
import warnings

from hypothesis import strategies as st

import urwid
from vlib import cells as C
from vlib.runner import Discard, Violation
from vlib.widths import use_encoding

PROPERTY = "C07"
LEVEL = "exploration"
RULE = (
    "Hypothesis op lists (quick <=30, thorough <=80 ops) over a ListBox of 0..12 flow items (Text of 1..many "
    "rows in wrap space/any/clip, Edit single/multi-line with the cursor anywhere, Button, SelectableIcon, "
    "Divider, empty Pile (0 rows), Pile of leaves, Columns row of 1..3 cells (given width 1..12 or weight 1..3, "
    "dividechars 0..2, each cell a leaf or a Pile of leaves, bare or AttrMap-wrapped: cells of unequal height "
    "that grow and shrink with the width and with editing keys); bare or wrapped in AttrMap so rows carry an "
    "item tag) on "
    "SimpleListWalker, SimpleFocusListWalker or a custom dict-backed ListWalker with string positions; ops: "
    "keys (up/down/page up/page down/home/end/left/right/enter/backspace/characters), mouse events on any "
    "cell of the last rendered size - press of button 1/2/3/4/5 under every event name the display modules "
    "build for it (plain or prefixed with any combination of 'shift '/'meta '/'ctrl ': all of them are "
    "button presses for the mouse-focus clause), and release (button 0 or n) / drag events, plain or "
    "prefixed; set_focus in its spellings ListBox.set_focus(pos, coming_from), ListBox.focus_position = pos, "
    "body.set_focus(pos); set_focus_valign(top/middle/bottom/VAlign/('relative',0..100)), resize "
    "(1..20,1..10), focus flag True/False; walker insert/delete/replace/clear, each through every spelling "
    "the list API of MonitoredList/MonitoredFocusList offers for it (insert, append, extend, +=, w[i:i]=[x], "
    "negative index, SimpleListWalker.contents; del w[i], pop(i), pop(), remove(x), del w[i:i+1], negative "
    "index; w[i]=x, w[i:i+1]=[x], negative index; del w[:], clear(), w[:]=[], w*=0), splice w[i:j]=[0..3 new "
    "items] and in-place reorder (reverse(), sort(key)); the custom walker performs the same edits through "
    "its own methods.  A minority of ops is not followed by a render so that pending focus/valign requests "
    "meet later ops.  Non-trivial: the history contains a certain scroll (window start k changed between two "
    "checked renders) and a walker edit or a resize.  Distinct = distinct case hash."
)
ASSUMPTIONS = [
    "the items' own render((cols,), focus) / rows / get_cursor_coords are the reference for what a row of "
    "the list looks like (item widgets themselves are C01/C09/C10's subject); a case in which an item fails "
    "on its own at the current width is discarded, where 'on its own' means drawn from scratch with the canvas "
    "cache by-passed (CanvasCache.fetch/store replaced by no-ops for the duration of that question only): an "
    "item that is sound from scratch but makes ListBox.render raise after some history of renders is reported",
    "vlib.cells.grid_of (width oracle) is the view of a canvas; blank = space cell with attribute None",
    "the custom walker follows the documented ListWalker protocol (focus attribute, __getitem__, "
    "next_position/prev_position raising IndexError at the ends, set_focus, positions, emits 'modified')",
    "wrap_around walkers are not generated (outside the quantifier)",
    "the caller keeps recent canvases alive (as a Screen keeps the last one drawn), so renders may be served "
    "by CanvasCache; every generated walker edit is one that the walker is required to report with its "
    "'modified' signal (list-API mutators of the Simple*ListWalker classes, ListWalker.set_focus); assigning "
    "SimpleFocusListWalker.focus directly, which bypasses the signal, is not generated",
    "mouse event names are those urwid's own input decoders produce (escape.py: modifiers in the order shift, "
    "meta, ctrl, then 'mouse press|release|drag'); an event is a button press iff its name ends in 'mouse press'",
]

_CTX = None  # set by shard(): lets check_ops report run-time classes / non-triviality

ALPHA = "abcdefghijklmnopqrstuvwxyzABCDEFGHIJKLMNOPQRSTUVWXYZ0123456789"


# ---------------------------------------------------------------------------------------------
# custom walker: string positions backed by a dict


class DictWalker(urwid.ListWalker):
    """Positions are strings; relies on ListWalker's default get_focus/get_next/get_prev."""

    def __init__(self, pairs):
        self.order = [k for k, _ in pairs]
        self.d = dict(pairs)
        self.focus = self.order[0] if self.order else None

    def __getitem__(self, pos):
        return self.d[pos]

    def next_position(self, pos):
        i = self.order.index(pos) if pos in self.d else None
        if i is None or i + 1 >= len(self.order):
            raise IndexError(pos)
        return self.order[i + 1]

    def prev_position(self, pos):
        i = self.order.index(pos) if pos in self.d else None
        if i is None or i == 0:
            raise IndexError(pos)
        return self.order[i - 1]

    def set_focus(self, pos):
        if pos not in self.d:
            raise KeyError(pos)
        self.focus = pos
        self._modified()

    def positions(self, reverse=False):
        return list(reversed(self.order)) if reverse else list(self.order)

    # editing API used by the harness (a walker owns its own focus policy: focus stays on the same
    # item; when the focus item is deleted it moves to the following item, else the last one)
    def w_insert(self, i, key, w):
        self.order.insert(i, key)
        self.d[key] = w
        if self.focus is None:
            self.focus = key
        self._modified()

    def w_delete(self, i):
        key = self.order.pop(i)
        del self.d[key]
        if self.focus == key:
            if not self.order:
                self.focus = None
            else:
                self.focus = self.order[min(i, len(self.order) - 1)]
        self._modified()

    def w_replace(self, i, w):
        self.d[self.order[i]] = w
        self._modified()

    def w_clear(self):
        self.order = []
        self.d = {}
        self.focus = None
        self._modified()


_WALKER_METHODS = {"__getitem__", "next_position", "prev_position", "set_focus"}


# ---------------------------------------------------------------------------------------------
# building items from specs


def _line(uid, j, length, spaced):
    start = (uid * 7 + j * 3) % len(ALPHA)
    s = "".join(ALPHA[(start + t) % len(ALPHA)] for t in range(length))
    if spaced:
        s = "".join(" " if (t % 5 == 4) else ch for t, ch in enumerate(s))
    return s


def build_leaf(spec, uid):
    kind = spec[0]
    if kind == "text":
        _, lens, wrap = spec
        markup = []
        for j, ln in enumerate(lens):
            if j:
                markup.append("\n")
            if ln:
                markup.append((f"t{uid}.{j}", _line(uid, j, ln, wrap == "space")))
        if not markup:
            markup = ""
        return urwid.Text(markup, wrap=wrap)
    if kind == "edit":
        _, cap, lens, posfrac, wrap = spec
        text = "\n".join(_line(uid, j + 1, ln, wrap == "space") for j, ln in enumerate(lens))
        caption = (f"c{uid}", _line(uid, 0, cap, False) + ":") if cap else ""
        e = urwid.Edit(caption, text, multiline=len(lens) > 1, wrap=wrap)
        e.set_edit_pos(posfrac % (len(text) + 1))
        return e
    if kind == "button":
        return urwid.Button(_line(uid, 0, spec[1], False))
    if kind == "icon":
        _, ln, cpos = spec
        return urwid.SelectableIcon(_line(uid, 0, ln, False), cpos % (ln + 1))
    if kind == "div":
        _, ch, top, bottom = spec
        return urwid.Divider(ALPHA[(uid + ch) % len(ALPHA)] if ch else " ", top, bottom)
    raise AssertionError(spec)


def _build_pile(inner, base):
    _, subs, pf = inner
    kids = [build_leaf(s, base + 1 + n) for n, s in enumerate(subs)]
    w = urwid.Pile(kids)
    sel = [n for n, k in enumerate(kids) if k.selectable()]
    if sel:
        w.focus_position = sel[pf % len(sel)]
    return w


def build_item(spec, uid):
    """spec = [wrapped(0/1), leaf-spec] | [wrapped, ["pile", [leaf-spec...], focus]]
    | [wrapped, ["cols", [[sizing, amount, wrapped, leaf-spec | pile-spec] x 1..3], dividechars, focus]]

    "cols" is a Columns row of flow widgets (the other flow container urwid ships): its height is that of
    its tallest cell, the shorter cells are padded below by the canvas layer (CanvasJoin)."""
    wrapped, inner = spec
    if inner[0] == "pile":
        w = _build_pile(inner, uid * 16)
    elif inner[0] == "cols":
        _, cells, div, cf = inner
        contents = []
        for n, (sizing, amount, kwrapped, sub) in enumerate(cells):
            base = uid * 16 + 8 + n
            k = _build_pile(sub, base * 16) if sub[0] == "pile" else build_leaf(sub, base)
            if kwrapped:
                k = urwid.AttrMap(k, {None: f"j{uid}.{n}"})
            contents.append((amount, k) if sizing == "given" else ("weight", amount, k))
        w = urwid.Columns(contents, dividechars=div)
        sel = [n for n, (k, _o) in enumerate(w.contents) if k.selectable()]
        if sel:
            w.focus_position = sel[cf % len(sel)]
    else:
        w = build_leaf(inner, uid * 16)
    if wrapped:
        w = urwid.AttrMap(w, {None: f"i{uid}"})
    return w


# ---------------------------------------------------------------------------------------------
# the harness state


_PATCHED = {}


_REPAIRS = {
    # C07-page-down-off-top: every candidate that the page scroll moves completely above the top
    # edge is dropped (the code drops only the old focus widget, t[0])
    # C07-page-fallback-zero-rows: the last-resort "fell short" branch skips 0-row widgets
    "_keypress_page_down": [
        (
            "    row_offset, _w, _p, rows = t[0]\n"
            "    if row_offset + rows <= 0:\n"
            "        del t[0]\n"
            "        snap_region_start -= 1\n",
            "    while t and t[0][0] + t[0][3] <= 0:\n"
            "        del t[0]\n"
            "        snap_region_start -= 1\n",
        ),
        (
            "    widget, pos = self._body.get_next(pos)\n"
            "    if widget is None:\n"
            "        # no dice, we're stuck here\n",
            "    widget, pos = self._body.get_next(pos)\n"
            "    while widget is not None and not widget.rows((maxcol,), True):\n"
            "        widget, pos = self._body.get_next(pos)\n"
            "    if widget is None:\n"
            "        # no dice, we're stuck here\n",
        ),
    ],
    "_keypress_page_up": [
        (
            "    widget, pos = self._body.get_prev(pos)\n"
            "    if widget is None:\n"
            "        # no dice, we're stuck here\n",
            "    widget, pos = self._body.get_prev(pos)\n"
            "    while widget is not None and not widget.rows((maxcol,), True):\n"
            "        widget, pos = self._body.get_prev(pos)\n"
            "    if widget is None:\n"
            "        # no dice, we're stuck here\n",
        ),
    ],
}


def _patched(name):
    """ListBox.<name> with the proposed repairs applied to its source text (each replacement must
    match exactly once, otherwise it is left out).  None if nothing could be applied."""
    if name not in _PATCHED:
        import inspect
        import textwrap

        import urwid.widget.listbox as lbmod

        fn = None
        try:
            src = textwrap.dedent(inspect.getsource(getattr(urwid.ListBox, name)))
            applied = 0
            for old, new in _REPAIRS[name]:
                if src.count(old) == 1:
                    src = src.replace(old, new)
                    applied += 1
            if applied:
                ns = {}
                exec(compile(src, f"<c07-repaired{name}>", "exec"), dict(vars(lbmod)), ns)  # noqa: S102
                fn = ns[name]
        except (OSError, TypeError, SyntaxError):
            fn = None
        _PATCHED[name] = fn
    return _PATCHED[name]


class _RepairedListBox(urwid.ListBox):
    """Used only inside KNOWN predicates: simulates the proposed repairs of the recorded findings so
    that a predicate can test the root cause ("the case holds once X is repaired").  Never used by
    the campaign itself."""

    # C07-zero-row-focus-bottom: a 0-row focus item aligned to the bottom edge -> offset == maxrow
    def shift_focus(self, size, offset_inset):
        if offset_inset == size[1] and size[1] > 0:
            w, _ = self._body.get_focus()
            if w is not None and w.rows((size[0],), True) == 0:
                offset_inset = size[1] - 1
        super().shift_focus(size, offset_inset)

    # C07-valign-no-invalidate
    def set_focus_valign(self, valign):
        super().set_focus_valign(valign)
        self._invalidate()

    # C07-page-down-off-top, C07-page-fallback-zero-rows: see _REPAIRS
    def _keypress_page_down(self, size):
        fn = _patched("_keypress_page_down")
        if fn is None:
            return super()._keypress_page_down(size)
        return fn(self, size)

    def _keypress_page_up(self, size):
        fn = _patched("_keypress_page_up")
        if fn is None:
            return super()._keypress_page_up(size)
        return fn(self, size)

    # C07-pending-focus-stale-position: the old focus position remembered by set_focus() was removed
    # from the walker before the change was completed
    def _set_focus_complete(self, size, focus):
        p = self.set_focus_pending
        if isinstance(p, tuple) and self.set_focus_valign_pending is None:
            coming_from, old_w, old_pos = p
            try:
                still = self._body[old_pos] is old_w
            except (IndexError, KeyError, TypeError):
                still = False
            if not still:
                self.set_focus_pending = None
                self._invalidate()
                w, _pos = self._body.get_focus()
                if w is None:
                    return None
                rows = w.rows((size[0],), focus)
                if coming_from == "below":
                    offset = 0
                elif coming_from == "above":
                    offset = size[1] - rows
                else:
                    offset = (size[1] - rows) // 2
                if offset < 0:
                    offset = 0
                self.shift_focus(size, offset)
                return None
        return super()._set_focus_complete(size, focus)


class _no_canvas_cache:
    """Context: every render inside is computed afresh and leaves nothing behind in CanvasCache."""

    def __enter__(self):
        cc = urwid.CanvasCache
        self.saved = (cc.__dict__["fetch"], cc.__dict__["store"])
        cc.fetch = classmethod(lambda cls, widget, wcls, size, focus: None)
        cc.store = classmethod(lambda cls, wcls, canvas: None)

    def __exit__(self, *exc):
        cc = urwid.CanvasCache
        cc.fetch, cc.store = self.saved
        return False


class Harness:
    def __init__(self, case, tweaks=()):
        self.tweaks = tweaks
        self.kind = case["walker"]
        self.uid = 0
        widgets = [self.new_item(s) for s in case["items"]]
        if self.kind == "slw":
            self.walker = urwid.SimpleListWalker(widgets)
        elif self.kind == "sflw":
            self.walker = urwid.SimpleFocusListWalker(widgets)
        elif self.kind == "dict":
            self.walker = DictWalker([(f"k{n}", w) for n, w in enumerate(widgets)])
            self.nkey = len(widgets)
        else:
            raise AssertionError(self.kind)
        self.lb = (_RepairedListBox if "repaired" in tweaks else urwid.ListBox)(self.walker)
        self.size = (case["size"][0], case["size"][1])
        self.focus = bool(case["focus"])
        self.last = None  # info about the last checked render, valid only until the next state change
        self.last_size = None
        self.grids = {}
        # run-time facts for classes / NT
        self.scrolled = False
        self.edited = False
        self.resized = False
        self.prev_ks = None
        self.facts = set()

    def new_item(self, spec):
        self.uid += 1
        w = build_item(spec, self.uid)
        w.c07_uid = self.uid  # creation number, used only as a sort key by the "reorder" op
        return w

    # contents / positions -------------------------------------------------------------------
    def widgets(self):
        if self.kind == "dict":
            return [self.walker.d[k] for k in self.walker.order]
        return list(self.walker)

    def positions(self):
        if self.kind == "dict":
            return list(self.walker.order)
        return list(range(len(self.walker)))

    # items on their own ---------------------------------------------------------------------
    def items_ok(self):
        """False if some item fails on its own at the current width (not ListBox's doing).

        "On its own" = drawn from scratch: the canvas cache is by-passed while the items are asked, so that
        the answer does not depend on the history.  An item that is sound when drawn from scratch but breaks
        the ListBox after a particular history (canvases kept from earlier renders) is a matter of the
        property ("any history ... never raises"), not a mis-built case."""
        with _no_canvas_cache():
            return self._items_ok()

    def _items_ok(self):
        cols = self.size[0]
        for w in self.widgets():
            try:
                for f in (False, True):
                    c = w.render((cols,), f)
                    if c.rows() != w.rows((cols,), f) or c.cols() != cols:
                        return False
                    C.grid_of(c, "utf8")
                if w.selectable() and hasattr(w, "get_cursor_coords"):
                    cur = w.get_cursor_coords((cols,))
                    if cur is not None and cur != w.render((cols,), True).cursor:
                        return False
            except Exception:  # noqa: BLE001
                return False
        return True

    def guarded(self, fn):
        """Run one call into the ListBox; an exception is urwid's unless an item fails on its own."""
        try:
            return fn()
        except Violation:
            raise
        except Exception as e:
            if not self.items_ok():
                raise Discard() from None
            # the custom walker answers an invalid position with KeyError/IndexError as documented; when
            # the caller is urwid the fault is urwid's (the runner would otherwise see a /verif frame)
            tb = traceback.extract_tb(e.__traceback__)
            if tb and tb[-1].filename == __file__ and tb[-1].name in _WALKER_METHODS:
                for fr in reversed(tb[:-1]):
                    fn = fr.filename.replace("\\", "/")
                    if "/urwid/" in fn:
                        where = fn.split("/urwid/", 1)[1] + ":" + fr.name
                        raise Violation(
                            f"exception:{type(e).__name__}@{where}",
                            f"{type(e).__name__}: {e} (raised by the custom walker for an invalid position)",
                        ) from e
                    if "/verif/" in fn:
                        break
            raise

    def grid(self, canvas):
        key = id(canvas)
        hit = self.grids.get(key)
        if hit is not None and hit[0] is canvas:
            return hit[1]
        g = C.normalize(C.grid_of(canvas, "utf8"))
        g = [tuple(r) for r in g]
        if len(self.grids) > 400:
            self.grids.clear()
        self.grids[key] = (canvas, g)
        return g

    # the oracle -----------------------------------------------------------------------------
    def check_render(self, what):
        cols, rows = self.size
        lb = self.lb
        canvas = self.guarded(lambda: lb.render(self.size, self.focus))
        self.last_size = self.size
        if canvas.cols() != cols or canvas.rows() != rows:
            raise Violation("window", f"after {what}: canvas is {canvas.cols()}x{canvas.rows()}, size {self.size}")
        G = self.guarded(lambda: self.grid(canvas))
        widgets = self.widgets()
        fw = lb.focus
        if (fw is None) != (not widgets):
            raise Violation("focus-visible", f"after {what}: focus widget {fw!r} with {len(widgets)} items")
        fidx = None
        for n, w in enumerate(widgets):
            if w is fw:
                fidx = n
        if widgets and fidx is None:
            raise Violation("focus-visible", f"after {what}: focus widget {fw!r} is not an item of the walker")
        # R: concatenation of the items' own renders
        R = []
        spans = []
        try:
            for n, w in enumerate(widgets):
                c = w.render((cols,), focus=(self.focus and n == fidx))
                g = self.grid(c)
                spans.append((len(R), len(R) + len(g)))
                R.extend(g)
                if len(g) > rows:
                    self.facts.add("item-taller-than-box")
        except Exception:  # noqa: BLE001 an item that cannot render on its own: not a ListBox matter
            raise Discard() from None
        blank = tuple([(b" ", None, None)] * cols)
        nblank_tail = 0
        while nblank_tail < rows and G[rows - 1 - nblank_tail] == blank:
            nblank_tail += 1
        cands = []
        for n in range(rows, rows - nblank_tail - 1, -1):
            top = list(G[:n])
            for k in range(0, len(R) - n + 1):
                if n < rows and not (k == 0 and k + n == len(R)):
                    continue
                if R[k : k + n] == top:
                    cands.append((k, n))
        if not cands:
            raise Violation(
                "window",
                f"after {what}: size {self.size} focus={self.focus}: canvas rows {self._txt(G)} are not a window "
                f"R[k:k+n]+blanks of the items' rows {self._txt(R)} (item spans {spans}, focus item {fidx})",
            )
        # focus item visible
        if fidx is not None and spans[fidx][1] > spans[fidx][0]:
            fs, fe = spans[fidx]
            keep = [(k, n) for k, n in cands if fs < k + n and fe > k]
            if not keep:
                raise Violation(
                    "focus-visible",
                    f"after {what}: size {self.size}: focus item {fidx} occupies rows {fs}..{fe - 1} of the list, "
                    f"window candidates (k,n)={cands}: no focus row visible; canvas {self._txt(G)}",
                )
            cands = keep
            # cursor
            if self.focus and fw.selectable() and hasattr(fw, "get_cursor_coords"):
                try:
                    cur = fw.get_cursor_coords((cols,))
                except Exception:  # noqa: BLE001
                    raise Discard() from None
                if cur is not None:
                    self.facts.add("cursor-checked")
                    x, y = cur
                    keep = [(k, n) for k, n in cands if 0 <= fs + y - k < n and canvas.cursor == (x, fs + y - k)]
                    if not keep:
                        raise Violation(
                            "cursor",
                            f"after {what}: size {self.size}: focus item {fidx} (list rows {fs}..{fe - 1}) reports "
                            f"cursor {cur}; window candidates {cands}; canvas cursor {canvas.cursor!r}",
                        )
                    cands = keep
        elif fidx is not None:
            self.facts.add("focus-item-0-rows")
        if any(n < rows for _, n in cands):
            self.facts.add("blank-below")
        ks = {k for k, _ in cands}
        if self.prev_ks is not None and R and not (ks & self.prev_ks):
            self.scrolled = True
        self.prev_ks = ks
        self.last = {"cands": cands, "spans": spans, "widgets": widgets}

    @staticmethod
    def _txt(grid):
        return [b"".join(c[0] for c in row if c[1] != "<cont>").decode("ascii", "replace") for row in grid]

    # operations -----------------------------------------------------------------------------
    def apply(self, op):
        """Returns False if the op was not applicable (skipped)."""
        kind = op[0].lstrip("~")
        lb = self.lb
        last, self.last = self.last, None
        if kind == "key":
            self.guarded(lambda: lb.keypress(self.size, op[1]))
            return True
        if kind == "mouse":
            if self.last_size is None:
                return False
            cols, rows = self.last_size
            _, button, x, y, *rest = op
            # the event name as the display modules report it: "mouse press|release|drag" with the held
            # modifier keys as a prefix ("shift ", "meta ", "ctrl ", in this order); absent = plain press
            event = rest[0] if rest else "mouse press"
            is_press = event.endswith("mouse press")
            x %= cols
            y %= rows
            expect = None
            if is_press and button == 1 and last is not None and self.last_size == self.size:
                hit = set()
                for k, n in last["cands"]:
                    if y >= n:
                        hit.add(None)
                        continue
                    r = k + y
                    for idx, (s, e) in enumerate(last["spans"]):
                        if s <= r < e:
                            hit.add(idx)
                if hit and None not in hit and all(last["widgets"][i].selectable() for i in hit):
                    expect = hit
            self.guarded(lambda: lb.mouse_event(self.last_size, event, button, x, y, self.focus))
            self.facts.add("mouse:" + ("modified " if not event.startswith("mouse") else "") + event.split()[-1])
            if expect is not None:
                self.facts.add("mouse-clause-checked")
                if event != "mouse press":
                    self.facts.add("mouse-clause-checked:modified-press")
                fw = lb.focus
                if not any(last["widgets"][i] is fw for i in expect):
                    widgets = self.widgets()
                    now = [n for n, w in enumerate(widgets) if w is fw]
                    raise Violation(
                        "mouse-focus",
                        f"button-1 {event!r} at {(x, y)} size {self.last_size} focus={self.focus} on selectable item(s) "
                        f"{sorted(expect)} (window candidates {last['cands']}, spans {last['spans']}): focus is "
                        f"item {now} position {lb.focus_position!r}",
                    )
            return True
        if kind == "set_focus":
            pos = self.positions()
            if not pos:
                return False
            _, i, coming, *rest = op
            p = pos[i % len(pos)]
            # (assigning SimpleFocusListWalker.focus directly is NOT generated: it moves the walker's focus
            # without the 'modified' report that the walker protocol requires of set_focus)
            sp = rest[0] % 3 if rest else 0
            if sp == 1 and coming is None:
                # the container-protocol spelling of set_focus(position)
                self.facts.add("spelling:focus_position=")
                self.guarded(lambda: setattr(lb, "focus_position", p))
            elif sp == 2:
                # the walker protocol used directly (the walker reports 'modified')
                self.facts.add("spelling:body.set_focus")
                self.guarded(lambda: lb.body.set_focus(p))
            else:
                self.guarded(lambda: lb.set_focus(p, coming))
            return True
        if kind == "valign":
            v = op[1]
            if isinstance(v, list):
                v = ("relative", v[1])
            elif v.startswith("enum:"):
                v = urwid.VAlign(v[5:])
            self.guarded(lambda: lb.set_focus_valign(v))
            return True
        if kind == "resize":
            self.size = (op[1], op[2])
            self.resized = True
            return True
        if kind == "focusflag":
            self.focus = bool(op[1])
            return True
        # walker edits.  The optional last element of the op selects the spelling: the list walkers are
        # MonitoredList / MonitoredFocusList, every mutator of the list API is a supported way to insert,
        # delete or replace items (absent / 0 = insert(), del w[i], w[i] = x, del w[:]).
        n = len(self.positions())
        wk = self.walker
        islist = self.kind != "dict"

        def spell(name, fn):
            self.facts.add("spelling:" + name)
            self.guarded(fn)

        if kind == "insert":
            w = self.new_item(op[2])
            i = op[1] % (n + 1)
            sp = (op[3] if len(op) > 3 else 0) % 7
            if not islist:
                self.nkey += 1
                wk.w_insert(i, f"k{self.nkey}", w)
            elif sp == 1:
                spell("w[i:i]=[x]", lambda: wk.__setitem__(slice(i, i), [w]))
            elif sp == 2 and i == n:
                spell("append", lambda: wk.append(w))
            elif sp == 3 and i == n:
                spell("extend", lambda: wk.extend([w]))
            elif sp == 4 and i == n:
                spell("+=", lambda: wk.__iadd__([w]))
            elif sp == 5 and self.kind == "slw":
                # SimpleListWalker.contents: "compatibility with old SimpleListWalker class" (returns self)
                spell("contents.insert", lambda: wk.contents.insert(i, w))
            elif sp == 6 and i < n:
                spell("insert(negative)", lambda: wk.insert(i - n, w))
            else:
                self.guarded(lambda: wk.insert(i, w))
        elif kind == "delete":
            if not n:
                return False
            i = op[1] % n
            sp = (op[2] if len(op) > 2 else 0) % 6
            if not islist:
                wk.w_delete(i)
            elif sp == 1:
                spell("pop(i)", lambda: wk.pop(i))
            elif sp == 2:
                spell("remove", lambda: wk.remove(wk[i]))
            elif sp == 3:
                spell("del w[i:i+1]", lambda: wk.__delitem__(slice(i, i + 1)))
            elif sp == 4 and i == n - 1:
                spell("pop()", lambda: wk.pop())
            elif sp == 5:
                spell("del w[negative]", lambda: wk.__delitem__(i - n))
            else:
                self.guarded(lambda: wk.__delitem__(i))
        elif kind == "replace":
            if not n:
                return False
            w = self.new_item(op[2])
            i = op[1] % n
            sp = (op[3] if len(op) > 3 else 0) % 3
            if not islist:
                wk.w_replace(i, w)
            elif sp == 1:
                spell("w[i:i+1]=[x]", lambda: wk.__setitem__(slice(i, i + 1), [w]))
            elif sp == 2:
                spell("w[negative]=x", lambda: wk.__setitem__(i - n, w))
            else:
                self.guarded(lambda: wk.__setitem__(i, w))
        elif kind == "clear":
            sp = (op[1] if len(op) > 1 else 0) % 4
            if not islist:
                wk.w_clear()
            elif sp == 1:
                spell("clear()", lambda: wk.clear())
            elif sp == 2:
                spell("w[:]=[]", lambda: wk.__setitem__(slice(None), []))
            elif sp == 3:
                spell("*=0", lambda: wk.__imul__(0))
            else:
                self.guarded(lambda: wk.__delitem__(slice(None)))
        elif kind == "splice":
            # w[i:i+cnt] = [0..3 new items]: several deletions and insertions reported as one modification
            _, i, cnt, specs = op
            i %= n + 1
            cnt %= n - i + 1
            new = [self.new_item(sp_) for sp_ in specs]
            if not islist:
                for _n in range(cnt):
                    wk.w_delete(i)
                for off, w in enumerate(new):
                    self.nkey += 1
                    wk.w_insert(i + off, f"k{self.nkey}", w)
            elif not new and cnt:
                spell("del w[i:j]", lambda: wk.__delitem__(slice(i, i + cnt)))
            elif not cnt and i == n and len(new) > 1:
                spell("extend", lambda: wk.extend(new))
            else:
                spell("w[i:j]=[...]", lambda: wk.__setitem__(slice(i, i + cnt), new))
        elif kind == "reorder":
            # in-place reordering (list.reverse / list.sort are MonitoredList mutators): the same items
            # deleted and re-inserted elsewhere.  The sort key is a fixed scrambling of the creation number.
            if n < 2:
                return False

            def key(w):
                return (w.c07_uid * 37) % 23

            mode = op[1] % 3
            if not islist:
                if mode == 0:
                    wk.order.reverse()
                else:
                    wk.order.sort(key=lambda k: key(wk.d[k]), reverse=mode == 2)
                wk._modified()
            elif mode == 0:
                spell("reverse()", lambda: wk.reverse())
            else:
                spell("sort()", lambda: wk.sort(key=key, reverse=mode == 2))
        else:
            raise AssertionError(op)
        self.edited = True
        return True


def check_ops(case, tweaks=()):
    use_encoding("utf8")
    urwid.CanvasCache.clear()
    with warnings.catch_warnings(record=True) as wlog:
        warnings.simplefilter("always")
        h = Harness(case, tweaks)
        h.check_render("construction")
        kinds = set()
        for step, op in enumerate(case["ops"]):
            if not h.apply(op):
                continue
            kinds.add(op[0].lstrip("~") + (":" + str(op[1]) if op[0].lstrip("~") == "key" and len(op[1]) > 1 else ""))
            if not op[0].startswith("~"):
                h.check_render(f"op #{step} {op}")
        # always finish with a checked render in both focus states
        for f in (h.focus, not h.focus):
            h.focus = f
            h.last = None
            h.check_render(f"final render focus={f}")
    for w in wlog:
        if "sizing" in str(w.message).lower() and "not supported" in str(w.message).lower():
            raise Discard()
    ctx = _CTX
    if ctx is not None and ctx.failure is None and not tweaks:
        ctx.count("walker:" + case["walker"])
        for k in kinds:
            ctx.count("op:" + k)
        for f in h.facts:
            ctx.count(f)
        if h.scrolled:
            ctx.count("scrolled")
        if h.scrolled and (h.edited or h.resized):
            ctx.nontrivial(case)
            ctx.sample({"sub": "ops", "case": case})


SUBS = {"ops": check_ops}


# ---------------------------------------------------------------------------------------------
# strategies

_wrap = st.sampled_from(["space", "any", "clip"])
_lens = st.lists(st.integers(0, 24), min_size=1, max_size=7)

_leaf = st.one_of(
    st.tuples(st.just("text"), _lens, _wrap),
    st.tuples(st.just("text"), st.lists(st.integers(1, 9), min_size=1, max_size=12), st.just("clip")),
    st.tuples(st.just("edit"), st.integers(0, 6), st.lists(st.integers(0, 30), min_size=1, max_size=4),
              st.integers(0, 200), _wrap),
    st.tuples(st.just("edit"), st.integers(0, 3), st.lists(st.integers(0, 8), min_size=1, max_size=1),
              st.integers(0, 9), st.just("space")),
    st.tuples(st.just("button"), st.integers(0, 12)),
    st.tuples(st.just("icon"), st.integers(0, 12), st.integers(0, 12)),
    st.tuples(st.just("div"), st.integers(0, 5), st.integers(0, 2), st.integers(0, 2)),
).map(list)

_inner = st.one_of(
    _leaf,
    _leaf,
    _leaf,
    st.just(["pile", [], 0]),
    st.tuples(st.just("pile"), st.lists(_leaf, min_size=1, max_size=3), st.integers(0, 2)).map(list),
)
# a Columns row: 1..3 cells, each of a given width or a weight, holding a leaf or a Pile of leaves, bare or
# wrapped in AttrMap (a decorated widget renders a CompositeCanvas over its child's canvas)
_pile = st.tuples(st.just("pile"), st.lists(_leaf, min_size=1, max_size=3), st.integers(0, 2)).map(list)
_cell = st.one_of(
    st.tuples(st.just("given"), st.integers(1, 12), st.integers(0, 1), st.one_of(_leaf, _pile)),
    st.tuples(st.just("weight"), st.integers(1, 3), st.integers(0, 1), st.one_of(_leaf, _pile)),
).map(list)
_cols = st.tuples(st.just("cols"), st.lists(_cell, min_size=1, max_size=3), st.integers(0, 2), st.integers(0, 2)).map(
    list
)
_item = st.tuples(st.integers(0, 1), st.one_of(_inner, _cols)).map(list)

KEYS = ["up", "down", "page up", "page down", "home", "end"]
OTHER_KEYS = ["left", "right", "enter", "backspace", "delete", "a", "x", " ", "tab", "ctrl l", "f5"]
_key = st.one_of(st.sampled_from(KEYS), st.sampled_from(KEYS), st.sampled_from(OTHER_KEYS))
_valign = st.one_of(
    st.sampled_from(["top", "middle", "bottom", "enum:top", "enum:middle", "enum:bottom"]),
    st.tuples(st.just("relative"), st.integers(0, 100)).map(list),
)

# event names as urwid's display modules build them (escape.py read_mouse_info / read_sgrmouse_info):
# held modifiers as a prefix in the order shift, meta, ctrl, then "mouse press|release|drag"
MOUSE_PREFIXES = ["", "shift ", "meta ", "ctrl ", "shift meta ", "shift ctrl ", "meta ctrl ", "shift meta ctrl "]


def _mouse_press():
    return st.tuples(
        st.just("mouse"),
        st.sampled_from([1, 1, 1, 1, 4, 5, 4, 5, 3, 2]),
        st.integers(0, 19),
        st.integers(0, 9),
        st.one_of(st.just(""), st.sampled_from(MOUSE_PREFIXES)).map(lambda p: p + "mouse press"),
    )


def _mouse_other():
    return st.tuples(
        st.just("mouse"),
        st.sampled_from([0, 1, 1, 2, 3]),  # a release often carries no button number (0)
        st.integers(0, 19),
        st.integers(0, 9),
        st.tuples(st.sampled_from(MOUSE_PREFIXES), st.sampled_from(["release", "drag"])).map(
            lambda t: t[0] + "mouse " + t[1]
        ),
    ).filter(lambda t: t[1] != 0 or t[4].endswith("release"))


_sp = st.integers(0, 6)  # spelling selector, interpreted modulo the number of spellings of the op
_coming = st.sampled_from([None, "above", "below"])

# (weight, factory): one_of draws uniformly over *distinct* strategy objects, so every repetition is
# built afresh
_OP_WEIGHTS = [
    (6, lambda: st.tuples(st.just("key"), _key)),
    (4, _mouse_press),
    (1, _mouse_other),
    (2, lambda: st.tuples(st.just("set_focus"), st.integers(0, 12), _coming, st.integers(0, 2))),
    (2, lambda: st.tuples(st.just("valign"), _valign)),
    (2, lambda: st.tuples(st.just("resize"), st.integers(1, 20), st.integers(1, 10))),
    (2, lambda: st.tuples(st.just("focusflag"), st.integers(0, 1))),
    (2, lambda: st.tuples(st.just("insert"), st.integers(0, 12), _item, _sp)),
    (2, lambda: st.tuples(st.just("delete"), st.integers(0, 12), _sp)),
    (2, lambda: st.tuples(st.just("replace"), st.integers(0, 12), _item, _sp)),
    (2, lambda: st.tuples(st.just("clear"), _sp)),
    (1, lambda: st.tuples(st.just("splice"), st.integers(0, 12), st.integers(0, 4), st.lists(_item, max_size=3))),
    (1, lambda: st.tuples(st.just("reorder"), st.integers(0, 2))),
]
_op_plain = st.one_of(*[f() for wgt, f in _OP_WEIGHTS for _ in range(wgt)]).map(list)


def _mark(pair):
    op, norender = pair
    if norender:
        op = ["~" + op[0], *op[1:]]
    return op


_op = st.tuples(_op_plain, st.sampled_from([0, 0, 0, 0, 0, 1])).map(_mark)


def case_strategy(max_ops):
    return st.fixed_dictionaries(
        {
            "walker": st.sampled_from(["slw", "sflw", "dict"]),
            "items": st.lists(_item, min_size=0, max_size=12),
            "size": st.tuples(st.integers(1, 20), st.integers(1, 10)).map(list),
            "focus": st.integers(0, 1),
            # hypothesis' lists average ~6 elements; histories need depth, so two of three draws
            # are forced to be longer (shrinking still reaches the short form first)
            "ops": st.one_of(
                st.lists(_op, min_size=1, max_size=max_ops),
                st.lists(_op, min_size=max_ops // 3, max_size=max_ops),
                st.lists(_op, min_size=(2 * max_ops) // 3, max_size=max_ops),
            ),
        }
    )


def _classes(case):
    out = []
    kinds = {(it[1][0]) for it in case["items"]}
    for k in sorted(kinds):
        out.append("item:" + k)
    for it in case["items"]:
        if it[1][0] == "cols":
            out.append(f"cols:{len(it[1][1])}-cells")
            for cell in it[1][1]:
                out.append("cols-cell:" + cell[0] + ":" + cell[3][0] + (":wrapped" if cell[2] else ""))
    if any(it[1][0] == "pile" and not it[1][1] for it in case["items"]):
        out.append("item:empty-pile")
    if not case["items"]:
        out.append("empty-list")
    return out


def shard(ctx):
    global _CTX
    _CTX = ctx
    try:
        ctx.given(
            "ops",
            case_strategy(ctx.scale(30, 80)),
            ctx.scale(400, 8000),
            nontrivial=lambda case: False,
            classify=_classes,
        )
    finally:
        _CTX = None


# ---------------------------------------------------------------------------------------------
# known findings (active only if listed in known_findings.json / known_findings.d with status "known")



def _holds_repaired(case):
    """True if the case passes once the proposed repairs of all recorded findings are simulated
    (_RepairedListBox): a failure that survives them is a new one and is reported."""
    try:
        check_ops(case, ("repaired",))
    except Discard:
        return False
    except Violation:
        return False
    except Exception:  # noqa: BLE001
        return False
    return True


def _known_valign_no_invalidate(sub, case, v):
    # ListBox.set_focus_valign() does not call _invalidate(): the next render is served from the
    # canvas cache (old alignment) while mouse_event() already works with the new alignment.
    return (
        v.clause == "mouse-focus"
        and any(op[0].lstrip("~") == "valign" for op in case["ops"])
        and _holds_repaired(case)
    )


def _known_zero_row_bottom(sub, case, v):
    # a 0-row item (e.g. an empty Pile) is the focus and gets bottom alignment (set_focus_valign bottom /
    # high relative, the End key, set_focus(.., 'above')): rtop = maxrow - 0 is passed to shift_focus,
    # which raises ListBoxError("Invalid offset_inset: N, only N rows in list box")
    import re

    m = re.match(r"ListBoxError: Invalid offset_inset: (\d+), only (\d+) rows in list box", v.message)
    return (
        v.clause == "exception:ListBoxError@widget/listbox.py:shift_focus"
        and m is not None
        and m.group(1) == m.group(2)
        and _holds_repaired(case)
    )


def _known_pending_stale(sub, case, v):
    # set_focus() remembers (old widget, old position); when the walker is edited before the next
    # render/keypress completes the change, _set_focus_complete() calls body.set_focus(old position)
    # which no longer exists -> IndexError (list walkers) / KeyError (custom walker)
    return (
        (
            v.clause.startswith(("exception:IndexError@", "exception:KeyError@"))
            # SimpleFocusListWalker accepts any focus on an empty list: the failure is one line later
            or v.clause == "exception:TypeError@widget/listbox.py:_set_focus_complete"
        )
        and any(op[0] == "~set_focus" for op in case["ops"])
        and _holds_repaired(case)
    )


def _known_page_down_off_top(sub, case, v):
    # Page Down with an unselectable focus scrolls a whole page; a selectable item that was visible
    # below the focus ends up completely above the top edge (row_offset + rows <= 0) but stays in the
    # candidate list and is handed to change_focus with that offset -> ListBoxError
    import re

    m = re.match(r"ListBoxError: Invalid offset_inset: -(\d+), only (\d+) rows in target", v.message)
    return (
        v.clause == "exception:ListBoxError@widget/listbox.py:change_focus"
        and m is not None
        and int(m.group(1)) >= int(m.group(2))
        and any(op[0].lstrip("~") == "key" and op[1] == "page down" for op in case["ops"])
        and _holds_repaired(case)
    )


def _known_page_fallback_zero_rows(sub, case, v):
    # the last-resort branch of page up/down ("fell short, try to select anything else") takes the next
    # widget without skipping 0-row ones and asks change_focus for a cursor row inside it
    return (
        v.clause == "exception:ListBoxError@widget/listbox.py:change_focus"
        and v.message.startswith("ListBoxError: cursor_coords row outside valid range for target.")
        and v.message.rstrip().endswith("target_rows:0")
        and any(op[0].lstrip("~") == "key" and op[1] in ("page down", "page up") for op in case["ops"])
        and _holds_repaired(case)
    )


KNOWN = {
    "C07-page-fallback-zero-rows": _known_page_fallback_zero_rows,
    "C07-page-down-off-top": _known_page_down_off_top,
    # same root cause, the part that the repair of the first (selectable) candidate loop left: the
    # last-resort loop "choose the bottommost widget" still takes a widget lying wholly above the top edge
    "C07-page-down-off-top-last-resort": _known_page_down_off_top,
    "C07-pending-focus-stale-position": _known_pending_stale,
    "C07-zero-row-focus-bottom": _known_zero_row_bottom,
    "C07-valign-no-invalidate": _known_valign_no_invalidate,
}
