"""C08 — container focus is always a valid child and input follows the focus path.

Model-based (op-list) check.  A case is ``{"tree": spec, "mode": "B"|"F", "size": [cols, rows],
"ops": [...]}``.  ``spec`` is a JSON description of a nesting of Pile / Columns / GridFlow / Frame /
Overlay / ListBox whose leaves are *probes* (see :class:`Probe`).  The spec is realised
**type-directed by sizing mode** (``realize``): the parent and the item option decide whether a
child is built as a flow or a box widget, and a kind that does not exist in the required mode is
wrapped the documented way (a box widget inside a flow Pile gets a ``('given', n)`` item, a GridFlow
needed as a box widget is put into a box Pile as a ``'pack'`` item next to a weighted filler).  So
every tree obeys the containers' documented sizing rules by construction; a case during which a
container nevertheless emits one of its sizing warnings is discarded.

The harness keeps a *model tree* (which widget objects are the children of which container) and
applies every contents edit to the model as a plain Python list edit.  All oracles are computed from
that model plus the public attributes ``focus``, ``focus_position``, ``contents``, ``selectable()``,
``get_focus_path()``; nothing is taken from the containers' private state except the documented
"first selectable" deferral of a ListBox that was never rendered (see ``_lb_pending``).

Readings (the weaker one is used where two exist):
* "arrow keys move focus only onto selectable children" is asserted for Pile, Columns and GridFlow
  (their keypress code tests ``selectable()``).  It is NOT asserted for ListBox: a ListBox scrolls by
  moving its focus over unselectable rows (Widget.selectable documents that unselectable widgets can
  get the focus), so the statement cannot be meant for it.  "selectable" is the answer of the child's
  own ``selectable()`` at that moment (containers cache it; the property does not say when nested
  changes propagate).
* "contents mutations (insert, delete, slice assignment, clearing)" are read as the list API of the
  documented "list-like" ``contents`` objects / list walkers: every spelling Python accepts for a list
  (negative and out-of-range slice bounds, extended slices with positive or negative step, append, extend,
  ``+=``, remove, pop, reverse, ``*= 0``) is a legal edit.  After any of them only the stated clauses are
  asserted (valid focus position, focus is that child, empty => None / IndexError); the property does not
  say WHICH child receives the focus, so that is not compared with anything.
* "whose contents were just set" = right after ``c.contents[:] = items`` / ``c.contents = items``
  (not after every insert/delete).
* "an unhandled key comes back unchanged": the result is ``None`` or ``== key``; it must be ``== key``
  when no probe handled it and the key is not bound to a cursor-movement command (the only commands
  the six containers consume) - bound according to the harness's model of the command maps, see below.
* keys are only sent while the top widget is selectable (``MainLoop.process_input`` does the same).
* set_focus_path on a path that can no longer be walked must raise IndexError (docstring); nothing
  is asserted about what it changed before failing.  ``focus_position = bad`` must change nothing.
* mouse presses are part of the history only; no clause is asserted about where they move the focus or which
  widget a press reaches (which cell belongs to which child is hit-testing, C09's subject).  "button-1 presses at
  any cell" is taken literally, though: besides presses at random fractions of the canvas the campaign presses
  every single cell of small two-level nests (sweep 5), so that the cells on and next to every child's border occur.
* "navigation keys" are what the command map says they are.  ``Widget._command_map`` is documented as "a shared
  CommandMap instance. May be redefined in subclasses or widget instances", so a history may also edit the shared
  ``urwid.command_map`` (bind, unbind, clear_command, restore_defaults), give a container a map of its own
  (``CommandMap()``, ``some_map.copy()``, or a map another container already uses) and edit that, or edit a map that
  belongs to no widget of the tree.  The harness keeps a model of every map (a plain dict per map object, started
  from the defaults table in CommandMap's docstring, edited with the same edits) and reads a key's command from the
  model, never from urwid.  "An unhandled key comes back unchanged" then reads: the key must come back when no probe
  handled it and NO map consulted on the focus path (the maps of the containers on it; the shared map as well when a
  GridFlow is on it, whose display widgets are urwid's own) binds it to a cursor-movement command.  "Arrow keys" =
  keys bound to cursor up/down/left/right in one of those maps (and to page / max commands in none).  Nothing is
  asserted about a bound key having to move anything.
* "selectable and unselectable leaves": a leaf is whatever sits below the six container classes - a probe, a
  probe that also has the optional cursor methods (get_cursor_coords / move_cursor_to_coords / get_pref_col, as
  Edit has), or either of them inside the decoration widgets applications wrap leaves in (Padding, AttrMap,
  Filler around a flow widget, BoxAdapter around a box widget).  A decorated leaf is selectable exactly when the
  widget inside is; the containers see only the decoration.
* "input follows the focus path" / "only the focus path is rendered with focus" after ANY history: which probes
  are offered a key and which are drawn with focus=True is then a function of the tree as it is now (children,
  item options, focus positions, size), not of the calls made before.  Before every key the harness builds a
  *twin* - the same tree constructed afresh from the public state (contents, options, focus_position, container
  parameters) with probes of its own - draws it once at the same size and sends it the same key; the real tree
  and the twin must agree in the set of probes drawn with focus=True and in the set of probes offered the key.
  This is weaker than demanding that the focus leaf always receives the key (a container that has no room for
  its focus child may keep the key; whether there is room is the containers' own layout arithmetic, which is not
  re-derived here): only the dependence on the history is asserted.  Not compared: a tree with a never-drawn
  ListBox on the focus path (it still owes its documented first-selectable choice), a tree in which some
  container's cached selectable() differs from the fresh twin's (the property does not say when a change
  further down propagates), a twin that raises.  What a key does to the focus afterwards (pref_col, scroll
  position are legitimate hidden state) is not compared.
* "after ANY history of keypresses ... focus assignments and content edits": an edit need not happen between two
  keys.  Applications edit their containers from inside keypress() - a Button's click callback runs inside the
  keypress() of every container on the focus path (urwid's tutorial: HorizontalBoxes.open_box deletes and appends
  columns and assigns focus_position from there), an Edit subclass reacts to the key that leaves it.  So a
  selectable leaf may be *reactive*: the first time(s) it is offered one of its trigger keys its keypress() applies
  focus assignments / contents edits to containers of the tree (the same ops, through the same interpreter and
  model) and then returns the key handled or unhandled.  All clauses stay as they are; "arrow keys move focus only
  onto selectable children" is then judged on what the containers did AFTER the leaf gave the key back (the focus
  of every Pile / Columns / GridFlow is recorded when the reaction has finished), since the leaf's own focus
  assignment may put the focus anywhere.  Twins are built with passive probes (the twin is compared in what it is
  offered, not in what its leaves do).
"""
from __future__ import annotations

import functools
import json as _json
import warnings

from hypothesis import strategies as st

import urwid
from urwid.command_map import Command
from vlib.runner import Discard, Violation, innermost_is_urwid, load_known_ids, urwid_frame
from vlib.widths import use_encoding

PROPERTY = "C08"
LEVEL = "exploration"
RULE = (
    "Hypothesis op lists (<=30 ops quick, <=60 thorough) interpreted against a real widget tree and a model "
    "tree. Trees: nestings (<=3 container levels quick, <=4 thorough) of Pile/Columns/GridFlow/Frame/Overlay/"
    "ListBox, built type-directed by sizing mode (box or flow root), 0..4 children per container, leaves are "
    "probe widgets (flow or box, selectable or not, each handling its own subset of keys; a selectable probe may "
    "implement the optional cursor protocol; any probe may sit inside Padding (left margin 0..2), AttrMap, or the "
    "sizing adapter of its slot - Filler around a flow probe, BoxAdapter around a box probe - or two of these). "
    "Ops: navigation "
    "keys and characters, button-1 press at a cell given as fractions of the rendered size, focus_position = p "
    "(valid, out of range, None/str/float/foreign position type), set_focus_path (valid prefix, valid+bad "
    "element, too long, raw), contents insert/delete/slice-assign/whole-assign/clear on a chosen list-like "
    "container (ListBox: on its walker), the rest of the list API on the same lists (del / assignment through "
    "any Python slice object: start, stop None or -10..10, step None, +-1, +-2, +-3, an extended slice being "
    "assigned exactly as many children as it covers; append, extend, +=, insert with a negative or too large "
    "index, remove(value), pop(negative index), reverse(), *= 1, *= 0), Frame header/footer replace/remove "
    "(attribute and contents API), resize, save/restore of get_focus_path(). Oracle after every op for every "
    "container of the tree; before every key a twin of the tree is constructed afresh from its public state and "
    "must be drawn with focus on, and offer the key to, the same probes (history independence). Non-trivial: >=2 container levels in the initial tree and a contents mutation op "
    "followed later by a key op. "
    "Re-entrancy: one generated selectable leaf in five is reactive - on 1..3 trigger keys (mostly arrows), the first "
    "1..2 times it is offered one, its keypress() applies 1..2 ops (focus_position = p, set_focus_path, insert, del, "
    "slice / whole assignment, clear, extended slices, append/extend/+=, remove/pop, reverse/*=, Frame part replace/"
    "remove) to containers of the tree and returns the key handled or unhandled; every clause is asserted as usual, the "
    "arrow clause on the focus moves made after the leaf returned. "
    "Sweep 6 (re-entrant edit): Pile, Columns, GridFlow, ListBox over both walkers x 2..3 (thorough 2..4) leaves x "
    "every selectable/unselectable pattern with a selectable focus leaf x every focus position x every single edit of "
    "the container made by the focus leaf from inside keypress() (delete child j; replace child j by / insert at j a "
    "selectable or unselectable leaf; focus := j; clear; whole contents := 1 or 2 leaves by slice and by attribute; "
    "reverse) x trigger key (both arrow keys of the axis, a character) x key handled / unhandled by the leaf; then a "
    "character (thorough: also with the container as focus child of a Pile, the edit addressed to either). "
    "Plus a deterministic sweep through the same interpreter: every list-like container kind (Pile, Columns, "
    "GridFlow, ListBox over SimpleListWalker / SimpleFocusListWalker) x 1..4 children (thorough 1..6) x every "
    "focus position x every slice spelling (start, stop in {None} + [-(n+1), n+1], step in {None, +-1, +-2, +-3}) "
    "x {del; assignment of 0, 1, 2 children to an ordinary slice, of as many as covered to an extended slice}, "
    "history = built with focus f, the edit, one arrow key; non-trivial there: the edit changes the list. "
    "Sweep 2 (arrow entry): outer Pile / Columns / ListBox (SimpleListWalker; thorough also SimpleFocusListWalker) "
    "= one focused selectable leaf (bare or with cursor protocol) before or after an inner Pile / Columns / "
    "GridFlow of 1..2 (thorough 1..3) leaves, over every tuple of the 12 leaf variants {unselectable, selectable, "
    "selectable with cursor protocol} x {bare, Padding, AttrMap, sizing adapter}, x every arrow key; non-trivial: "
    "the inner container mixes selectable and unselectable leaves or has a decorated one. "
    "Sweep 3 (overfull): box and flow Columns of ('given', 3) columns in 7 / 4 cells, box Pile of ('given', 2) rows "
    "in 3 / 2 rows, GridFlow whose cells wrap, ListBox over both walkers with more rows than fit, 2..5 (thorough "
    "2..6) children, built with focus f0; history = focus := f1, character, focus := f2, character for every "
    "(f0, f1, f2), written by focus_position or by set_focus_path; or k = 1..n-1 equal arrow keys along the axis, "
    "then a character; non-trivial: the focus moves. "
    "Key bindings: ops that give a container a command map of its own (CommandMap(), a copy of an existing map, a map "
    "another container already uses, back to the shared one) or create a map no widget of the tree uses, and edit any "
    "of the maps incl. the shared urwid.command_map (map[key] = command as Command member or plain string, del "
    "map[key], clear_command, restore_defaults); the command of a key is read from the harness's model of the maps "
    "(documented defaults + the same edits), never from urwid. "
    "Sweep 4 (bindings): Pile / Columns / GridFlow / ListBox of 3 selectable leaves, alone or inside a Pile, x second "
    "map made by CommandMap() or copy() and used by the outer container, the inner one or nobody x edit (an unbound "
    "character bound to each arrow command, as member and as string; each arrow key unbound; clear_command of each "
    "arrow command) addressed to the shared or the second map, before or after the second map is made x "
    "{nothing, restore_defaults on the edited map, on the other one}, then the character, both arrow keys of the "
    "container's axis, the character. "
    "Sweep 5 (every cell): every two-level nest outer x inner over Overlay (3 aligns x 3 valigns x given / relative "
    "size), Frame (inner as body with every header/footer combination, as header, as footer), box Pile, box Columns, "
    "ListBox x inner Pile, Columns, GridFlow, ListBox, Overlay, Frame with and without header / footer: a button-1 "
    "press at each cell of a 9x6 (thorough 11x7) canvas, then a character. The random op lists also press cells "
    "given absolutely (modulo the canvas size)."
)
ASSUMPTIONS = [
    "probe widgets are correct urwid leaf widgets (Widget subclasses with render/rows/keypress/mouse_event)",
    "the model tree is a plain Python list/dict edit mirror; urwid's contents lists are checked against it by identity",
    "a ListBox that was never rendered still holds its documented 'first selectable' deferral "
    "(private attribute set_focus_pending is read only to widen the allowed receiver set of a keypress)",
    "weights are 1..3, given sizes >= 1 (zero weights / zero sizes: the statement is silent)",
    "the defaults table in the CommandMap docstring ('up': 'cursor up', ... 'home': 'cursor max left', ' ' and 'enter': "
    "'activate', 'tab': 'next selectable'; characters unbound) is what CommandMap() and restore_defaults() give; the "
    "model of a map is a plain dict edited like the map, copies are independent dicts",
    "the shared urwid.command_map is put back (through its mapping API) to what it held when the check was imported "
    "before and after every case, so that cases stay independent",
    "probes and their decorations (Padding, AttrMap, Filler, BoxAdapter) consult no command map; a GridFlow's display "
    "widgets consult the shared one",
    "Python's own list semantics for slices (the model is a plain list edited with the same slice object) are the "
    "reference for which children an edit removes / replaces; which child gets the focus afterwards is not asserted, "
    "only that it is a valid one",
    "a reactive probe is a correct application widget: editing contents / assigning focus_position from inside "
    "keypress() is what Button callbacks do (urwid tutorial, HorizontalBoxes.open_box); it never feeds input back in, "
    "never renders, and reports the key as its 'keys' set says",
    "a child object occurs once in a tree (no `contents *= 2`, no widget inserted twice): the model finds children by identity",
    "Padding, AttrMap, Filler and BoxAdapter pass selectable(), keypress, mouse_event and render(focus) through to the "
    "one widget they decorate (they are leaves' clothing here, not subjects of this property)",
    "the twin is built with the public constructors from public state (contents and their option tuples, "
    "focus_position, dividechars / min_width / cell_width / h_sep / v_sep / align, Frame parts and focus_part, the "
    "Overlay keywords kept from the build); a ListBox twin gets body.set_focus(p) and set_focus(p) before its first "
    "draw. A constructor is trusted to produce a tree without history, not to be correct: the real tree is "
    "still checked against the stated clauses through the model, and a disagreement with the twin is reported as "
    "dependence on history (a twin whose get_focus_path() differs from the real one is not compared, counted)",
]

NAV_KEYS = ["up", "down", "left", "right", "page up", "page down", "home", "end", "tab"]
CHAR_KEYS = ["x", "q", "enter", " "]
ALL_KEYS = NAV_KEYS + CHAR_KEYS
ARROWS = {Command.UP, Command.DOWN, Command.LEFT, Command.RIGHT}
CONTAINER_COMMANDS = ARROWS | {Command.PAGE_UP, Command.PAGE_DOWN, Command.MAX_LEFT, Command.MAX_RIGHT}
# the documented default bindings (CommandMap docstring) of the keys this check sends; "x" and "q" are unbound
DEFAULT_BINDINGS = {
    "up": Command.UP,
    "down": Command.DOWN,
    "left": Command.LEFT,
    "right": Command.RIGHT,
    "page up": Command.PAGE_UP,
    "page down": Command.PAGE_DOWN,
    "home": Command.MAX_LEFT,
    "end": Command.MAX_RIGHT,
    "tab": Command.SELECT_NEXT,
    "enter": Command.ACTIVATE,
    " ": Command.ACTIVATE,
}
# commands a history may bind a key to: the four arrows first, then the other cursor movements, then two commands
# no container consumes
BINDABLE = [
    Command.UP,
    Command.DOWN,
    Command.LEFT,
    Command.RIGHT,
    Command.PAGE_UP,
    Command.PAGE_DOWN,
    Command.MAX_LEFT,
    Command.MAX_RIGHT,
    Command.ACTIVATE,
    Command.SELECT_NEXT,
]
MAX_MAPS = 4
# what the shared map held when this process imported the check (nothing has touched it yet): used only to put
# it back between cases, never as an oracle
_SHARED_AT_IMPORT = dict(urwid.command_map.items())


def reset_shared_map():
    cm = urwid.command_map
    for k in [k for k in cm if k not in _SHARED_AT_IMPORT]:
        del cm[k]
    for k, v in _SHARED_AT_IMPORT.items():
        if cm[k] is not v:
            cm[k] = v


GLYPHS = "ABCDEFGHIJKLMNOPQRSTUVWXYZabcdefghijklmnopqrstuvwxyz0123456789"
LISTK = ("pile", "cols", "grid", "lb")
from urwid.widget.widget import WidgetWarning  # noqa: E402

SIZING_WARNINGS = (WidgetWarning,)


# ---------------------------------------------------------------------------------------------
# probes


class Probe(urwid.Widget):
    """Leaf widget: paints its glyph, logs keypress / mouse_event / render(focus)."""

    def __init__(self, pid, flow, sel, keys, rows, log, hook=None, react_on=()):
        super().__init__()
        self.pid = pid
        self.hook = hook  # Harness.react for a leaf whose keypress() edits the tree, else None (twins: always None)
        self.react_on = frozenset(react_on) if (sel and hook is not None) else frozenset()
        self.reacted = 0
        self._sizing = frozenset([urwid.FLOW]) if flow else frozenset([urwid.BOX])
        self._selectable = bool(sel)
        self.keys = frozenset(keys) if sel else frozenset()
        self.nrows = rows
        self.log = log
        self.glyph = GLYPHS[pid % len(GLYPHS)]

    def rows(self, size, focus=False):
        return self.nrows

    def render(self, size, focus=False):
        self.log.append(("render", self.pid, bool(focus)))
        cols = size[0]
        rows = size[1] if len(size) == 2 else self.nrows
        return urwid.SolidCanvas(self.glyph, cols, rows)

    def keypress(self, size, key):
        handled = key in self.keys
        self.log.append(("key", self.pid, key, handled))
        if key in self.react_on:
            # an application widget: its keypress() changes the user interface it sits in (what a Button's click
            # callback or an Edit subclass does), then reports the key handled or not
            self.hook(self, key)
        return None if handled else key

    def mouse_event(self, size, event, button, col, row, focus):
        self.log.append(("mouse", self.pid, event, button, bool(focus)))
        return bool(self._selectable)

    def _repr_words(self):
        return [*super()._repr_words(), f"probe#{self.pid}"]


class CursorProbe(Probe):
    """A probe that also implements the optional cursor protocol of selectable widgets (what Edit and
    SelectableIcon do): the cursor sits in its top-left cell whenever it has a cell, and the canvas
    rendered with focus carries the same cursor."""

    @staticmethod
    def _room(size, nrows):
        return size[0] > 0 and (size[1] if len(size) == 2 else nrows) > 0

    def render(self, size, focus=False):
        canv = urwid.CompositeCanvas(super().render(size, focus))
        if focus and self._room(size, self.nrows):
            canv.cursor = (0, 0)
        return canv

    def get_cursor_coords(self, size):
        return (0, 0) if self._room(size, self.nrows) else None

    def move_cursor_to_coords(self, size, col, row):
        return True

    def get_pref_col(self, size):
        return 0


DECOS = ("pad", "attr", "adapt")
REENTRANT_MARK = " [after the focus leaf edited the tree from inside this keypress()]"
# what a leaf's keypress() may do to the tree it sits in: focus assignments and contents edits (the same ops a
# history is made of, interpreted by the same methods of the harness), nothing that feeds input back in
REACT_KINDS = frozenset(
    ["focus", "path", "ins", "del", "slice", "setall", "clear", "xslice", "add", "rem", "whole", "part"]
)


def leaf_spec(spec, pid):
    """normalised description of a leaf: everything make_leaf needs (so that a twin can be built from it)"""
    sel = int(bool(spec.get("sel", 0)))
    deco = []
    for d in spec.get("deco") or []:
        if d in DECOS and d not in deco:
            deco.append(d)
    react = [list(op) for op in (spec.get("react") or []) if op and op[0] in REACT_KINDS][:3] if sel else []
    return {
        "react": react,
        "ron": [k for k in spec.get("ron", []) if k in ALL_KEYS] if react else [],
        "rn": min(3, max(1, int(spec.get("rn", 1)))),
        "pid": pid,
        "sel": sel,
        "keys": [k for k in spec.get("keys", []) if k in ALL_KEYS],
        "rows": min(3, max(1, int(spec.get("rows", 1)))),
        "cur": int(bool(spec.get("cur", 0)) and sel),
        "deco": deco,
        "padl": int(spec.get("padl", 1)) % 3,
    }


def make_leaf(ls, mode, log, hook=None):
    """The leaf widget for a slot that needs a flow ("F") or box ("B") widget: a probe, optionally inside the
    decoration widgets applications put around their leaves - 'adapt': a probe of the OTHER sizing mode made to
    fit the documented way (Filler around a flow widget, BoxAdapter around a box widget); 'pad': Padding with a
    left margin of 0..2; 'attr': AttrMap with a focus attribute.  A decoration is selectable exactly when the
    probe inside is; whether it has the optional cursor methods is up to the decoration class.
    ``hook``: Harness.react for a reactive leaf (ls["react"] non-empty), None for passive leaves and all twins."""
    adapt = "adapt" in ls["deco"]
    inner_flow = (mode == "F") != adapt
    cls = CursorProbe if ls["cur"] else Probe
    w = cls(ls["pid"], inner_flow, ls["sel"], ls["keys"], ls["rows"], log, hook, ls.get("ron", ()))
    w.ls = ls
    if adapt:
        w = urwid.Filler(w, "top") if mode == "B" else urwid.BoxAdapter(w, ls["rows"])
    for d in ls["deco"]:
        if d == "pad":
            w = urwid.Padding(w, left=ls["padl"])
        elif d == "attr":
            w = urwid.AttrMap(w, None, "focus")
    return w


# ---------------------------------------------------------------------------------------------
# model


class Node:
    __slots__ = ("kind", "mode", "w", "kids", "slot", "pid", "extra", "cmap")

    def __init__(self, kind, mode, w, kids=None, pid=None, extra=None):
        self.kind = kind  # p pile cols grid frame over lb
        self.mode = mode  # F or B
        self.w = w
        self.kids = kids  # list (pile/cols/grid/lb), dict (frame), list [bottom, top] (over)
        self.slot = None  # option kind in the parent: w g k (pile/cols)
        self.pid = pid
        self.extra = extra  # leaf: its normalised spec; overlay: the constructor keywords (for building a twin)
        self.cmap = None  # index (into Harness.maps) of the command map this container was given; None: the shared one

    def children(self):
        if self.kind == "p":
            return []
        if self.kind == "frame":
            return [self.kids[k] for k in ("header", "body", "footer") if self.kids[k] is not None]
        return list(self.kids)

    def label(self):
        n = len(self.children())
        return f"kind={self.kind} mode={self.mode} n={n}"


def _opt(o):
    """normalise an item option from the spec: -> (slot, amount)"""
    if not isinstance(o, (list, tuple)) or not o:
        return "w", 1
    if o[0] == "g":
        return "g", max(1, int(o[1]) if len(o) > 1 else 1)
    if o[0] == "k":
        return "k", None
    return "w", max(1, int(o[1]) if len(o) > 1 else 1)


def urwid_chain(exc):
    """function names of the traceback frames that lie in urwid, outermost first ('render>calculate_visible>...')"""
    import traceback

    names = []
    for fr in traceback.extract_tb(exc.__traceback__):
        fn = fr.filename.replace("\\", "/")
        if "/urwid/" in fn and "/verif/" not in fn:
            names.append(fr.name)
    return ">".join(names)


STATS: dict[str, int] = {}


def stat(label):
    STATS[label] = STATS.get(label, 0) + 1


@functools.lru_cache(maxsize=None)
def _known_ids():
    """ids listed with status "known", read once per process (the files are read-only during a campaign; while
    checks are being built another writer may be half way through a file: retry instead of failing)"""
    import time

    for _attempt in range(20):
        try:
            return frozenset(load_known_ids(PROPERTY))
        except ValueError:  # json.JSONDecodeError
            time.sleep(0.25)
    return frozenset(load_known_ids(PROPERTY))


class Harness:
    def __init__(self, case):
        self.case = case
        self.log = []
        self.npid = 0
        self.known = {k: p for k, p in KNOWN.items() if k in _known_ids()}
        self.deferred = []
        self.saved = None
        self.saved_gen = 0
        self.gen = 0  # bumped by every contents mutation
        self.mode = case["mode"]
        cols, rows = case["size"]
        self.cols, self.rows = max(1, int(cols)), max(1, int(rows))
        self.canvas_rows = self.rows
        self.wlist = []
        self.root = None
        self.drawn_focus = None  # probes drawn with focus=True by the last complete render of the real tree
        self.key_nodes = []  # the Pile / Columns / GridFlow nodes of the tree when the key now travelling was sent
        self.reaction_snapshot = None  # [(node, node.w.focus)] taken when the last reaction to that key had finished
        # command maps of this history: [0] is the shared one; model: key -> Command for the keys in ALL_KEYS
        self.maps = [urwid.command_map]
        self.mmodel = [dict(DEFAULT_BINDINGS)]

    # ---- building -------------------------------------------------------------------------
    def new_probe(self, spec, mode):
        pid = self.npid
        self.npid += 1
        ls = leaf_spec(spec, pid)
        return Node("p", mode, make_leaf(ls, mode, self.log, self.react if ls["react"] else None), None, pid, ls)

    def filler(self, mode):
        return self.new_probe({"k": "p", "sel": 0, "keys": [], "rows": 1}, mode)

    def realize(self, spec, mode):
        kind = spec.get("k", "p")
        if kind == "p":
            return self.new_probe(spec, mode)
        if kind == "grid" and mode == "B":
            # a flow-only widget used where a box widget is needed: 'pack' item of a box Pile + weighted filler
            inner = self.realize(spec, "F")
            fill = self.filler("B")
            inner.slot, fill.slot = "k", "w"
            w = urwid.Pile([("pack", inner.w), ("weight", 1, fill.w)])
            return Node("pile", "B", w, [inner, fill])
        if kind in ("frame", "over", "lb") and mode == "F":
            # a box-only widget used where a flow widget is needed: ('given', n) item of a flow Pile
            inner = self.realize(spec, "B")
            inner.slot = "g"
            w = urwid.Pile([(3, inner.w)])
            return Node("pile", "F", w, [inner])
        return getattr(self, "_mk_" + kind)(spec, mode)

    def child_plan(self, pkind, pmode, item):
        """-> (child_mode, slot, amount, box_flag) for an item spec inside a list-like container"""
        slot, amt = _opt(item.get("o"))
        if pkind == "pile":
            if pmode == "B":
                return ("F", "k", None, False) if slot == "k" else ("B", slot, amt, False)
            return ("B", "g", amt, False) if slot == "g" else ("F", slot, amt, False)
        if pkind == "cols":
            if pmode == "B":
                if slot == "k":
                    slot, amt = "w", 1
                return "B", slot, amt, False
            if item.get("box"):
                if slot == "k":
                    slot, amt = "w", 1
                return "B", slot, amt, True
            return "F", slot, amt, False
        return "F", "g", None, False  # grid, lb

    def build_items(self, pkind, pmode, items):
        """-> list of (node, slot, amount, box)"""
        items = list(items)[:6]
        plans = [list(self.child_plan(pkind, pmode, it)) for it in items]
        # documented preconditions, by construction
        if plans and pkind == "pile" and pmode == "B" and not any(p[1] == "w" for p in plans):
            plans[-1] = ["B", "w", 1, False]
        if plans and pkind == "cols" and pmode == "F" and not any(p[0] == "F" for p in plans):
            plans[0] = ["F", "w", 1, False]
        out = []
        for it, (cmode, slot, amt, box) in zip(items, plans):
            node = self.realize(it.get("n", {"k": "p"}), cmode)
            node.slot = slot
            out.append((node, slot, amt, box))
        return out

    @staticmethod
    def _ctor_item(node, slot, amt):
        if slot == "k":
            return ("pack", node.w)
        if slot == "g":
            return ("given", amt, node.w)
        return ("weight", amt, node.w)

    def _mk_pile(self, spec, mode):
        built = self.build_items("pile", mode, spec.get("c", []))
        f = spec.get("focus")
        focus_item = (int(f) % len(built)) if (built and f is not None) else None
        w = urwid.Pile([self._ctor_item(n, s, a) for n, s, a, _b in built], focus_item=focus_item)
        return Node("pile", mode, w, [b[0] for b in built])

    def _mk_cols(self, spec, mode):
        built = self.build_items("cols", mode, spec.get("c", []))
        f = spec.get("focus")
        focus_column = (int(f) % len(built)) if (built and f is not None) else None
        w = urwid.Columns(
            [self._ctor_item(n, s, a) for n, s, a, _b in built],
            dividechars=int(spec.get("div", 0)) % 2,
            focus_column=focus_column,
            box_columns=[i for i, b in enumerate(built) if b[3]],
        )
        return Node("cols", mode, w, [b[0] for b in built])

    def _mk_grid(self, spec, mode):
        built = self.build_items("grid", "F", spec.get("c", []))
        f = spec.get("focus")
        focus = (int(f) % len(built)) if (built and f is not None) else None
        w = urwid.GridFlow(
            [b[0].w for b in built],
            cell_width=1 + int(spec.get("cw", 1)) % 2,
            h_sep=int(spec.get("hs", 0)) % 2,
            v_sep=int(spec.get("vs", 0)) % 2,
            align=["left", "center", "right"][int(spec.get("al", 0)) % 3],
            focus=focus,
        )
        return Node("grid", "F", w, [b[0] for b in built])

    def _mk_lb(self, spec, mode):
        built = self.build_items("lb", "B", spec.get("c", []))
        widgets = [b[0].w for b in built]
        if spec.get("walker") == "f":
            w = urwid.ListBox(urwid.SimpleFocusListWalker(widgets))
        else:
            w = urwid.ListBox(urwid.SimpleListWalker(widgets))
        if built and spec.get("focus") is not None:
            w.body.set_focus(int(spec["focus"]) % len(built))  # the walker's own API, before any render
        return Node("lb", "B", w, [b[0] for b in built])

    def _mk_frame(self, spec, mode):
        body = self.realize(spec.get("body") or {"k": "p"}, "B")
        hdr = self.realize(spec["hdr"], "F") if spec.get("hdr") else None
        ftr = self.realize(spec["ftr"], "F") if spec.get("ftr") else None
        fp = spec.get("fp", "body")
        if fp not in ("body", "header", "footer") or (fp == "header" and hdr is None) or (fp == "footer" and ftr is None):
            fp = "body"
        w = urwid.Frame(body.w, hdr.w if hdr else None, ftr.w if ftr else None, focus_part=fp)
        return Node("frame", "B", w, {"body": body, "header": hdr, "footer": ftr})

    def _mk_over(self, spec, mode):
        hs = spec.get("h") or ["k"]
        if hs[0] == "k" and (spec.get("top") or {}).get("k", "p") != "p":
            # a flow container on top can become empty = zero rows, which the canvas layer cannot
            # overlay (not this property): containers on top get a given height instead
            hs = ["g", 1]
        if hs[0] == "k":
            top = self.realize(spec.get("top") or {"k": "p"}, "F")
            height = "pack"
        elif hs[0] == "g":
            top = self.realize(spec.get("top") or {"k": "p"}, "B")
            height = 1 + int(hs[1]) % 6
        else:
            top = self.realize(spec.get("top") or {"k": "p"}, "B")
            height = ("relative", 20 + int(hs[1]) % 81)
        ws = spec.get("w") or ["r", 50]
        if ws[0] == "g":
            width = 1 + int(ws[1]) % 8
        else:
            width = ("relative", 20 + int(ws[1]) % 81)
        bottom = self.realize(spec.get("bot") or {"k": "p"}, "B")
        kw = {
            "align": ["left", "center", "right"][int(spec.get("al", 1)) % 3],
            "width": width,
            "valign": ["top", "middle", "bottom"][int(spec.get("va", 1)) % 3],
            "height": height,
        }
        w = urwid.Overlay(top.w, bottom.w, **kw)
        return Node("over", "B", w, [bottom, top], None, kw)

    def item_options(self, parent, slot, amt, box):
        if parent.kind == "pile":
            kind = {"w": "weight", "g": "given", "k": "pack"}[slot]
            return parent.w.options(kind, amt)
        if parent.kind == "cols":
            kind = {"w": "weight", "g": "given", "k": "pack"}[slot]
            return parent.w.options(kind, amt, box)
        if parent.kind == "grid":
            return parent.w.options()
        return None

    # ---- model walks ----------------------------------------------------------------------
    def nodes(self):
        out, stack = [], [self.root]
        while stack:
            n = stack.pop()
            out.append(n)
            stack.extend(reversed(n.children()))
        return out

    def containers(self):
        return [n for n in self.nodes() if n.kind != "p"]

    @staticmethod
    def positions(node):
        """valid positions of a container according to the model"""
        if node.kind in LISTK:
            return list(range(len(node.kids)))
        if node.kind == "frame":
            return [k for k in ("header", "body", "footer") if node.kids[k] is not None]
        return [1]

    @staticmethod
    def valid_position(node, p):
        if node.kind == "p":
            return False
        if node.kind in LISTK:
            return isinstance(p, int) and not isinstance(p, bool) and 0 <= p < len(node.kids)
        if node.kind == "frame":
            return isinstance(p, str) and p in ("header", "body", "footer") and node.kids[p] is not None
        return isinstance(p, int) and not isinstance(p, bool) and p == 1

    @staticmethod
    def child_at(node, p):
        return node.kids[p]

    def child_by_widget(self, node, widget):
        if node.kind in LISTK:
            for i, k in enumerate(node.kids):
                if k.w is widget:
                    return k, i
        elif node.kind == "frame":
            for key in ("header", "body", "footer"):
                k = node.kids[key]
                if k is not None and k.w is widget:
                    return k, key
        else:
            for i, k in enumerate(node.kids):
                if k.w is widget:
                    return k, i
        return None, None

    def focus_walk(self):
        """My own walk: follow ``container.focus`` (identity) through the model.
        -> (positions, nodes on the path including the root)"""
        node = self.root
        positions, path = [], [node]
        while node.kind != "p":
            f = node.w.focus
            if f is None:
                break
            child, pos = self.child_by_widget(node, f)
            if child is None:
                raise Violation("focus-is-child", f"{node.label()}: .focus is {f!r}, which is not one of its children")
            positions.append(pos)
            path.append(child)
            node = child
        return positions, path

    def walkable(self, p):
        node = self.root
        for pos in p:
            if not self.valid_position(node, pos):
                return False
            node = self.child_at(node, pos)
        return True

    def _lb_pending(self, path):
        """probes below a never-rendered ListBox on the path: its first render/keypress picks the
        first selectable row (documented deferral), so the receiver may be any of its rows."""
        extra = set()
        for n in path:
            if n.kind == "lb" and getattr(n.w, "set_focus_pending", None) == "first selectable":
                stack = [n]
                while stack:
                    m = stack.pop()
                    if m.kind == "p":
                        extra.add(m.pid)
                    stack.extend(m.children())
        return extra

    # ---- twin: the same tree without a history ------------------------------------------------
    def twin_of(self, n, tlog, tmap):
        """A freshly constructed widget with the same children, item options, container parameters and focus
        positions as ``n.w`` has now (all read through public attributes / the constructor arguments kept from
        the build), down to probes of its own that log into ``tlog``.  ``tmap``: id(node) -> twin widget."""
        w = n.w
        if n.kind == "p":
            t = make_leaf(n.extra, n.mode, tlog)
        elif n.kind in ("pile", "cols"):
            kids = [self.twin_of(k, tlog, tmap) for k in n.kids]
            items, boxes = [], []
            for i, (tk, (_w, opt)) in enumerate(zip(kids, w.contents)):
                items.append(("pack", tk) if opt[0] == urwid.PACK else (opt[0], opt[1], tk))
                if n.kind == "cols" and opt[2]:
                    boxes.append(i)
            fp = w.focus_position if kids else None
            if n.kind == "pile":
                t = urwid.Pile(items, focus_item=fp)
            else:
                t = urwid.Columns(
                    items, dividechars=w.dividechars, focus_column=fp, min_width=w.min_width, box_columns=boxes
                )
        elif n.kind == "grid":
            kids = [self.twin_of(k, tlog, tmap) for k in n.kids]
            fp = w.focus_position if kids else None
            t = urwid.GridFlow(kids, cell_width=w.cell_width, h_sep=w.h_sep, v_sep=w.v_sep, align=w.align, focus=fp)
        elif n.kind == "lb":
            kids = [self.twin_of(k, tlog, tmap) for k in n.kids]
            t = urwid.ListBox(type(w.body)(kids))
            if kids:
                fp = w.focus_position
                t.body.set_focus(fp)
                t.set_focus(fp)  # an explicit focus: replaces the 'first selectable' deferral of a new ListBox
        elif n.kind == "frame":
            parts = {k: (self.twin_of(v, tlog, tmap) if v is not None else None) for k, v in n.kids.items()}
            t = urwid.Frame(parts["body"], parts["header"], parts["footer"], focus_part=w.focus_part)
        else:
            bottom, top = (self.twin_of(k, tlog, tmap) for k in n.kids)
            t = urwid.Overlay(top, bottom, **n.extra)
        if n.kind != "p" and n.cmap:
            t._command_map = self.maps[n.cmap]  # bindings are configuration, not history: the twin uses the same map
        tmap[id(n)] = t
        return t

    def twin_observe(self, key, positions, path):
        """What a freshly built twin of the current tree does with the same size and key:
        -> (probes drawn with focus=True, probes offered the key), or None when the comparison does not apply
        (counted).  Input and focus rendering "follow the focus path": two trees with the same children, options,
        focus positions and size have the same focus path, so they must agree in both - whatever calls the
        real tree has seen before."""
        if any(n.kind == "lb" and getattr(n.w, "set_focus_pending", None) == "first selectable" for n in path):
            # a never-drawn ListBox on the path still owes its documented first-selectable choice
            self.count("twin:skip:listbox-never-drawn")
            return None
        tlog, tmap = [], {}
        troot = self.twin_of(self.root, tlog, tmap)
        for n in self.containers():
            if bool(n.w.selectable()) != bool(tmap[id(n)].selectable()):
                # the containers cache selectable(); the property does not say when a change further down
                # propagates upwards (see "Readings"), so a tree whose cached answers lag is not compared
                self.count("twin:skip:selectable-cache-lags")
                return None
        if troot.get_focus_path() != positions:
            self.count("twin:skip:focus-path-not-reproduced")
            return None
        size = self.size()
        try:
            troot.render(size, True)
            drawn = {e[1] for e in tlog if e[0] == "render" and e[2]}
            del tlog[:]
            troot.keypress(size, key)
        except Exception as e:  # noqa: BLE001
            if not innermost_is_urwid(e):
                raise
            # a fresh tree failing is the business of the clauses above (initial trees are checked like any other)
            self.count("twin:skip:exception")
            return None
        self.check_warnings()
        self.count("twin:compared")
        return drawn, {e[1] for e in tlog if e[0] == "key"}

    # ---- reporting ------------------------------------------------------------------------
    def report(self, v):
        """raise v unless it is an instance of a listed known finding: then remember it and go on"""
        for pred in self.known.values():
            try:
                if pred("ops", self.case, v):
                    self.deferred.append(v)
                    return
            except Exception:  # noqa: BLE001
                continue
        raise v

    def guarded(self, fn, what):
        """run fn(); an exception from inside urwid that is a listed known finding is remembered
        and (False, None) returned; anything else propagates to the runner."""
        try:
            return True, fn()
        except (Violation, Discard):
            raise
        except Exception as e:  # noqa: BLE001
            self.check_warnings()
            if not innermost_is_urwid(e):
                raise
            if type(e).__name__ == "ListBoxError":
                # the ListBox's own scrolling arithmetic gave up (typically a Pile handed it 0 rows): C07's
                # subject, treated like the same error from render() below - out of scope, counted
                stat(f"out-of-scope:{what}:ListBoxError")
                raise Discard() from e
            v = Violation(
                f"exception:{type(e).__name__}@{urwid_frame(e)}",
                f"{type(e).__name__}: {e}{self.reentrant_mark(what)} [via {urwid_chain(e)}]",
            )
            for pred in self.known.values():
                try:
                    if pred("ops", self.case, v):
                        self.deferred.append(v)
                        return False, None
                except Exception:  # noqa: BLE001
                    continue
            raise

    def reentrant_mark(self, what="keypress"):
        """message suffix saying that a leaf edited the tree from inside the keypress() call being judged"""
        return REENTRANT_MARK if (what == "keypress" and self.reaction_snapshot is not None) else ""

    def check_warnings(self):
        for wm in self.wlist:
            if issubclass(wm.category, SIZING_WARNINGS):
                stat(f"discard:{wm.category.__name__}:{str(wm.message)[:28]}")
                raise Discard()
        del self.wlist[:]

    # ---- oracle ---------------------------------------------------------------------------
    def size(self):
        return (self.cols, self.rows) if self.mode == "B" else (self.cols,)

    def check_sync(self, n):
        w = n.w
        if n.kind in ("pile", "cols", "grid"):
            real = [c[0] for c in w.contents]
        elif n.kind == "lb":
            real = list(w.body)
        elif n.kind == "frame":
            real = [w.header, w.body, w.footer]
            exp = [n.kids["header"], n.kids["body"], n.kids["footer"]]
            if any((r is None) != (e is None) or (e is not None and r is not e.w) for r, e in zip(real, exp)):
                raise Violation("contents-sync", f"{n.label()}: header/body/footer differ from what was assigned")
            return
        else:
            real = [w.contents[0][0], w.contents[1][0]]
        if len(real) != len(n.kids) or any(r is not k.w for r, k in zip(real, n.kids)):
            raise Violation("contents-sync", f"{n.label()}: contents differ from the list edits applied")

    def check_container(self, n):
        w = n.w
        self.check_sync(n)
        if n.kind in LISTK:
            if not n.kids:
                if w.focus is not None:
                    self.report(Violation("empty-focus-none", f"{n.label()}: empty container reports focus {w.focus!r}"))
                try:
                    fp = w.focus_position
                except IndexError:
                    return
                except Exception as e:  # noqa: BLE001
                    self.report(Violation("empty-position-indexerror", f"{n.label()}: reading focus_position raised {e!r}"))
                    return
                self.report(Violation("empty-position-indexerror", f"{n.label()}: reading focus_position gave {fp!r}"))
                return
            fp = w.focus_position
            if not self.valid_position(n, fp):
                self.report(Violation("focus-position-valid", f"{n.label()}: focus_position {fp!r}"))
                return
            try:
                child = w.contents[fp][0]
            except (KeyError, IndexError) as e:
                self.report(Violation("focus-is-child", f"{n.label()}: contents[{fp!r}] raised {type(e).__name__}"))
                return
            if child is not w.focus or child is not n.kids[fp].w:
                self.report(Violation("focus-is-child", f"{n.label()}: contents[{fp!r}][0] is not .focus"))
            return
        if n.kind == "frame":
            fp = w.focus_position
            if not self.valid_position(n, fp):
                self.report(
                    Violation("focus-position-valid", f"{n.label()}: focus_position {fp!r}, parts {self.positions(n)}")
                )
                return
            part = n.kids[fp]
            try:
                child = w.contents[fp][0]
            except KeyError:
                empty = int(part.kind != "p" and not part.children())
                self.report(
                    Violation(
                        "focus-is-child",
                        f"kind=frame part={fp} part_kind={part.kind} part_empty={empty}: "
                        f"contents[{fp!r}] raised KeyError while focus_position == {fp!r}",
                    )
                )
                return
            if child is not w.focus or child is not part.w:
                self.report(Violation("focus-is-child", f"{n.label()}: contents[{fp!r}][0] is not .focus"))
            return
        # overlay
        fp = w.focus_position
        if fp != 1 or isinstance(fp, bool):
            self.report(Violation("focus-position-valid", f"{n.label()}: focus_position {fp!r}"))
            return
        if w.contents[1][0] is not w.focus or w.focus is not n.kids[1].w:
            self.report(Violation("focus-is-child", f"{n.label()}: contents[1][0] is not .focus"))

    def check_all(self):
        for n in self.containers():
            self.check_container(n)
        positions, _path = self.focus_walk()
        if self.root.kind != "p":
            got = self.root.w.get_focus_path()
            if got != positions:
                self.report(
                    Violation("focus-path-read", f"get_focus_path() == {got!r}, walking .focus by identity gives {positions!r}")
                )

    def snapshot(self):
        return [(id(n.w.focus), n.w.focus_part if n.kind == "frame" else None) for n in self.containers()]

    def render(self, size):
        """root.render(size, True).  A tree that the canvas layer cannot compose at this size (e.g. a
        zero-row flow widget on top of an Overlay) is not this property's business (C01/C02/C19 own
        rendering): such a case is discarded and counted."""
        try:
            return self.root.w.render(size, True)
        except Exception as e:  # noqa: BLE001
            fr = urwid_frame(e) or ""
            layout = (
                fr.startswith("canvas.py")
                or type(e).__name__ in ("CanvasError", "ListBoxError")
                or (isinstance(e, RuntimeError) and "rows, render mismatch" in str(e))
            )
            if innermost_is_urwid(e) and layout:
                stat(f"out-of-scope:render:{type(e).__name__}@{fr}")
                raise Discard() from e
            raise

    def render_check(self):
        size = self.size()
        self.drawn_focus = None
        # 1st render settles deferred ListBox focus changes (they are applied when a size is known)
        ok, _ = self.guarded(lambda: self.render(size), "render")
        if not ok:
            return
        urwid.CanvasCache.clear()
        del self.log[:]
        _positions, path = self.focus_walk()
        allowed = {n.pid for n in path if n.kind == "p"} | self._lb_pending(path)
        ok, canv = self.guarded(lambda: self.render(size), "render")
        if not ok:
            return
        if canv.cols() != self.cols or (self.mode == "B" and canv.rows() != self.rows):
            # not this property's clause (C01); a mis-sized canvas would invalidate click coordinates
            stat("discard:canvas-size-mismatch")
            raise Discard()
        self.canvas_rows = canv.rows()
        self.drawn_focus = {e[1] for e in self.log if e[0] == "render" and e[2]}
        bad = sorted(self.drawn_focus - allowed)
        if bad:
            self.report(
                Violation(
                    "render-focus-only-on-path",
                    f"probes {bad} were rendered with focus=True; focus path ends in probes {sorted(allowed)}",
                )
            )

    def after_op(self):
        self.check_warnings()
        self.check_all()
        self.render_check()
        self.check_warnings()

    # ---- re-entrancy: a leaf whose keypress() edits the tree ---------------------------------------------
    def react(self, probe, key):
        """Called by a reactive probe from inside its keypress() (i.e. from inside the keypress() of every container
        on the focus path): apply the probe's ops - focus assignments and contents edits, on real tree and model
        alike, through the same op_* methods a history uses - at most ``rn`` times in a history.  The clauses that
        hold after any history hold after this one too; what the containers do with the key once the leaf has
        returned it is judged against the tree as the reaction left it (``reaction_snapshot``)."""
        ls = probe.ls
        if probe.reacted >= ls["rn"]:
            return
        probe.reacted += 1
        for op in ls["react"]:
            if op[0] in REACT_KINDS:
                getattr(self, "op_" + op[0])(op)
                self.count(f"react:{op[0]}")
        seen, nodes = set(), []
        for n in [*self.key_nodes, *self.containers()]:
            if n.kind in ("pile", "cols", "grid") and id(n) not in seen:
                seen.add(id(n))
                nodes.append(n)
        self.reaction_snapshot = [(n, n.w.focus) for n in nodes]
        self.count(f"react:fired:{'handled' if key in probe.keys else 'unhandled'}")

    # ---- ops ------------------------------------------------------------------------------
    def pick(self, nodes, i):
        return nodes[int(i) % len(nodes)] if nodes else None

    def op_key(self, op):
        key = op[1]
        root = self.root.w
        if key not in ALL_KEYS or not root.selectable():
            self.count("key:not-sent")
            return
        positions, path = self.focus_walk()
        allowed = {n.pid for n in path if n.kind == "p"} | self._lb_pending(path)
        play = self.commands_in_play(key, path)
        before = [(n, n.w.focus) for n in self.containers() if n.kind in ("pile", "cols", "grid")]
        twin = self.twin_observe(key, positions, path) if self.drawn_focus is not None else None
        del self.log[:]
        self.key_nodes = [n for n, _f in before]
        self.reaction_snapshot = None
        ok, r = self.guarded(lambda: root.keypress(self.size(), key), "keypress")
        if not ok:
            return
        if self.reaction_snapshot is not None:
            # a leaf edited the tree / moved the focus while it held the key: only what happened after it gave the
            # key back is the containers' arrow-key handling
            before = self.reaction_snapshot
        klog = [e for e in self.log if e[0] == "key"]
        got = sorted({e[1] for e in klog})
        if twin is not None:
            if twin[0] != self.drawn_focus:
                self.report(
                    Violation(
                        "history-independent-focus-rendering",
                        f"focus path {positions!r}, size {self.size()!r}: the tree drew probes {sorted(self.drawn_focus)} "
                        f"with focus=True; a freshly built tree with the same children, options and focus "
                        f"positions draws {sorted(twin[0])}",
                    )
                )
            if twin[1] != set(got):
                self.report(
                    Violation(
                        "history-independent-key-routing",
                        f"focus path {positions!r}, size {self.size()!r}: key {key!r} was offered to probes {got}; "
                        f"a freshly built tree with the same children, options and focus positions offers it to "
                        f"{sorted(twin[1])}",
                    )
                )
        if not set(got) <= allowed:
            self.report(
                Violation(
                    "key-only-to-focus-path",
                    f"key {key!r} was offered to probes {got}; the focus path before the call ends in {sorted(allowed)}",
                )
            )
        handled = any(e[3] for e in klog)
        if r is not None and r != key:
            self.report(Violation("unhandled-key-unchanged", f"key {key!r} came back as {r!r}"))
        if r is None and not handled and not (play & CONTAINER_COMMANDS):
            self.report(
                Violation(
                    "unhandled-key-unchanged",
                    f"key {key!r} (bound to {sorted(str(c) for c in play)} in the command maps of the containers on the "
                    f"focus path {positions!r}) was handled by no probe but keypress returned None",
                )
            )
        if (play & ARROWS) and not (play & (CONTAINER_COMMANDS - ARROWS)):
            for n, old in before:
                new = n.w.focus
                if new is not old and new is not None and not new.selectable() and any(
                    w.selectable() for w, _o in n.w.contents
                ):
                    # (a container none of whose children is selectable has nothing selectable to move to: its
                    # focus may be re-seated by a re-layout, e.g. GridFlow rebuilding its display widget)
                    self.report(
                        Violation(
                            "arrow-moves-to-selectable",
                            f"{n.label()}: {key!r} moved the focus onto an unselectable child {new!r}{self.reentrant_mark()}",
                        )
                    )
        self.count("key:handled" if handled else ("key:consumed" if r is None else "key:returned"))

    def commands_in_play(self, key, path):
        """What ``key`` is bound to (a Command or None), according to the model, in each command map that can be
        consulted while the key travels along the focus path: the map of every container on the path and, when a
        GridFlow is on it, the shared map its display widgets use; below a never-drawn ListBox (see _lb_pending)
        every container counts."""
        nodes = []
        for n in path:
            if n.kind == "p":
                continue
            nodes.append(n)
            if n.kind == "lb" and getattr(n.w, "set_focus_pending", None) == "first selectable":
                stack = list(n.children())
                while stack:
                    m = stack.pop()
                    if m.kind != "p":
                        nodes.append(m)
                        stack.extend(m.children())
        play = set()
        for n in nodes:
            play.add(self.mmodel[n.cmap or 0].get(key))
            if n.kind == "grid":
                play.add(self.mmodel[0].get(key))
        return play

    def press(self, col, row):
        del self.log[:]
        self.guarded(lambda: self.root.w.mouse_event(self.size(), "mouse press", 1, col, row, True), "mouse_event")

    def op_click(self, op):
        """["click", x, y]: button-1 press at a cell given as hundredths of the canvas drawn last"""
        rows = getattr(self, "canvas_rows", self.rows)
        if rows <= 0:
            return
        self.press(int(op[1]) % 100 * self.cols // 100, int(op[2]) % 100 * rows // 100)

    def op_press(self, op):
        """["press", col, row]: button-1 press at that very cell (modulo the size of the canvas drawn last)"""
        rows = getattr(self, "canvas_rows", self.rows)
        if rows <= 0:
            return
        self.press(int(op[1]) % self.cols, int(op[2]) % rows)
        self.count("press:cell")

    # key bindings ---------------------------------------------------------------------------
    def op_cmap(self, op):
        """["cmap", how, container | None, source]: a second (third ...) command map comes into being and / or a
        container is told to use one.  how 0: ``CommandMap()``; 1: ``maps[source].copy()``; 2: the existing map
        ``maps[source]`` itself (then used by two containers); 3: the shared map again.  container None: the map is
        used by no widget of the tree (it belongs to some other part of the application)."""
        how = int(op[1]) % 4
        target = None if op[2] is None else self.pick(self.containers(), op[2])
        src = int(op[3]) % len(self.maps)
        if how >= 2:
            if target is None:
                return
            ix = src if how == 2 else 0
        else:
            if len(self.maps) >= MAX_MAPS:
                self.count("cmap:skipped-enough-maps")
                return
            if how == 0:
                self.maps.append(urwid.CommandMap())
                self.mmodel.append(dict(DEFAULT_BINDINGS))
            else:
                self.maps.append(self.maps[src].copy())
                self.mmodel.append(dict(self.mmodel[src]))
            ix = len(self.maps) - 1
        if target is not None:
            target.w._command_map = self.maps[ix]  # "May be redefined in subclasses or widget instances"
            target.cmap = ix or None
        self.count(f"cmap:{('new', 'copy', 'same-object', 'shared-again')[how]}:{'unused' if target is None else target.kind}")

    def op_bind(self, op):
        """["bind", map, variant, key, command, spelled]: variant 0 ``map[key] = command`` (spelled 0: the Command
        member, 1: its plain string, both documented value types); 1 ``del map[key]`` (a bound key only);
        2 ``map.clear_command(command)``"""
        mi = int(op[1]) % len(self.maps)
        variant = int(op[2]) % 3
        key = op[3]
        if key not in ALL_KEYS:
            return
        cmd = BINDABLE[int(op[4]) % len(BINDABLE)]
        value = cmd.value if int(op[5]) % 2 else cmd
        real, model = self.maps[mi], self.mmodel[mi]
        if variant == 0:
            real[key] = value
            model[key] = cmd
        elif variant == 1:
            if key not in model:
                self.count("bind:skipped-unbound")
                return
            del real[key]
            del model[key]
        else:
            real.clear_command(value)
            for k in [k for k, v in model.items() if v == cmd]:
                del model[k]
        self.count(f"bind:{('set', 'del', 'clear_command')[variant]}:{'shared' if mi == 0 else 'own'}")

    def op_cmreset(self, op):
        """["cmreset", map]: ``map.restore_defaults()``"""
        mi = int(op[1]) % len(self.maps)
        self.maps[mi].restore_defaults()
        self.mmodel[mi] = dict(DEFAULT_BINDINGS)
        self.count(f"cmreset:{'shared' if mi == 0 else 'own'}")

    def bad_value(self, node, k):
        """an invalid position *of the position type* (type hints: int for the list-like containers and the
        list walkers, one of the part names for Frame).  Values of another type (None, 'x', 0.5) are outside
        the documented input domain: MonitoredFocusList answers them with a deliberate TypeError, so demanding
        IndexError for them would over-read "assigning an invalid position raises IndexError"."""
        k = int(k) % 4
        if node.kind == "frame":
            return ("x", "", "Body", "head")[k]
        return (99, -99, 1000, -7)[k]

    def op_focus(self, op):
        node = self.pick(self.containers(), op[1])
        if node is None:
            return
        how, arg = op[2][0], op[2][1]
        valid = self.positions(node)
        if how == "v":
            p = valid[int(arg) % len(valid)] if valid else 0
        elif how == "i":
            p = int(arg)
        else:
            p = self.bad_value(node, arg)
        is_valid = self.valid_position(node, p)
        snap = self.snapshot()
        try:
            node.w.focus_position = p
        except IndexError:
            if is_valid:
                raise
            if self.snapshot() != snap:
                self.report(
                    Violation("invalid-assign-changes-nothing", f"{node.label()}: focus_position = {p!r} raised IndexError but the focus changed")
                )
            self.count("focus:invalid")
            return
        except Exception as e:  # noqa: BLE001
            if is_valid:
                raise
            self.report(
                Violation(
                    "invalid-assign-indexerror",
                    f"kind={node.kind} value_type={type(p).__name__} raised={type(e).__name__}: "
                    f"{node.label()}: focus_position = {p!r} raised {e!r}, documented IndexError",
                )
            )
            if self.snapshot() != snap:
                self.report(Violation("invalid-assign-changes-nothing", f"{node.label()}: failed focus_position = {p!r} changed the focus"))
            self.count("focus:invalid")
            return
        if not is_valid:
            self.report(
                Violation(
                    "invalid-assign-indexerror",
                    f"kind={node.kind} value_type={type(p).__name__} raised=None: "
                    f"{node.label()}: focus_position = {p!r} was accepted; valid positions {valid}",
                )
            )
            return
        got = node.w.focus_position
        if got != p:
            self.report(Violation("assign-takes-effect", f"{node.label()}: focus_position = {p!r}, reads back {got!r}"))
        self.count("focus:valid")

    def make_path(self, kind, picks, bad):
        node = self.root
        p = []
        for x in picks:
            if node.kind == "p":
                break
            valid = self.positions(node)
            if kind == 3 and node.kind in LISTK:
                pos = int(x)
            elif not valid:
                break
            else:
                pos = valid[int(x) % len(valid)]
            p.append(pos)
            if not self.valid_position(node, pos):
                return p
            node = self.child_at(node, pos)
        if kind == 1:
            p.append(self.bad_value(node, bad) if int(bad) % 5 else 99)
        elif kind == 2:
            # walk to a leaf along the current focus, then one step more
            while node.kind != "p" and self.positions(node):
                pos = self.positions(node)[0]
                p.append(pos)
                node = self.child_at(node, pos)
            p.append(0)
        return p

    def set_path(self, p, label):
        ok_path = self.walkable(p)
        root = self.root.w
        try:
            root.set_focus_path(list(p))
        except IndexError:
            if ok_path:
                raise
            self.count(f"{label}:invalid")
            return
        except Exception as e:  # noqa: BLE001
            if ok_path:
                raise
            # which container rejected which value
            node, bad = self.root, None
            for pos in p:
                if not self.valid_position(node, pos):
                    bad = pos
                    break
                node = self.child_at(node, pos)
            right_type = isinstance(bad, str) if node.kind == "frame" else (isinstance(bad, int) and not isinstance(bad, bool))
            if not right_type:
                # a position of another container's type (a saved path applied after the tree changed shape):
                # outside the documented input domain, see bad_value()
                self.count(f"{label}:foreign-position-type")
                return
            self.report(
                Violation(
                    "invalid-assign-indexerror",
                    f"kind={node.kind} value_type={type(bad).__name__} raised={type(e).__name__}: "
                    f"set_focus_path({p!r}) raised {e!r}, documented IndexError",
                )
            )
            self.count(f"{label}:invalid")
            return
        if not ok_path:
            self.report(
                Violation(
                    "invalid-assign-indexerror",
                    f"kind=path value_type=list raised=None: set_focus_path({p!r}) was accepted but the path cannot be walked",
                )
            )
            return
        got = root.get_focus_path()
        if got[: len(p)] != list(p):
            self.report(Violation("path-restores-focus", f"set_focus_path({p!r}) then get_focus_path() == {got!r}"))
        self.count(f"{label}:valid")
        return got

    def op_path(self, op):
        if self.root.kind == "p":
            return
        p = self.make_path(int(op[1]) % 4, op[2], op[3])
        self.set_path(p, "path")

    def op_save(self, op):
        if self.root.kind == "p":
            return
        self.saved = self.root.w.get_focus_path()
        self.saved_gen = self.gen

    def op_restore(self, op):
        if self.saved is None or self.root.kind == "p":
            return
        got = self.set_path(self.saved, "restore")
        if got is not None and self.saved_gen == self.gen and got != self.saved:
            self.report(
                Violation(
                    "path-restores-focus",
                    f"p = get_focus_path() = {self.saved!r}; moves only; set_focus_path(p); get_focus_path() == {got!r}",
                )
            )

    # contents edits -----------------------------------------------------------------------
    def list_containers(self):
        return [n for n in self.containers() if n.kind in LISTK]

    def real_list(self, node):
        return node.w.body if node.kind == "lb" else node.w.contents

    def new_items(self, parent, items, limit=4):
        """build (node, real item) pairs for insertion into parent"""
        built = []
        for it in list(items)[:limit]:
            cmode, slot, amt, box = self.child_plan(parent.kind, parent.mode, it)
            node = self.realize(it.get("n", {"k": "p"}), cmode)
            node.slot = slot
            real = node.w if parent.kind == "lb" else (node.w, self.item_options(parent, slot, amt, box))
            built.append((node, real))
        return built

    @staticmethod
    def admissible(parent, kids):
        """documented preconditions that must survive the edit"""
        if not kids:
            return True
        if parent.kind == "pile" and parent.mode == "B":
            return any(k.slot == "w" for k in kids)
        if parent.kind == "cols" and parent.mode == "F":
            return any(k.mode == "F" for k in kids)
        return True

    def edit(self, parent, a, b, items, how):
        """contents[a:b] = items on model and real container"""
        built = self.new_items(parent, items)
        kids = list(parent.kids)
        kids[a:b] = [x[0] for x in built]
        if not self.admissible(parent, kids) or len(kids) > 8:
            self.count("edit:skipped-precondition")
            return False
        real = self.real_list(parent)
        new_real = [x[1] for x in built]
        if how == "insert":
            real.insert(a, new_real[0])
        elif how == "del":
            del real[a]
        elif how == "del-neg":  # the same item addressed from the end
            del real[a - len(real)]
        elif how == "pop":
            real.pop() if a == len(real) - 1 else real.pop(a)
        elif how == "clear":
            real.clear()
        elif how == "assign":
            parent.w.contents = new_real
        else:
            real[a:b] = new_real
        parent.kids = kids
        self.gen += 1
        return True

    def op_ins(self, op):
        parent = self.pick(self.list_containers(), op[1])
        if parent is None:
            return
        i = int(op[2]) % (len(parent.kids) + 1)
        self.edit(parent, i, i, [op[3]], "insert")

    def op_del(self, op):
        parent = self.pick(self.list_containers(), op[1])
        if parent is None or not parent.kids:
            return
        i = int(op[2]) % len(parent.kids)
        how = ("del", "del-neg", "pop")[int(op[2]) // len(parent.kids) % 3]
        self.edit(parent, i, i + 1, [], how)

    def op_slice(self, op):
        parent = self.pick(self.list_containers(), op[1])
        if parent is None:
            return
        n = len(parent.kids)
        a, b = sorted((int(op[2]) % (n + 1), int(op[3]) % (n + 1)))
        self.edit(parent, a, b, op[4], "slice")

    def op_clear(self, op):
        parent = self.pick(self.list_containers(), op[1])
        if parent is None:
            return
        self.edit(parent, 0, len(parent.kids), [], "clear")

    def edit_slice(self, parent, slc, items, delete):
        """``del contents[slc]`` / ``contents[slc] = items`` for an arbitrary Python slice object (any
        sign of start/stop/step, None, out of range) on the model - a plain list, so the list semantics
        of Python itself are the oracle - and on the real container."""
        built = [] if delete else self.new_items(parent, items, limit=8)
        kids = list(parent.kids)
        if delete:
            del kids[slc]
        else:
            kids[slc] = [x[0] for x in built]
        if not self.admissible(parent, kids) or len(kids) > 8:
            self.count("edit:skipped-precondition")
            return False
        real = self.real_list(parent)
        if delete:
            del real[slc]
        else:
            real[slc] = [x[1] for x in built]
        parent.kids = kids
        self.gen += 1
        return True

    def op_xslice(self, op):
        """["xslice", container, start, stop, step, how, items]: start/stop/step as written by the caller
        (None or any int, step != 0); how 0 = del, 1 = assignment.  An extended slice (step other than
        None/1) can only be assigned exactly as many items as it covers (list semantics), so the item
        specs are cycled to that number; an ordinary slice takes the items as given."""
        parent = self.pick(self.list_containers(), op[1])
        if parent is None:
            return
        start, stop, step = (None if x is None else int(x) for x in op[2:5])
        if step == 0:
            step = None
        slc = slice(start, stop, step)
        delete = int(op[5]) % 2 == 0
        specs = list(op[6]) if len(op) > 6 else []
        if not delete and step not in (None, 1):
            need = len(range(*slc.indices(len(parent.kids))))
            specs = [(specs or [{}])[i % max(1, len(specs))] for i in range(need)]
        else:
            specs = specs[:4]
        if self.edit_slice(parent, slc, specs, delete):
            sign = "0" if step is None else ("+" if step > 0 else "-")
            self.count(f"xslice:{'del' if delete else 'set'}:step{sign}{'' if step is None else min(abs(step), 2)}")

    def op_add(self, op):
        """["add", container, variant, index, items]: the other ways a list grows - append, extend,
        ``+=``, insert with a negative index or an index beyond the end"""
        parent = self.pick(self.list_containers(), op[1])
        if parent is None:
            return
        n = len(parent.kids)
        variant = int(op[2]) % 4
        specs = list(op[4])[:2] or [{}]
        if variant in (0, 3):
            specs = specs[:1]
        a = n if variant < 3 else int(op[3]) % (n + 1)
        built = self.new_items(parent, specs)
        kids = list(parent.kids)
        kids[a:a] = [x[0] for x in built]
        if not self.admissible(parent, kids) or len(kids) > 8:
            self.count("edit:skipped-precondition")
            return
        real = self.real_list(parent)
        new_real = [x[1] for x in built]
        if variant == 0:
            real.append(new_real[0])
        elif variant == 1:
            real.extend(new_real)
        elif variant == 2:
            real += new_real  # in place: MonitoredList.__iadd__
        else:
            # list.insert: a negative index counts from the end, an index > len appends
            real.insert(a - n if a < n else n + 1 + int(op[3]) % 3, new_real[0])
        parent.kids = kids
        self.gen += 1
        self.count(f"add:{('append', 'extend', 'iadd', 'insert-neg-or-beyond')[variant]}")

    def op_rem(self, op):
        """["rem", container, index, variant]: remove(value) / pop with a negative index"""
        parent = self.pick(self.list_containers(), op[1])
        if parent is None or not parent.kids:
            return
        n = len(parent.kids)
        a = int(op[2]) % n
        kids = list(parent.kids)
        del kids[a]
        if not self.admissible(parent, kids):
            self.count("edit:skipped-precondition")
            return
        real = self.real_list(parent)
        if int(op[3]) % 2 == 0:
            real.remove(real[a])  # children are distinct objects: the first equal item is item a
        else:
            real.pop(a - n)
        parent.kids = kids
        self.gen += 1
        self.count("rem:remove" if int(op[3]) % 2 == 0 else "rem:pop-neg")

    def op_whole(self, op):
        """["whole", container, variant]: in-place whole-list edits - reverse(), ``*= 1``, ``*= 0``"""
        parent = self.pick(self.list_containers(), op[1])
        if parent is None:
            return
        variant = int(op[2]) % 3
        real = self.real_list(parent)
        if variant == 0:
            real.reverse()
            parent.kids = list(reversed(parent.kids))
        elif variant == 1:
            real *= 1
        else:
            real *= 0
            parent.kids = []
        self.gen += 1
        self.count(f"whole:{('reverse', 'imul1', 'imul0')[variant]}")

    def op_setall(self, op):
        parent = self.pick(self.list_containers(), op[1])
        if parent is None:
            return
        how = "assign" if (int(op[3]) % 2 and parent.kind != "lb") else "slice"
        if not self.edit(parent, 0, len(parent.kids), op[2], how):
            return
        if parent.kind in ("pile", "cols", "grid"):
            want = any(k.w.selectable() for k in parent.kids)
            got = parent.w.selectable()
            if bool(got) != want:
                self.report(
                    Violation(
                        "selectable-after-set",
                        f"kind={parent.kind}: contents set to {len(parent.kids)} children "
                        f"(selectable: {[bool(k.w.selectable()) for k in parent.kids]}), selectable() == {got!r}",
                    )
                )
            self.count(f"setall:{parent.kind}")

    def op_part(self, op):
        frames = [n for n in self.containers() if n.kind == "frame"]
        frame = self.pick(frames, op[1])
        if frame is None:
            return
        which = "header" if int(op[2]) % 2 == 0 else "footer"
        how = int(op[3]) % 4
        spec = op[4]
        w = frame.w
        if spec is None or how >= 2:
            if how == 3 and frame.kids[which] is not None:
                del w.contents[which]
            else:
                setattr(w, which, None)
            frame.kids[which] = None
            self.count("part:remove")
        else:
            node = self.realize(spec, "F")
            if how == 0:
                setattr(w, which, node.w)
            else:
                w.contents[which] = (node.w, w.options())
            frame.kids[which] = node
            self.count("part:replace")
        self.gen += 1

    def op_resize(self, op):
        self.cols = 6 + int(op[1]) % 35
        self.rows = 3 + int(op[2]) % 18

    def count(self, label):
        stat(label)

    def run(self):
        with warnings.catch_warnings(record=True) as wlist:
            warnings.simplefilter("always")
            self.wlist = wlist
            self.root = self.realize(self.case["tree"], self.mode)
            self.after_op()  # the screen is drawn before any input arrives
            for op in self.case["ops"]:
                fn = getattr(self, "op_" + str(op[0]), None)
                if fn is None:
                    continue
                fn(op)
                self.after_op()
        if self.deferred:
            raise self.deferred[0]


def check_ops(case):
    use_encoding("utf-8")
    urwid.CanvasCache.clear()
    reset_shared_map()
    try:
        Harness(case).run()
    finally:
        reset_shared_map()


SUBS = {"ops": check_ops}


# ---------------------------------------------------------------------------------------------
# strategies

_keys = st.lists(st.sampled_from(ALL_KEYS), max_size=3, unique=True)
_deco = st.sampled_from([[], [], [], [], ["pad"], ["attr"], ["adapt"], ["pad", "attr"], ["attr", "pad"], ["adapt", "pad"]])
_w = st.integers(1, 3).map(lambda n: ["w", n])
_g = st.integers(1, 4).map(lambda n: ["g", n])
_gw = st.integers(1, 8).map(lambda n: ["g", n])
_k = st.just(["k"])
_passive = {
    "k": st.just("p"),
    "sel": st.sampled_from([1, 1, 1, 0]),
    "keys": _keys,
    "rows": st.sampled_from([1, 1, 2]),
    "cur": st.sampled_from([0, 0, 1]),
    "deco": _deco,
    "padl": st.integers(0, 2),
}


def _react_ops():
    """what a reactive leaf does to the tree from inside its keypress(): 1..2 focus assignments / contents edits
    (the children it adds are passive probes)"""
    ci = st.integers(0, 11)
    idx = st.integers(0, 23)
    item = st.fixed_dictionaries(
        {"o": st.one_of(_w, _w, _g, _k), "box": st.sampled_from([0, 0, 1]), "n": st.fixed_dictionaries(_passive)}
    )
    bound = st.one_of(st.none(), st.integers(-5, 5))
    op = st.one_of(
        st.tuples(st.just("focus"), ci, st.tuples(st.sampled_from(["v", "v", "i"]), st.integers(0, 5)).map(list)),
        st.tuples(st.just("path"), st.integers(0, 3), st.lists(st.integers(0, 5), max_size=4), st.integers(0, 4)),
        st.tuples(st.just("ins"), ci, idx, item),
        st.tuples(st.just("del"), ci, idx),
        st.tuples(st.just("del"), ci, idx),
        st.tuples(st.just("slice"), ci, idx, idx, st.lists(item, max_size=2)),
        st.tuples(st.just("setall"), ci, st.lists(item, max_size=3), st.integers(0, 1)),
        st.tuples(st.just("clear"), ci),
        st.tuples(st.just("xslice"), ci, bound, bound, st.sampled_from([None, 1, 2, -1]), st.integers(0, 1), st.lists(item, max_size=2)),
        st.tuples(st.just("add"), ci, st.integers(0, 3), idx, st.lists(item, min_size=1, max_size=2)),
        st.tuples(st.just("rem"), ci, idx, st.integers(0, 1)),
        st.tuples(st.just("whole"), ci, st.sampled_from([0, 0, 1, 2])),
        st.tuples(st.just("part"), ci, st.integers(0, 1), st.integers(0, 3), st.one_of(st.none(), st.fixed_dictionaries(_passive))),
    ).map(list)
    return st.lists(op, min_size=1, max_size=2)


# one selectable leaf in five is an application widget: its keypress() edits the tree it sits in (on up to three
# keys, mostly arrows, the first one or two times it is offered one of them) and returns the key handled or not
_probe = st.one_of(
    st.fixed_dictionaries(_passive),
    st.fixed_dictionaries(_passive),
    st.fixed_dictionaries(_passive),
    st.fixed_dictionaries(_passive),
    st.fixed_dictionaries(
        {
            **_passive,
            "sel": st.just(1),
            "react": _react_ops(),
            "ron": st.lists(st.sampled_from(ALL_KEYS + ["up", "down", "left", "right"] * 2), min_size=1, max_size=3, unique=True),
            "rn": st.integers(1, 2),
        }
    ),
)
_focus = st.one_of(st.none(), st.integers(0, 4))


def _kids(item, max_n=4):
    return st.one_of(st.lists(item, min_size=0, max_size=max_n), st.lists(item, min_size=2, max_size=max_n))


@functools.lru_cache(maxsize=None)
def flow_node(depth):
    if depth <= 0:
        return _probe
    fl, bx = flow_node(depth - 1), box_node(depth - 1)
    pile_item = st.one_of(
        st.fixed_dictionaries({"o": st.one_of(_w, _k), "n": fl}),
        st.fixed_dictionaries({"o": st.one_of(_w, _k), "n": fl}),
        st.fixed_dictionaries({"o": _g, "n": bx}),
    )
    cols_item = st.one_of(
        st.fixed_dictionaries({"o": st.one_of(_w, _w, _gw, _k), "box": st.just(0), "n": fl}),
        st.fixed_dictionaries({"o": st.one_of(_w, _w, _gw, _k), "box": st.just(0), "n": fl}),
        st.fixed_dictionaries({"o": st.one_of(_w, _gw), "box": st.just(1), "n": bx}),
    )
    pile = st.fixed_dictionaries({"k": st.just("pile"), "c": _kids(pile_item), "focus": _focus})
    cols = st.fixed_dictionaries({"k": st.just("cols"), "c": _kids(cols_item), "div": st.integers(0, 1), "focus": _focus})
    grid = st.fixed_dictionaries(
        {
            "k": st.just("grid"),
            "c": _kids(st.fixed_dictionaries({"n": fl}), 5),
            "cw": st.integers(0, 1),
            "hs": st.integers(0, 1),
            "vs": st.integers(0, 1),
            "al": st.integers(0, 2),
            "focus": _focus,
        }
    )
    return st.one_of(_probe, pile, cols, grid, grid)


@functools.lru_cache(maxsize=None)
def box_node(depth):
    if depth <= 0:
        return _probe
    fl, bx = flow_node(depth - 1), box_node(depth - 1)
    pile_item = st.one_of(
        st.fixed_dictionaries({"o": _w, "n": bx}),
        st.fixed_dictionaries({"o": _g, "n": bx}),
        st.fixed_dictionaries({"o": _k, "n": fl}),
        st.fixed_dictionaries({"o": _k, "n": fl}),
    )
    cols_item = st.fixed_dictionaries({"o": st.one_of(_w, _w, _gw), "n": bx})
    pile = st.fixed_dictionaries({"k": st.just("pile"), "c": _kids(pile_item), "focus": _focus})
    cols = st.fixed_dictionaries({"k": st.just("cols"), "c": _kids(cols_item), "div": st.integers(0, 1), "focus": _focus})
    frame = st.fixed_dictionaries(
        {
            "k": st.just("frame"),
            "body": bx,
            "hdr": st.one_of(st.none(), fl),
            "ftr": st.one_of(st.none(), fl),
            "fp": st.sampled_from(["body", "body", "header", "footer"]),
        }
    )
    over = st.fixed_dictionaries(
        {
            "k": st.just("over"),
            "top": st.one_of(fl, bx),
            "bot": bx,
            "al": st.integers(0, 2),
            "va": st.integers(0, 2),
            "w": st.one_of(st.integers(0, 7).map(lambda n: ["g", n]), st.integers(0, 80).map(lambda n: ["r", n])),
            "h": st.one_of(_k, st.integers(0, 5).map(lambda n: ["g", n]), st.integers(0, 80).map(lambda n: ["r", n])),
        }
    )
    lb = st.fixed_dictionaries(
        {"k": st.just("lb"), "c": _kids(st.fixed_dictionaries({"n": fl}), 5), "walker": st.sampled_from(["s", "f"])}
    )
    return st.one_of(_probe, pile, cols, frame, over, lb, lb)


def _item(depth):
    """an item for insertion: the target container is only known at run time, realize() coerces"""
    node = st.one_of(_probe, _probe, flow_node(depth), box_node(depth))
    return st.fixed_dictionaries({"o": st.one_of(_w, _w, _g, _k), "box": st.sampled_from([0, 0, 1]), "n": node})


def _ops(max_ops, item_depth):
    ci = st.integers(0, 11)
    idx = st.integers(0, 23)
    item = _item(item_depth)
    posval = st.one_of(
        st.tuples(st.just("v"), st.integers(0, 5)),
        st.tuples(st.just("v"), st.integers(0, 5)),
        st.tuples(st.just("i"), st.integers(-2, 7)),
        st.tuples(st.just("t"), st.integers(0, 3)),
    ).map(list)
    key = st.tuples(st.just("key"), st.sampled_from(ALL_KEYS + ["up", "down", "left", "right"] * 2))
    # a slice bound / step as a caller may write it: omitted, counted from either end, beyond either end
    bound = st.one_of(st.none(), st.integers(-10, 10))
    step = st.sampled_from([None, 1, 2, 3, -1, -2, -3])
    op = st.one_of(
        key,
        key,
        key,
        key,
        st.tuples(st.just("click"), st.integers(0, 99), st.integers(0, 99)),
        st.tuples(st.just("focus"), ci, posval),
        st.tuples(st.just("path"), st.integers(0, 3), st.lists(st.integers(0, 5), max_size=5), st.integers(0, 4)),
        st.tuples(st.just("ins"), ci, idx, item),
        st.tuples(st.just("del"), ci, idx),
        st.tuples(st.just("slice"), ci, idx, idx, st.lists(item, max_size=2)),
        st.tuples(st.just("setall"), ci, st.lists(item, max_size=3), st.integers(0, 1)),
        st.tuples(st.just("clear"), ci),
        st.tuples(st.just("xslice"), ci, bound, bound, step, st.integers(0, 1), st.lists(item, max_size=2)),
        st.tuples(st.just("xslice"), ci, bound, bound, step, st.integers(0, 1), st.lists(item, max_size=2)),
        st.tuples(st.just("add"), ci, st.integers(0, 3), idx, st.lists(item, min_size=1, max_size=2)),
        st.tuples(st.just("rem"), ci, idx, st.integers(0, 1)),
        st.tuples(st.just("whole"), ci, st.sampled_from([0, 0, 1, 2])),
        st.tuples(st.just("part"), ci, st.integers(0, 1), st.integers(0, 3), st.one_of(st.none(), flow_node(item_depth))),
        st.tuples(st.just("resize"), st.integers(0, 34), st.integers(0, 17)),
        st.tuples(st.just("save")),
        st.tuples(st.just("restore")),
        st.tuples(st.just("press"), st.integers(0, 40), st.integers(0, 20)),
        st.tuples(st.just("cmap"), st.integers(0, 3), st.one_of(st.none(), ci), st.integers(0, MAX_MAPS - 1)),
        st.tuples(
            st.just("bind"),
            st.integers(0, MAX_MAPS - 1),
            st.sampled_from([0, 0, 1, 2]),
            st.sampled_from(ALL_KEYS),
            st.integers(0, len(BINDABLE) - 1),
            st.integers(0, 1),
        ),
        st.tuples(st.just("cmreset"), st.integers(0, MAX_MAPS - 1)),
    ).map(list)
    # the length is drawn first so that long histories are as likely as short ones
    return st.integers(1, max_ops).flatmap(lambda n: st.lists(op, min_size=n, max_size=n))


def _root(depth):
    bx, fl = box_node(depth), flow_node(depth)
    # a container at the root (a lone probe is a legal but dull case)
    return st.one_of(
        st.tuples(st.just("B"), bx.filter(lambda s: s["k"] != "p")),
        st.tuples(st.just("B"), bx.filter(lambda s: s["k"] != "p")),
        st.tuples(st.just("F"), fl.filter(lambda s: s["k"] != "p")),
    )


def case_strategy(depth, max_ops):
    return st.builds(
        lambda root, cols, rows, ops: {"tree": root[1], "mode": root[0], "size": [cols, rows], "ops": ops},
        _root(depth),
        st.integers(8, 40),
        st.integers(4, 20),
        _ops(max_ops, 1),
    )


# ---------------------------------------------------------------------------------------------
# evidence helpers

MUTATIONS = {"ins", "del", "slice", "setall", "clear", "part", "xslice", "add", "rem", "whole"}


def _levels(spec):
    if not isinstance(spec, dict) or spec.get("k", "p") == "p":
        return 0
    kids = []
    for it in spec.get("c", []):
        kids.append(it.get("n"))
    for key in ("body", "hdr", "ftr", "top", "bot"):
        if spec.get(key):
            kids.append(spec[key])
    return 1 + max([_levels(k) for k in kids] or [0])


def _kinds(spec, out):
    if not isinstance(spec, dict):
        return out
    out.add(spec.get("k", "p"))
    for it in spec.get("c", []):
        _kinds(it.get("n"), out)
    for key in ("body", "hdr", "ftr", "top", "bot"):
        if spec.get(key):
            _kinds(spec[key], out)
    return out


def nontrivial(case):
    if _levels(case["tree"]) < 2:
        return False
    seen_mut = False
    for op in case["ops"]:
        if op[0] in MUTATIONS:
            seen_mut = True
        elif op[0] == "key" and seen_mut:
            return True
    return False


def classify(case):
    out = [f"root:{case['mode']}:{case['tree'].get('k')}", f"levels:{_levels(case['tree'])}"]
    out += [f"has:{k}" for k in sorted(_kinds(case["tree"], set()))]
    out += [f"op:{k}" for k in sorted({op[0] for op in case["ops"]})]
    if '"react": [[' in _json.dumps(case):
        out.append("has:reactive-leaf")
    for op in case["ops"]:
        if op[0] == "focus":
            out.append(f"focus-arg:{op[2][0]}")
        elif op[0] == "path":
            out.append(f"path-kind:{int(op[1]) % 4}")
        elif op[0] == "xslice":
            stp = op[4]
            out.append(f"xslice:{'del' if int(op[5]) % 2 == 0 else 'set'}:{'step-neg' if (stp or 1) < 0 else ('step-ext' if (stp or 1) > 1 else 'step-1')}")
    return sorted(set(out))


SWEEP_KINDS = ("pile", "cols", "grid", "lb-s", "lb-f")
SWEEP_STEPS = (None, 1, 2, 3, -1, -2, -3)


def _sweep_probe(i):
    # child 1 is unselectable, the others selectable; none handles a key
    return {"k": "p", "sel": int(i != 1), "keys": [], "rows": 1}


def slice_sweep_cases(max_n):
    """Every list-like container kind x 1..max_n children x every focus position x every spelling of
    a slice (start, stop in {None} + [-(n+1), n+1]: omitted, from either end, one beyond either end;
    step in {None, +-1, +-2, +-3}) x {del, assignment}.  An ordinary slice is assigned 0, 1 and 2 new
    children, an extended slice the number it covers.  History: container built with focus f (ListBox:
    walker.set_focus(f)); the edit; one arrow key."""
    new = [{"o": ["w", 1], "n": {"k": "p", "sel": 1, "keys": [], "rows": 1}}, {"o": ["w", 1], "n": {"k": "p", "sel": 0, "keys": [], "rows": 1}}]
    for kind in SWEEP_KINDS:
        mode = "F" if kind == "grid" else "B"
        key = "right" if kind in ("cols", "grid") else "down"
        for n in range(1, max_n + 1):
            bounds = [None, *range(-(n + 1), n + 2)]
            for f in range(n):
                spec = {"k": kind.split("-")[0], "c": [{"o": ["w", 1], "n": _sweep_probe(i)} for i in range(n)], "focus": f}
                if kind.startswith("lb"):
                    spec["walker"] = kind[-1]
                for start in bounds:
                    for stop in bounds:
                        for step in SWEEP_STEPS:
                            variants = [(0, [])]
                            if step in (None, 1):
                                variants += [(1, new[:k]) for k in (0, 1, 2)]
                            else:
                                variants.append((1, new))
                            for how, items in variants:
                                yield {
                                    "tree": spec,
                                    "mode": mode,
                                    "size": [12, 6],
                                    "ops": [["xslice", 0, start, stop, step, how, items], ["key", key]],
                                }


def _sweep_nontrivial(case):
    """the edit changes the list: the slice covers a child or children are assigned"""
    op = case["ops"][0]
    return bool(op[6]) or len(range(*slice(op[2], op[3], op[4]).indices(len(case["tree"]["c"])))) > 0


def _sweep_classify(case):
    op = case["ops"][0]
    stp = op[4]
    return [
        f"sweep:{case['tree']['k']}:n={len(case['tree']['c'])}",
        f"sweep:{'del' if op[5] == 0 else 'set'}:{'step-neg' if (stp or 1) < 0 else ('step-ext' if (stp or 1) > 1 else 'step-1')}",
    ]


# ---- sweep 2: every arrow key at every two-level nest --------------------------------------------------------

ENTRY_DECOS = ([], ["pad"], ["attr"], ["adapt"])
ARROW_KEYS = ("up", "down", "left", "right")


def _leaf_variants():
    """every kind of leaf: unselectable / selectable / selectable with the cursor protocol x bare or inside one
    decoration (Padding, AttrMap, sizing-mode adapter); none handles a key"""
    out = []
    for sel, cur in ((0, 0), (1, 0), (1, 1)):
        for deco in ENTRY_DECOS:
            out.append({"k": "p", "sel": sel, "keys": [], "rows": 1, "cur": cur, "deco": list(deco), "padl": 1})
    return out


def _listlike_spec(kind, items, focus):
    """a list-like container of the given leaf/sub-container specs, every child with the default option"""
    if kind == "pile":
        return {"k": "pile", "c": [{"o": ["w", 1], "n": n} for n in items], "focus": focus}
    if kind == "cols":
        return {"k": "cols", "c": [{"o": ["w", 1], "box": 0, "n": n} for n in items], "div": 0, "focus": focus}
    if kind == "grid":
        return {"k": "grid", "c": [{"n": n} for n in items], "cw": 1, "hs": 0, "vs": 0, "al": 0, "focus": focus}
    return {"k": "lb", "c": [{"n": n} for n in items], "walker": kind[-1], "focus": focus}


def entry_sweep_cases(max_n, outers=("pile", "cols", "lb-s", "lb-f")):
    """Every two-level nest: outer Pile / Columns / ListBox (over the given walkers) holding one plain selectable leaf
    (bare or with the cursor protocol) that has the focus and, before or after it, an inner Pile / Columns /
    GridFlow of 1..max_n leaves, over every tuple of leaf variants (see _leaf_variants), x every arrow key.  The
    inner container is built without a focus argument (the constructors pick the first selectable child)."""
    import itertools

    variants = _leaf_variants()
    for outer in outers:
        mode = "B" if outer.startswith("lb") else "F"
        for inner in ("pile", "cols", "grid"):
            for n in range(1, max_n + 1):
                for leaves in itertools.product(variants, repeat=n):
                    inner_spec = _listlike_spec(inner, [dict(x) for x in leaves], None)
                    for scur in (0, 1):
                        sib = {"k": "p", "sel": 1, "keys": [], "rows": 1, "cur": scur, "deco": [], "padl": 0}
                        for first in (0, 1):
                            items = [sib, inner_spec] if first == 0 else [inner_spec, sib]
                            tree = _listlike_spec(outer, items, first)
                            for key in ARROW_KEYS:
                                yield {"tree": tree, "mode": mode, "size": [12, 6], "ops": [["key", key]]}


def _entry_nontrivial(case):
    """the inner container has a selectable and an unselectable child, or a decorated one"""
    inner = [it["n"] for it in case["tree"]["c"] if it["n"]["k"] != "p"][0]
    leaves = [it["n"] for it in inner["c"]]
    return len({x["sel"] for x in leaves}) == 2 or any(x["deco"] for x in leaves)


def _entry_classify(case):
    inner = [it["n"] for it in case["tree"]["c"] if it["n"]["k"] != "p"][0]
    out = [f"entry:{case['tree']['k']}>{inner['k']}:n={len(inner['c'])}"]
    out += [f"entry:leaf:sel={x['sel']}:cur={x['cur']}:deco={'+'.join(x['deco']) or '-'}" for x in (it["n"] for it in inner["c"])]
    return sorted(set(out))


# ---- sweep 3: focus changes in a container that is too small to show all of its children -------------------------


def overfull_sweep_cases(max_n):
    """Every list-like container kind at a size that cannot show all of its 2..max_n children (box Columns and
    flow Columns of ('given', 3) columns in 7 or 4 cells, box Pile of ('given', 2) rows in 3 or 2 rows, GridFlow
    whose cells wrap, ListBox over either walker with more rows than fit), built with focus f0, then
    (a) focus := f1 ; a character ; focus := f2 ; a character - for every (f0, f1, f2), the focus being written
        by assignment or by set_focus_path, or
    (b) k times the same arrow key along the container's axis (k = 1..n-1, both directions), then a character."""
    shapes = (
        ("cols", "B", ["g", 3]),
        ("cols", "F", ["g", 3]),
        ("pile", "B", ["g", 2]),
        ("grid", "F", None),
        ("lb-s", "B", None),
        ("lb-f", "B", None),
    )
    for kind, mode, opt in shapes:
        axis = ("left", "right") if kind in ("cols", "grid") else ("up", "down")
        for n in range(2, max_n + 1):
            leaves = [{"k": "p", "sel": int(i != 1), "keys": ["x"], "rows": 1, "cur": int(i == 2)} for i in range(n)]
            for size in ([7, 3], [4, 2]):
                for f0 in range(n):
                    tree = _listlike_spec(kind, leaves, f0)
                    if opt is not None:
                        for it in tree["c"]:
                            it["o"] = list(opt)
                    for f1 in range(n):
                        for f2 in range(n):
                            for how in (0, 1):
                                w1 = ["focus", 0, ["v", f1]] if how == 0 else ["path", 0, [f1], 0]
                                w2 = ["focus", 0, ["v", f2]] if how == 0 else ["path", 0, [f2], 0]
                                yield {"tree": tree, "mode": mode, "size": size, "ops": [w1, ["key", "x"], w2, ["key", "x"]]}
                    for key in axis:
                        for k in range(1, n):
                            yield {"tree": tree, "mode": mode, "size": size, "ops": [["key", key]] * k + [["key", "x"]]}


def _overfull_nontrivial(case):
    """the focus is moved at least once"""
    ops = case["ops"]
    if ops[0][0] == "key":
        return True
    pos = [op[2][1] if op[0] == "focus" else op[2][0] for op in ops if op[0] != "key"]
    return pos[0] != case["tree"]["focus"] or pos[1] != pos[0]


def _overfull_classify(case):
    how = {"focus": "assign", "path": "set_focus_path", "key": "arrows"}[case["ops"][0][0]]
    return [f"overfull:{case['tree']['k']}:{case['mode']}:n={len(case['tree']['c'])}", f"overfull:by:{how}"]


# ---- sweep 4: key bindings ------------------------------------------------------------------------------------


def binding_sweep_cases():
    """Every list-like container kind (3 selectable leaves that handle no key, focus on the middle one), alone or as
    the focus child of a Pile, x a second command map made by ``CommandMap()`` or ``urwid.command_map.copy()`` and
    used by the outer container, the inner one or no widget x one edit - the unbound character "x" bound to each of
    the four arrow commands (as Command member and as plain string), each arrow key unbound, clear_command of each
    arrow command - addressed to the shared map or to the second map, made before or after the second map exists
    x {nothing, restore_defaults() on the edited map, restore_defaults() on the other map}.  Then: the character,
    the two arrow keys of the container's axis, the character."""
    leaf = {"k": "p", "sel": 1, "keys": [], "rows": 1}
    edits = [["bind", 0, 0, "x", c, spelled] for c in range(4) for spelled in (0, 1)]
    edits += [["bind", 0, 1, k, 0, 0] for k in ARROW_KEYS]
    edits += [["bind", 0, 2, "x", c, 0] for c in range(4)]
    for kind in ("pile", "cols", "grid", "lb-s"):
        mode = "B" if kind.startswith("lb") else "F"
        axis = ("left", "right") if kind in ("cols", "grid") else ("up", "down")
        inner = _listlike_spec(kind, [dict(leaf) for _ in range(3)], 1)
        nested = _listlike_spec("pile", [inner, dict(leaf)], 0)
        keys = [["key", "x"], ["key", axis[1]], ["key", axis[0]], ["key", "x"]]
        for tree, users in ((inner, (None, 0)), (nested, (None, 0, 1))):
            for user in users:
                for how in (0, 1):
                    make = ["cmap", how, user, 0]
                    for edit in edits:
                        for first, target in (("map", 0), ("map", 1), ("edit", 0)):
                            e = [edit[0], target, *edit[2:]]
                            for then in (None, target, 1 - target):
                                ops = [make, e] if first == "map" else [e, make]
                                if then is not None:
                                    ops = [*ops, ["cmreset", then]]
                                yield {"tree": tree, "mode": mode, "size": [12, 6], "ops": ops + keys}


def _binding_classify(case):
    ops = case["ops"]
    make = [op for op in ops if op[0] == "cmap"][0]
    edit = [op for op in ops if op[0] == "bind"][0]
    user = "nobody" if make[2] is None else ("root", "inner")[make[2]]
    return [
        f"bindings:{case['tree']['k']}:levels={_levels(case['tree'])}",
        f"bindings:second-map:{('CommandMap()', 'copy()')[make[1]]}:used-by:{user}",
        f"bindings:edit:{('set', 'del', 'clear_command')[edit[2]]}:on:{('shared', 'second')[edit[1]]}",
        f"bindings:order:{ops[0][0]}-first:restore={'yes' if any(op[0] == 'cmreset' for op in ops) else 'no'}",
    ]


# ---- sweep 5: a button-1 press at every cell ------------------------------------------------------------------


def cell_sweep_cases(cols, rows, sizes):
    """Every two-level nest outer x inner, a button-1 press at each cell of a cols x rows canvas, then a character.
    inner: Pile / Columns (with divider) / GridFlow / ListBox of (selectable, unselectable, selectable) leaves, an
    Overlay, a Frame with each of the four header / footer combinations.  outer: an Overlay with inner on top for
    every align x valign x the given (width, height) spellings; a Frame with inner as body (x the four header /
    footer combinations), as header, as footer; a box Pile, a box Columns and a ListBox with inner between two
    leaves.  Which sizing mode inner is built in follows from its slot (see realize)."""

    def leaf(sel=1):
        return {"k": "p", "sel": sel, "keys": ["x"], "rows": 1}

    three = [leaf(1), leaf(0), leaf(1)]
    inners = [_listlike_spec(k, [dict(x) for x in three], 0) for k in ("pile", "grid", "lb-s")]
    cols_spec = _listlike_spec("cols", [dict(x) for x in three], 0)
    cols_spec["div"] = 1
    inners.append(cols_spec)
    inners.append({"k": "over", "top": leaf(), "bot": leaf(0), "al": 1, "va": 1, "w": ["g", 2], "h": ["g", 0]})
    for hdr in (None, leaf()):
        for ftr in (None, leaf()):
            inners.append({"k": "frame", "body": leaf(), "hdr": hdr, "ftr": ftr, "fp": "body"})
    outers = []
    for inner in inners:
        for al in range(3):
            for va in range(3):
                for w, h in sizes:
                    outers.append({"k": "over", "top": inner, "bot": leaf(0), "al": al, "va": va, "w": list(w), "h": list(h)})
        for hdr in (None, leaf()):
            for ftr in (None, leaf()):
                outers.append({"k": "frame", "body": inner, "hdr": hdr, "ftr": ftr, "fp": "body"})
        outers.append({"k": "frame", "body": leaf(), "hdr": inner, "ftr": leaf(), "fp": "header"})
        outers.append({"k": "frame", "body": leaf(), "hdr": leaf(), "ftr": inner, "fp": "footer"})
        for kind in ("pile", "cols", "lb-s"):
            outers.append(_listlike_spec(kind, [leaf(), inner, leaf()], 1))
    for tree in outers:
        for row in range(rows):
            for col in range(cols):
                yield {"tree": tree, "mode": "B", "size": [cols, rows], "ops": [["press", col, row], ["key", "x"]]}


def _cell_inner(tree):
    for key in ("top", "body", "hdr", "ftr"):
        if isinstance(tree.get(key), dict) and tree[key].get("k", "p") != "p":
            return tree[key]
    return [it["n"] for it in tree["c"] if it["n"].get("k", "p") != "p"][0]


def _cell_classify(case):
    tree = case["tree"]
    inner = _cell_inner(tree)
    slot = ""
    if tree["k"] == "frame":
        slot = ":" + [k for k in ("body", "hdr", "ftr") if tree.get(k) is inner][0]
    col, row = case["ops"][0][1:3]
    cols, rows = case["size"]
    edge = col in (0, cols - 1) or row in (0, rows - 1)
    return [f"cell:{tree['k']}{slot}>{inner['k']}", f"cell:{'canvas-edge' if edge else 'inside'}"]


# ---- sweep 6: the focus leaf edits its container from inside keypress() ------------------------------------------


def _reaction_edits(n, c):
    """every single edit of a list-like container of n children (container index c): delete child j; replace child
    j by a new selectable / unselectable leaf; insert such a leaf at j; focus := j; clear; set the whole contents to
    one selectable leaf / to an unselectable and a selectable one (slice and attribute spelling); reverse"""

    def item(sel):
        return {"o": ["w", 1], "box": 0, "n": {"k": "p", "sel": sel, "keys": ["x"], "rows": 1}}

    for j in range(n):
        yield ["del", c, j]
        yield ["focus", c, ["v", j]]
        for sel in (0, 1):
            yield ["slice", c, j, j + 1, [item(sel)]]
    for j in range(n + 1):
        for sel in (0, 1):
            yield ["ins", c, j, item(sel)]
    yield ["clear", c]
    for how in (0, 1):
        yield ["setall", c, [item(1)], how]
        yield ["setall", c, [item(0), item(1)], how]
    yield ["whole", c, 0]


def reentrant_sweep_cases(max_n, nested):
    """Every list-like container kind (Pile, Columns, GridFlow, ListBox over either walker) of 2..max_n leaves, over
    every selectable / unselectable pattern in which the focus leaf is selectable, x every focus position x every
    single edit of the container (see _reaction_edits) made by the focus leaf from inside its keypress() x the key
    that triggers it (either arrow key of the container's axis, or a character) x the leaf reporting that key handled
    or unhandled.  nested: the same with the container as the focus child of a Pile next to a selectable leaf, the
    edit addressed to the container or to that Pile.  History: the key, then a character."""
    import itertools

    for kind in ("cols", "pile", "grid", "lb-s", "lb-f"):
        mode = "B" if kind.startswith("lb") else "F"
        axis = ("left", "right") if kind in ("cols", "grid") else ("up", "down")
        for n in range(2, max_n + 1):
            for f in range(n):
                for sels in itertools.product((1, 0), repeat=n):
                    if not sels[f]:
                        continue
                    for depth in ((0, 1) if nested else (0,)):
                        targets = ((0, n),) if depth == 0 else ((1, n), (0, 2))
                        for c, tn in targets:
                            for edit in _reaction_edits(tn, c):
                                for key in (*axis, "q"):
                                    for handled in (0, 1):
                                        leaves = [{"k": "p", "sel": s, "keys": ["x"], "rows": 1} for s in sels]
                                        leaves[f] = {
                                            "k": "p",
                                            "sel": 1,
                                            "keys": ["x", key] if handled else ["x"],
                                            "rows": 1,
                                            "react": [edit],
                                            "ron": [key],
                                            "rn": 1,
                                        }
                                        tree = _listlike_spec(kind, leaves, f)
                                        if depth:
                                            sib = {"k": "p", "sel": 1, "keys": ["x"], "rows": 1}
                                            tree = _listlike_spec("pile", [tree, sib], 0)
                                            tmode = "F" if mode == "F" else "B"
                                        else:
                                            tmode = mode
                                        yield {"tree": tree, "mode": tmode, "size": [12, 6], "ops": [["key", key], ["key", "x"]]}


def _reentrant_leaf(tree):
    for it in tree["c"]:
        if it["n"].get("react"):
            return tree, it["n"]
        if it["n"].get("k", "p") != "p":
            return _reentrant_leaf(it["n"])
    return tree, None


def _reentrant_classify(case):
    inner, leaf = _reentrant_leaf(case["tree"])
    edit = leaf["react"][0]
    key = case["ops"][0][1]
    return [
        f"reentrant:{inner['k']}:n={len(inner['c'])}:levels={_levels(case['tree'])}",
        f"reentrant:edit:{edit[0]}:key={'char' if key == 'q' else 'arrow'}:{'handled' if key in leaf['keys'] else 'unhandled'}",
    ]


def shard(ctx):
    depth = ctx.scale(3, 4)
    max_ops = ctx.scale(30, 60)
    cols, rows = ctx.scale((9, 6), (11, 7))
    sizes = ctx.scale(
        ((["g", 4], ["g", 2]), (["r", 30], ["r", 30])),
        ((["g", 4], ["g", 2]), (["r", 30], ["r", 30]), (["g", 2], ["r", 10]), (["r", 60], ["g", 0])),
    )
    # the deterministic sweeps, smallest first (so that a short budget on a busy machine still covers the small
    # domains completely), then the random histories
    sweeps = [
        (
            reentrant_sweep_cases(ctx.scale(3, 4), ctx.scale(False, True)),
            lambda case: True,  # every case edits the container while its keypress() is on the stack
            _reentrant_classify,
            "every single edit of a list-like container of <= %d leaves made by its focus leaf from inside keypress() "
            "x trigger key x handled / unhandled" % ctx.scale(3, 4),
        ),
        (
            binding_sweep_cases(),
            lambda case: True,  # every case has two command maps and an edit that changes one of them
            _binding_classify,
            "every origin and user of a second command map x every arrow binding edit x edited map x order x restore_defaults",
        ),
        (
            overfull_sweep_cases(ctx.scale(5, 6)),
            _overfull_nontrivial,
            _overfull_classify,
            "every pair of focus changes x list-like container too small for its <= %d children" % ctx.scale(5, 6),
        ),
        (
            cell_sweep_cases(cols, rows, sizes),
            lambda case: True,  # every tree has two container levels and the press is followed by a key
            _cell_classify,
            "button-1 press at every cell of a %dx%d canvas x every two-level nest of the container kinds" % (cols, rows),
        ),
        (
            entry_sweep_cases(ctx.scale(2, 3), ctx.scale(("pile", "cols", "lb-s"), ("pile", "cols", "lb-s", "lb-f"))),
            _entry_nontrivial,
            _entry_classify,
            "every arrow key x two-level nest x inner container of <= %d leaves over all leaf variants" % ctx.scale(2, 3),
        ),
        (
            slice_sweep_cases(ctx.scale(4, 6)),
            _sweep_nontrivial,
            _sweep_classify,
            "every slice spelling x focus x list-like container with <= %d children" % ctx.scale(4, 6),
        ),
    ]
    for cases, nt, cl, name in sweeps:
        ctx.sweep("ops", cases, nontrivial=nt, classify=cl, exhaustive_name=name)
        if ctx.failure is not None:
            return
    ctx.given("ops", case_strategy(depth, max_ops), ctx.scale(400, 8000), nontrivial=nontrivial, classify=classify)
    for label, n in sorted(STATS.items()):
        ctx.count("run:" + label, n)


# ---------------------------------------------------------------------------------------------
# known findings (active only if listed in known_findings.json / known_findings.d with status "known")



def _k_empty_columns(sub, case, v):
    return v.clause == "exception:IndexError@widget/columns.py:focus_position" and "Columns is empty" in v.message


def _k_gridflow_selectable(sub, case, v):
    return v.clause == "selectable-after-set" and v.message.startswith("kind=grid:")


def _k_frame_falsy_part(sub, case, v):
    return v.clause == "focus-is-child" and v.message.startswith("kind=frame ") and " part_empty=1:" in v.message


def _k_empty_gridflow(sub, case, v):
    return (
        v.clause.startswith("exception:AttributeError@widget/widget.py:")
        and v.clause.rsplit(":", 1)[1] in ("get_cursor_coords", "get_pref_col", "move_cursor_to_coords")
        and "'Divider' object has no attribute" in v.message
    )


def _k_listbox_pending_stale(sub, case, v):
    """ListBox.set_focus() remembers the OLD focus position until the next render; if the walker is edited
    in between so that this position no longer exists, _set_focus_complete's "restore old focus temporarily"
    step fails.  Matched by the call chain (..._set_focus_complete, failing there or in the set_focus it
    calls), never by the exception type alone (MonitoredFocusList's 'focus index is out of range' has other causes)."""
    if not v.clause.startswith("exception:") or " [via " not in v.message:
        return False
    chain = v.message.rsplit(" [via ", 1)[1].rstrip("]").split(">")
    if "_set_focus_complete" not in chain:
        return False
    tail = chain[chain.index("_set_focus_complete") + 1 :]
    if tail == []:
        return v.clause == "exception:TypeError@widget/listbox.py:_set_focus_complete" and "NoneType" in v.message
    return tail in (["set_focus"], ["set_focus", "focus"]) and v.clause.startswith("exception:IndexError@")


def _k_mouse_below_short_column(sub, case, v):
    """Columns.mouse_event hands an event below a short flow column on to that column's widget (row >= its
    rows); a Frame without footer reached that way takes the row for 'within footer'.  Only this symptom: the
    AttributeError on the missing footer, raised in Frame.mouse_event, reached through nested mouse_event calls,
    in a history that contains a mouse press."""
    return (
        v.clause == "exception:AttributeError@widget/frame.py:mouse_event"
        and "'NoneType' object has no attribute 'selectable'" in v.message
        and "mouse_event>mouse_event" in v.message
        and any(op and op[0] == "click" for op in case.get("ops", []))
    )


def _via(v):
    """the urwid call chain recorded in an exception violation's message (see Harness.guarded)"""
    if " [via " not in v.message:
        return []
    return v.message.rsplit(" [via ", 1)[1].rstrip("]").split(">")


def _k_reentrant_gridflow(sub, case, v):
    """GridFlow.keypress writes the focus of its display widget - built before the key was handed down - back into
    contents.focus also when a cell's keypress() has changed the contents meanwhile (the display widget then
    describes cells that are gone or have moved).  Only: a keypress during which the focus leaf edited the tree,
    and either the IndexError of that write-back or the GridFlow focus found on an unselectable cell afterwards."""
    if REENTRANT_MARK not in v.message:
        return False
    if v.clause == "exception:IndexError@widget/grid_flow.py:focus_position":
        return _via(v)[-3:] == ["keypress", "_set_focus_from_display_widget", "focus_position"]
    return v.clause == "arrow-moves-to-selectable" and v.message.startswith("kind=grid ")


def _k_reentrant_columns_left(sub, case, v):
    """Columns.keypress walks 'left' from the focus index it read before the focus column's keypress(); when that
    call removed columns the index lies beyond the end of contents."""
    return (
        v.clause == "exception:IndexError@widget/columns.py:keypress"
        and REENTRANT_MARK in v.message
        and "list index out of range" in v.message
        and _via(v)[-1:] == ["keypress"]
    )


def _k_reentrant_pile(sub, case, v):
    """Pile.keypress moves the focus with the index, item sizes and heights it computed before the focus item's
    keypress(); when that call inserted or removed items they no longer fit the contents."""
    return (
        v.clause == "exception:IndexError@widget/pile.py:keypress"
        and REENTRANT_MARK in v.message
        and ("tuple index out of range" in v.message or "list index out of range" in v.message)
        and _via(v)[-1:] == ["keypress"]
    )


KNOWN = {
    "C08-reentrant-gridflow-stale-display": _k_reentrant_gridflow,
    "C08-reentrant-columns-stale-index": _k_reentrant_columns_left,
    "C08-reentrant-pile-stale-layout": _k_reentrant_pile,
    "C08-columns-mouse-below-short-column": _k_mouse_below_short_column,
    "C08-listbox-pending-focus-stale": _k_listbox_pending_stale,
    "C08-empty-gridflow-cursor": _k_empty_gridflow,
    "C08-empty-columns-input": _k_empty_columns,
    "C08-gridflow-selectable-stale": _k_gridflow_selectable,
    "C08-frame-falsy-part": _k_frame_falsy_part,
}
