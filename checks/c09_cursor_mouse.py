"""C09 — cursor position and mouse hit-testing agree with what is drawn.

A case is ``{"tree": spec, "mode": "B"|"F", "dc": n, "dr": n, "ev": i, "ops": [op, ...], "ord": bits}`` with
``op = ["click", kind, i] | ["text", leaf, what, new_text] | ["key", i] | ["set", target, spelling, value] |
["size", dc, dr, cell]`` (older replay files carry ``"clicks": [[kind, i], ...]`` instead; they are read as
click ops; without ``"ord"`` every step asks the cursor before anything is drawn).
``spec`` is a JSON description of a nesting of Pile / Columns / GridFlow / Frame / Filler / Padding /
Overlay / BoxAdapter / LineBox / AttrMap / ListBox.  It is realised **type-directed by sizing mode**
(``Planner.plan``): the parent and the item option decide whether a child is a flow or a box widget
(a kind that does not exist in the required mode is wrapped the documented way: box widget in a flow
position -> BoxAdapter, flow widget in a box position -> Filler(height='pack')).

Leaves are *probes*: real ``Edit`` / ``SelectableIcon`` / ``Button`` / ``CheckBox`` / ``RadioButton`` /
``Text`` / ``SolidFill`` subclasses (written the way an application subclasses a widget) whose
``render`` paints the whole canvas they return with their own display attribute ``"P<pid>"`` and whose
``mouse_event`` logs its arguments before calling the real implementation.  The rectangle a leaf
occupies is therefore read off the *rendered root canvas*, cell by cell, never computed from the
containers' geometry helpers.

Sizes grow from the tree's own needs: ``plan`` computes for every node the columns it needs (leaf
minimum widths, margins, dividers, weights) and an upper bound of the rows it needs at that width, all
``given`` sizes inside the tree are ``need + extra``, the root size is ``need + (dc, dr)``.  Padding / Filler /
Overlay also take their ``min_width`` / ``min_height`` option (spec ``"mw"`` / ``"mh"``: absent, 0, or the child's
need - 1 .. + 4): with a relative share the child gets ``max(share, minimum)`` and the fixed margins give way to
it, so a minimum that covers the child's need makes the child's need the need of the decoration - the sizes then
run through "margins gone", "minimum wins over part of the margins" and "margins intact".  The **fit
precondition** is then verified on the render: every probe was rendered, its attribute covers a full
rectangle of exactly the size of the canvas the probe returned; otherwise the case is discarded.
One reading of the precondition is made explicit for the ListBox, the one container built to show only part
of its children (spec ``"cut"``: it gets that many rows less than its items need together): "every widget *on the
way*" - an item that is not rendered with focus may be scrolled out or cut by the edge of the list box; such a
probe is not "a cell where a child widget is drawn", nothing is asserted about its cells in that drawing.  The
leaf that is rendered with focus must be there in full, as every probe outside a ListBox.

Oracle (per case, all cells of the rendered area):

1. ``get_cursor_coords(size)`` of a freshly built, never rendered tree, and of the rendered tree,
   ``== render(size, focus=True).cursor``; again after every step of the history, asked both *before* the
   tree is rendered again ("reports without rendering": containers keep offsets of their own, e.g. the
   ListBox's offset_rows / inset, which a step can leave stale) and after.  A step is a button-1 press, a
   change of what a leaf shows through its public setter (``set_edit_text`` / ``set_caption`` / ``set_text``
   / ``set_label``: rows and natural width of the leaf may grow or shrink under the containers' feet), a
   key sent to a selectable root (cursor keys, paging, characters, enter, backspace/delete), a focus or
   alignment setter of a container or the edit position of an Edit (``apply_set``: every spelling the library
   supports, e.g. ``Columns.focus_position = n`` / ``set_focus_column(n)`` / ``set_focus(n | widget)`` /
   ``focus_col = n``, ``ListBox.set_focus(n[, coming_from])`` / ``set_focus_valign(v)``, ``Padding.align = v``,
   ``Overlay.set_overlay_parameters``) or a resize (``"size"``: all later calls carry the new size).  The fit
   precondition is re-established on the drawing that follows each step; a step after which the tree no
   longer fits (or a key / setter that raises: what they do is not this property's) ends the history, nothing
   is reported.  The tree lives as it does under a screen: the canvas of the previous drawing stays
   referenced, so the canvas cache answers for whatever the step did not invalidate.  Bit j of ``"ord"`` picks
   the order after step j: 0 - the cursor is asked before anything is drawn; 1 - the tree is first rendered
   with those canvases kept (the next screen update) and then asked, and the answer must equal the cursor of
   *that* rendering as well as the cursor of the drawing made with an empty cache (on which the fit
   precondition is established).
2. for every cell whose attribute is a probe X: ``root.mouse_event(size, ev, button, c, r, True)`` makes X
   log ``(c - left_X, r - top_X)`` and no other probe log anything.  The all-cells sweep uses an event
   that changes no state (release / buttons 2, 3); button-1 presses are steps of the history on the same
   tree (containers move the focus, Edit moves its cursor, the tree is re-rendered and re-read after each),
   and the all-cells sweep is repeated on the drawing of the state the history ends in.  The same clause
   "without rendering": the state-free event is also sent to trees that were *never* drawn or asked anything
   (a fresh tree per event; corners and centre of every probe's rectangle, read off the first drawing of a
   twin), and, in a ``"size"`` step, to the live tree as the first call that carries the new size (input that
   arrives between a resize and the next screen update); that event is judged on the drawing that follows.
3. for every cell inside the rectangle of a selectable probe X such that every widget from the root down
   to X implements ``move_cursor_to_coords`` (Frame, ListBox, Overlay do not: nothing asserted below
   them): on a *fresh* tree ``root.move_cursor_to_coords(size, c, r)`` is truthy exactly when a fresh twin
   leaf accepts ``(c - left_X, r - top_X)`` at the size X was rendered with (a selectable leaf without
   the method, SelectableIcon, accepts every cell: that is how every container reads it); after success
   ``root.get_cursor_coords(size)`` is the twin's cursor translated by X's top-left corner.  The column
   part is a consequence of clauses 1 + 3 (the leaf was handed exactly the translated cell, so it is in
   the twin's state) and is reported under its own clause name ``move-cursor-col``.  The twin is the same
   implementation as the leaf, so that equation cannot see a leaf that accepts a cell and then puts its
   cursor elsewhere; the statement's "afterwards the reported cursor is on the requested row" is therefore
   asserted literally as well (``move-cursor-requested-row``: the row of the root's reported cursor == the
   row asked for, no twin involved) for the leaves that move their cursor to the accepted cell (Edit; a
   Button / CheckBox / SelectableIcon keeps the cursor where its icon's cursor_position says, e.g. on the
   first row of a wrapped label, whatever row was asked for - weaker reading, nothing asserted there).

   Every *other* cell of the rendered area (rows of a Filler above / below its child, rows below a column that is
   shorter than its neighbours, dividers, borders, margins, unselectable children, leaves below a Frame / ListBox /
   Overlay) gets the second half of the sentence alone, "... and afterwards the reported cursor is on the requested
   row" (Widget.move_cursor_to_coords documents the same: True "if the position was set successfully anywhere on
   *row*"): a fresh tree is asked to move its cursor to the cell; if it says it did and then reports a cursor, the
   tree is drawn (fit precondition) and the leaf whose rectangle holds the reported cursor must be drawn on the
   requested row - for an Edit the cursor itself must be on that row, for the SelectableIcon based leaves the weaker
   reading above (``move-cursor-requested-row``).  No twin, no geometry helper: who refuses such a row (the
   decoration, the container, the leaf) is the library's business, the tree as a whole must.  Nothing is asserted
   about the column (Columns / Padding snap to the nearest selectable column on purpose), about a tree that
   reports no cursor afterwards, and about a cursor shown by a leaf below a Frame / ListBox / Overlay (the cell never
   reached that leaf).  Every row is visited; in a row the first and last column of every maximal run of cells that
   show the same thing in the first drawing.

Nothing is asserted about mouse events on cells in margins, dividers, borders and the Overlay's bottom widget
(Overlay documents "ignore if outside of top_w").  The events are still sent there (no crash).

Nothing at all is reported before the fit precondition has been established on a drawing: the answer of
the never-rendered tree is held back until the first render passed the fit check, and a render that raises
is discarded (rendering failures are C01's) unless it is an instance of a listed cursor defect.

Known findings are matched by **root cause**, not by symptom: ``FixedOverlay`` / ``FixedFiller`` /
``FixedGridFlow`` below are subclasses that override exactly the one method each proposed patch touches
(``columns-move``, the row test proposed for Columns.move_cursor_to_coords, replaces the method on the class
while a case is re-run, because Button / CheckBox / GridFlow / LineBox are made of Columns the harness does not build).
When a violation is about to be raised, the same case is re-run with one of them substituted (then with a
minimal set of them): a violation that no longer occurs (the tree still fitting) gets the mark
``[fixed-by:<name>]`` and only marked violations can match a KNOWN predicate.  Marked violations are
remembered and the case goes on with the remaining cells, so the campaign searches past them.
"""
from __future__ import annotations

import contextlib
import functools
import json
import os
import re
import warnings

from hypothesis import strategies as st

import urwid
from urwid.widget.constants import WHSettings
from urwid.widget.widget import WidgetWarning
from vlib import widths as W
from vlib.runner import ROOT, Discard, Violation, innermost_is_urwid, urwid_frame
from vlib.widths import use_encoding

PROPERTY = "C09"
LEVEL = "exploration"
RULE = (
    "Hypothesis trees (<=3 container levels quick, <=4 thorough; <=3 children per container, <=4 in GridFlow/ListBox) "
    "of Pile/Columns/GridFlow/Frame/Filler/Padding/Overlay/BoxAdapter/LineBox/AttrMap/ListBox built type-directed by "
    "sizing mode (flow or box root) over probe leaves (Edit with caption/newlines/wide characters/any,space,clip wrap, "
    "SelectableIcon incl. cursor beyond the text, Button, CheckBox, RadioButton, Text, SolidFill); item options "
    "weight 1..3 / given need+0..3 / pack, dividechars 0..2, margins 0..2, every alignment, relative sizes 30..100% "
    "(100, the default, drawn often), min_width / min_height of Padding / Filler / Overlay absent, 0 or the child's "
    "need -1..+4 (a minimum that covers the child's need makes that need the need of the decoration: its fixed "
    "margins give way), "
    "explicit or default focus positions; a ListBox gets 0..5 rows less than its items need together (never less "
    "than its tallest item), so it scrolls.  The size is the tree's computed need plus 0..6 columns and 0..4 rows; a "
    "render in which some probe is missing, clipped or not a full rectangle is discarded (fit precondition; ListBox "
    "items not rendered with focus may be scrolled out or cut, nothing is asserted about those).  Per "
    "case ALL cells of the rendered area are visited: one state-free mouse event per cell, one move_cursor_to_coords "
    "on a fresh tree per cell of a selectable leaf (accept == twin leaf, cursor == twin cursor translated, and for "
    "Edit leaves literally: reported cursor row == requested row), one move_cursor_to_coords on a fresh tree for "
    "every other part of the rendered area (every row x first and last column of every run of cells showing the same "
    "thing: filler rows, rows below a short column, dividers, borders, unselectable leaves; success + a reported "
    "cursor -> the leaf showing it is drawn on the requested row), the state-free mouse event on a never drawn "
    "fresh tree for the corners and centre of every leaf, plus a history of <=6 steps on the live tree "
    "(button-1 press on a cell / new text, caption or label for a leaf through its setter, text from the same "
    "alphabet so rows grow and shrink / one of 14 keys to a selectable root / a focus or alignment setter of a "
    "container or Edit.set_edit_pos in any supported spelling incl. the deprecated ones / a resize to need + "
    "0..6 x 0..4 followed at once by a state-free mouse event at the new size); after each step the cursor "
    "agreement is checked before and after the tree is drawn again, or (order bit of the step) against a rendering "
    "made with the canvases of the previous drawing still referenced and then against a drawing with an empty cache "
    "(fit re-verified; a step that un-fits the tree ends the history) and the state-free mouse sweep is repeated on "
    "the final state.  Deterministic sweep before the campaign: 10 small trees (Pile, Columns, GridFlow, Frame, two "
    "scrolling ListBoxes, Padding and Overlay starting from a named and from a ('relative', 30) alignment) over 1- and "
    "2-row leaves of two families (Edits: never cached; Button / CheckBox / SelectableIcon: the focus chain's canvases "
    "stay cached); bare and in a LineBox; flow and box root x "
    "every setter spelling x 6 values x two calls x the 4 orders (Padding / Overlay at the exact need and at need + "
    "(3, 1), 4416 cases); and Padding (flow and box) / Filler / Overlay "
    "(either axis) over a two-row Edit x relative share 100 / 60 % x every pair of fixed margins x minimum size = "
    "need +0 / +2 x left, center, right, ('relative', 30) x every size from the child's bare need to +6 columns / +4 "
    "rows (3664 cases); and every way of giving a flow child fewer rows than the holder has (Filler 'pack' x 4 "
    "valigns x top / bottom 0..1, child bare / in AttrMap / in LineBox; box Pile with a pack item; flow and box Columns "
    "with a taller neighbour) x Edit (1 row, caption row), SelectableIcon (1, 2 rows), Button (1, 4 rows), CheckBox, "
    "RadioButton x 0, 1, 3 spare rows (888 cases).  Non-trivial: >=2 nested "
    "container/decoration levels and a non-zero offset (second child, divider, margin/alignment, header, border, "
    "overlay)."
)
ASSUMPTIONS = [
    "probe leaves are ordinary subclasses of the urwid leaf widgets: render() = CompositeCanvas(super().render()) "
    "+ fill_attr, mouse_event() = log + super(); fill_attr and canvas.content() report attributes per cell correctly "
    "(C02 checks canvases)",
    "vlib.widths measures the text runs of content() (probe texts are ASCII plus one double-width CJK character)",
    "a fresh twin leaf built from the same spec is in the same state as the tree's leaf before the call",
    "leaf rows()/pack() do not depend on focus or cursor position (Edit, SelectableIcon, Text, Button, CheckBox)",
    "a case during which urwid emits one of its sizing warnings is mis-built and discarded",
    "utf-8 encoding, default command_map",
    "min_width / min_height: calculate_left_right_padding / calculate_top_bottom_filler give the wrapped widget "
    "max(share, minimum) and shrink the fixed margins to make room (their documented contract, read only to compute "
    "a size at which the tree fits; whether it does fit is decided on the drawing as for every other case)",
    "history steps use only public setters (Edit.set_edit_text/set_caption/set_edit_pos, Text.set_text, "
    "Button/CheckBox.set_label, focus_position and its deprecated spellings, ListBox.set_focus/set_focus_valign, "
    "Padding.align, Overlay.set_overlay_parameters), mouse_event and keypress on the root; an exception escaping "
    "keypress or a setter is not this property's (history ends)",
    "fit precondition read as 'every widget on the way': children of a ListBox that are not rendered with focus may "
    "be scrolled out or cut by its edge (they are excluded from the assertions of that drawing); everything else, and "
    "the leaf rendered with focus, must be drawn in full",
    "a mouse release / button 2,3 press / meta release changes no widget state, so the event a 'size' step sends "
    "before the tree is drawn at the new size is judged on the drawing made right after it",
    "clause 3 outside the selectable leaves: the leaf that shows the cursor after an accepted move is the probe whose "
    "attribute is on the cell of the reported cursor in a drawing of that tree made right after the move (cursor "
    "agreement itself is clause 1); 'on the requested row' is read for SelectableIcon based leaves as 'the leaf is drawn "
    "on that row' (they keep the cursor where cursor_position says), for Edit literally; a move that succeeds without a "
    "cursor being reported afterwards, and a cursor shown below a Frame / ListBox / Overlay, assert nothing",
    "render(size, True) with the previous root canvas still referenced (canvas cache warm) is a 'focused rendering' "
    "of the widget in the sense of the statement, as is the one made after CanvasCache.clear()",
]

MODE = "utf8"
STATS: dict[str, int] = {}


def fix_mark(name):
    return f"[fixed-by:{name}]"


def fixed_by(v):
    """names in the attribution mark of a violation message"""
    m = re.search(r"\[fixed-by:([a-z+\-]+)\]$", v.message)
    return m.group(1).split("+") if m else []



def stat(label, n=1):
    STATS[label] = STATS.get(label, 0) + n


# ---------------------------------------------------------------------------------------------
# probes


def _probe_class(base):
    class Probe(base):
        _c09 = None  # (registry, pid)

        def render(self, size, focus=False):
            canv = urwid.CompositeCanvas(super().render(size, focus))
            if self._c09 is not None:
                reg, pid = self._c09
                reg.log.append(("render", pid, tuple(size), bool(focus), canv.cols(), canv.rows()))
                canv.fill_attr(f"P{pid}")
            return canv

        def mouse_event(self, size, event, button, col, row, focus):
            if self._c09 is not None:
                reg, pid = self._c09
                reg.log.append(("mouse", pid, tuple(size), event, button, col, row, bool(focus)))
            return super().mouse_event(size, event, button, col, row, focus)

    Probe.__name__ = Probe.__qualname__ = base.__name__ + "Probe"
    return Probe


EditProbe = _probe_class(urwid.Edit)
IconProbe = _probe_class(urwid.SelectableIcon)
ButtonProbe = _probe_class(urwid.Button)
CheckBoxProbe = _probe_class(urwid.CheckBox)
RadioProbe = _probe_class(urwid.RadioButton)
TextProbe = _probe_class(urwid.Text)
FillProbe = _probe_class(urwid.SolidFill)


# ---------------------------------------------------------------------------------------------
# root-cause attribution for known findings: subclasses carrying the *proposed* one-method patch.
# They are used only after an unlisted-looking violation, to re-run the same case: a violation that
# disappears when exactly one of these replaces the urwid class is attributed to that defect (and to
# nothing else), so the KNOWN predicates below cannot hide a different fault.


class FixedOverlay(urwid.Overlay):
    def get_cursor_coords(self, size):
        if not hasattr(self.top_w, "get_cursor_coords"):
            return None
        real_size = self.pack(size, True)
        (maxcol, maxrow) = real_size
        left, right, top, bottom = self.calculate_padding_filler(real_size, True)
        coords = self.top_w.get_cursor_coords(self.top_w_size(real_size, left, right, top, bottom))
        if coords is None:
            return None
        x, y = coords
        if y >= maxrow:
            y = maxrow - 1
        return x + left, y + top


class FixedFiller(urwid.Filler):
    def move_cursor_to_coords(self, size, col, row):
        maxcol, maxrow = self.pack(size, True)
        top, bottom = self.filler_values(size, True)
        if row < top or row >= maxrow - bottom:
            return False  # proposed patch: the rows of the filler are refused whatever the wrapped widget is
        if not hasattr(self._original_widget, "move_cursor_to_coords"):
            return True
        if self.height_type == WHSettings.PACK:
            return self._original_widget.move_cursor_to_coords((maxcol,), col, row - top)
        return self._original_widget.move_cursor_to_coords((maxcol, maxrow - top - bottom), col, row - top)


class FixedGridFlow(urwid.GridFlow):
    def pack(self, size=(), focus=False):
        if size:
            self.get_display_widget(size)
        return super().pack(size, focus)


def _columns_move_rows_checked(inner):
    """Columns.move_cursor_to_coords with the proposed patch added to whatever the tree under test does: a row on
    which nothing of the chosen column's widget is drawn (above / below a column shorter than the tallest one) is
    refused - what Columns.mouse_event does since 766fe4d.  The patch proper tests the row before the child is asked;
    here the method of the tree is called first and its success withdrawn (the tree is thrown away after the call)"""

    def move_cursor_to_coords(self, size, col, row):
        focus, pref_col = (self.focus_position if self.contents else None), self.pref_col
        rval = inner(self, size, col, row)
        if rval is False or not self.contents:
            return rval
        heights = self.get_column_sizes(size, focus=True)[1]
        if 0 <= row < heights[self.focus_position]:
            return rval
        self.focus_position, self.pref_col = focus, pref_col
        return False

    return move_cursor_to_coords


@contextlib.contextmanager
def patches_applied(fixes):
    """the proposed patches that cannot be carried by a subclass the harness builds: Columns is also what Button /
    CheckBox / GridFlow / LineBox are made of, so `columns-move` replaces the method on the class while a case is
    re-run for attribution (never during the campaign proper: Harness.fixes is empty there)"""
    if "columns-move" not in fixes:
        yield
        return
    old = urwid.Columns.__dict__["move_cursor_to_coords"]
    urwid.Columns.move_cursor_to_coords = _columns_move_rows_checked(old)
    try:
        yield
    finally:
        urwid.Columns.move_cursor_to_coords = old


# name -> (kinds of node whose presence makes the patch a candidate, subclass the harness builds instead | None: `patches_applied`)
FIXES = {
    "overlay-cursor": (("over",), FixedOverlay),
    "filler-move": (("filler",), FixedFiller),
    "gridflow-pack": (("grid",), FixedGridFlow),
    "columns-move": (("cols", "grid", "btn", "chk", "radio"), None),
}

FLOW_LEAVES = ("edit", "icon", "btn", "chk", "radio", "text")
LEAF_W = {"edit": 3, "icon": 2, "text": 2, "btn": 6, "chk": 7, "radio": 7, "fill": 1}
SELECTABLE_LEAVES = ("edit", "icon", "btn", "chk", "radio")
PACKABLE = ("text", "icon")
FLOW_ONLY = (*FLOW_LEAVES, "grid", "box")
BOX_ONLY = ("fill", "frame", "filler", "over", "lb")
NO_MOVE = ("frame", "lb", "over", "fill")  # kinds without move_cursor_to_coords
SETTABLE = ("pile", "cols", "grid", "frame", "lb", "pad", "over")  # kinds with a focus / alignment setter (apply_set)
# leaves that move their own cursor to the cell they accept (a Button / CheckBox / SelectableIcon keeps it where
# the icon's cursor_position says, whatever row was asked for: nothing is asserted about their row)
ROW_EXACT = ("edit",)
KEYS = ["up", "down", "left", "right", "home", "end", "page up", "page down", "x", "\u4e16", " ", "enter", "backspace", "delete"]
ALIGNS = ["left", "center", "right"]
VALIGNS = ["top", "middle", "bottom"]
WRAPS = ["any", "space", "clip"]
EVENTS = [("mouse release", 0), ("mouse press", 3), ("mouse press", 2), ("meta mouse release", 0)]


def make_leaf(spec, probe=True):
    """a fresh leaf widget from its spec (probe=False: the plain urwid class, used as the twin)"""
    k = spec["k"]
    txt = str(spec.get("txt", ""))
    if k == "edit":
        cls = EditProbe if probe else urwid.Edit
        w = cls(
            str(spec.get("cap", "")),
            txt,
            multiline=bool(spec.get("ml", 0)),
            align=ALIGNS[int(spec.get("al", 0)) % 3],
            wrap=WRAPS[int(spec.get("wrap", 0)) % 3],
        )
        w.set_edit_pos(min(max(0, int(spec.get("pos", 0))), len(txt)))
        return w
    if k == "icon":
        return (IconProbe if probe else urwid.SelectableIcon)(txt, cursor_position=max(0, int(spec.get("pos", 0))))
    if k == "btn":
        return (ButtonProbe if probe else urwid.Button)(txt)
    if k == "chk":
        return (CheckBoxProbe if probe else urwid.CheckBox)(txt, state=bool(spec.get("st", 0)))
    if k == "radio":
        return (RadioProbe if probe else urwid.RadioButton)([], txt)
    if k == "text":
        return (TextProbe if probe else urwid.Text)(txt, align=ALIGNS[int(spec.get("al", 0)) % 3])
    if k == "fill":
        return (FillProbe if probe else urwid.SolidFill)(":")
    raise AssertionError(k)


# ---------------------------------------------------------------------------------------------
# planning: spec -> concrete node (all sizes literal, need columns / rows computed)


def _ceil_div(a, b):
    return -(-a // b)


def _weighted_need(needs_weights):
    """space that lets every weighted item reach its need: max need_i * W / w_i, plus rounding slack"""
    if not needs_weights:
        return 0
    total = sum(w for _n, w in needs_weights)
    return max(_ceil_div(n * total, w) for n, w in needs_weights) + len(needs_weights)


def _int(x, lo, hi, default=0):
    try:
        v = int(x)
    except (TypeError, ValueError):
        v = default
    return lo + (v - lo) % (hi - lo + 1)


def _opt(o):
    if not isinstance(o, (list, tuple)) or not o:
        return "w", 1
    if o[0] == "g":
        return "g", _int(o[1] if len(o) > 1 else 0, 0, 3)
    if o[0] == "k":
        return "k", 0
    return "w", _int(o[1] if len(o) > 1 else 1, 1, 3, 1)


def _dim(d):
    """width/height option of Padding / Filler / Overlay: ['g', extra] | ['r', pct] | ['k']"""
    if not isinstance(d, (list, tuple)) or not d:
        return "g", 0
    if d[0] == "r":
        return "r", _int(d[1] if len(d) > 1 else 100, 30, 100, 100)
    if d[0] == "k":
        return "k", 0
    return "g", _int(d[1] if len(d) > 1 else 0, 0, 3)


def _min(m, need):
    """min_width / min_height option of Padding / Filler / Overlay: None | 'z' (0: falsy, as good as None) | e
    (the child's need + e, e in -1..4; not below 1)"""
    if m is None:
        return None
    if m == "z":
        return 0
    return max(1, need + _int(m, -1, 4))


class Planner:
    """spec -> node.  A node is plain data: kind, mode, nc (columns needed), nr (rows needed, an upper
    bound for flow nodes), mv (every widget from here down the move path implements move_cursor_to_coords
    is decided per leaf at build time), and the literal constructor arguments."""

    def plan(self, spec, mode):
        if not isinstance(spec, dict):
            raise Discard()
        k = spec.get("k")
        if k in BOX_ONLY and mode == "F":
            return self.plan({"k": "box", "n": spec, "x": 0}, "F")
        if k in FLOW_ONLY and mode == "B":
            return self.plan({"k": "filler", "n": spec, "h": ["k"], "va": 0, "t": 0, "b": 0}, "B")
        fn = getattr(self, "_p_" + str(k), None)
        if fn is None:
            if k in FLOW_LEAVES or k == "fill":
                return self._leaf(spec, mode)
            raise Discard()
        return fn(spec, mode)

    def _leaf(self, spec, mode):
        k = spec["k"]
        nc = LEAF_W[k]
        node = {"k": k, "mode": mode, "leaf": dict(spec), "nc": nc, "kids": []}
        if k == "fill":
            node["nr"] = 1
            node["nat"] = 0
            return node
        w = make_leaf(spec, probe=False)
        node["nr"] = w.rows((nc,))
        node["nat"] = w.pack(())[0] if k in PACKABLE else 0
        return node

    # -- list-like ----------------------------------------------------------------------------
    def _items(self, spec, n_max):
        items = [it for it in (spec.get("c") or []) if isinstance(it, dict)][:n_max]
        if not items:
            raise Discard()
        return items

    @staticmethod
    def _focus(spec, n):
        f = spec.get("f")
        return None if f is None else int(f) % n

    def _p_pile(self, spec, mode):
        items = self._items(spec, 3)
        plans = []
        for it in items:
            slot, amt = _opt(it.get("o"))
            if mode == "F":
                plans.append(["B", "g", amt] if slot == "g" else ["F", slot, amt])
            elif slot == "k":
                plans.append(["F", "k", 0])
            else:
                plans.append(["B", slot, amt])
        if mode == "B" and not any(p[1] == "w" for p in plans):
            plans[-1] = ["B", "w", 1]  # a box Pile needs a weighted item to fill its rows
        kids, opts = [], []
        fixed_rows, weighted = 0, []
        for it, (cmode, slot, amt) in zip(items, plans):
            kid = self.plan(it.get("n"), cmode)
            kids.append(kid)
            if slot == "g":
                rows = kid["nr"] + amt
                opts.append(["given", rows])
                fixed_rows += rows
            elif slot == "k":
                opts.append(["pack", None])
                fixed_rows += kid["nr"]
            else:
                opts.append(["weight", amt])
                if mode == "B":
                    weighted.append((kid["nr"], amt))
                else:
                    fixed_rows += kid["nr"]
        return {
            "k": "pile", "mode": mode, "kids": kids, "opts": opts, "f": self._focus(spec, len(kids)),
            "nc": max(kid["nc"] for kid in kids), "nr": fixed_rows + _weighted_need(weighted),
        }

    def _p_cols(self, spec, mode):
        items = self._items(spec, 3)
        div = _int(spec.get("div", 0), 0, 2)
        plans = []
        for it in items:
            slot, amt = _opt(it.get("o"))
            box = bool(it.get("box")) or mode == "B"
            if box and slot == "k":
                slot, amt = "w", 1
            plans.append([box, slot, amt])
        if mode == "F" and all(p[0] for p in plans):
            plans[0][0] = False  # a flow Columns needs a flow column to get its rows from
        kids, opts, boxcols = [], [], []
        fixed_cols, weighted, flow_rows, box_rows = 0, [], [], []
        for i, (it, (box, slot, amt)) in enumerate(zip(items, plans)):
            kid = self.plan(it.get("n"), "B" if box else "F")
            if slot == "k" and not (kid["k"] in PACKABLE and kid["nat"] >= 1):
                slot, amt = "w", 1
            kids.append(kid)
            if box and mode == "F":
                boxcols.append(i)
            (box_rows if box else flow_rows).append(kid["nr"])
            if slot == "g":
                width = kid["nc"] + amt
                opts.append(["given", width])
                fixed_cols += width
            elif slot == "k":
                opts.append(["pack", None])
                fixed_cols += max(kid["nat"], kid["nc"])
            else:
                opts.append(["weight", amt])
                weighted.append((kid["nc"], amt))
        return {
            "k": "cols", "mode": mode, "kids": kids, "opts": opts, "boxcols": boxcols, "div": div,
            "f": self._focus(spec, len(kids)),
            "nc": fixed_cols + _weighted_need(weighted) + div * (len(kids) - 1),
            "nr": max(flow_rows) if mode == "F" else max(box_rows),
        }

    def _p_grid(self, spec, mode):
        items = self._items(spec, 4)
        kids = []
        for it in items:
            n = it.get("n") if isinstance(it.get("n"), dict) else {}
            kids.append(self.plan(n if n.get("k") in FLOW_LEAVES else {"k": "text", "txt": "t"}, "F"))
        cw = max(kid["nc"] for kid in kids) + _int(spec.get("cwx", 0), 0, 3)
        vs = _int(spec.get("vs", 0), 0, 1)
        return {
            "k": "grid", "mode": "F", "kids": kids, "cw": cw, "hs": _int(spec.get("hs", 0), 0, 2), "vs": vs,
            "al": ALIGNS[_int(spec.get("al", 0), 0, 2)], "f": self._focus(spec, len(kids)),
            "nc": cw, "nr": sum(kid["nr"] for kid in kids) + vs * (len(kids) - 1),
        }

    def _p_lb(self, spec, mode):
        items = self._items(spec, 4)
        kids = [self.plan(it.get("n"), "F") for it in items]
        # "cut": rows the list box gets less than all its items need together (it scrolls); never less than
        # its tallest item needs, so whichever item has the focus can be shown in full
        total, tallest = sum(kid["nr"] for kid in kids), max(kid["nr"] for kid in kids)
        return {
            "k": "lb", "mode": "B", "kids": kids, "f": self._focus(spec, len(kids)),
            "nc": max(kid["nc"] for kid in kids), "nr": max(tallest, total - _int(spec.get("cut", 0), 0, 7)),
        }

    # -- single child -------------------------------------------------------------------------
    def _p_frame(self, spec, mode):
        body = self.plan(spec.get("body") or {"k": "fill"}, "B")
        hdr = self.plan(spec["hdr"], "F") if spec.get("hdr") else None
        ftr = self.plan(spec["ftr"], "F") if spec.get("ftr") else None
        fp = spec.get("fp", "body")
        if fp not in ("body", "header", "footer") or (fp == "header" and hdr is None) or (fp == "footer" and ftr is None):
            fp = "body"
        parts = [p for p in (hdr, body, ftr) if p is not None]
        return {
            "k": "frame", "mode": "B", "kids": parts, "hdr": hdr is not None, "ftr": ftr is not None, "fp": fp,
            "nc": max(p["nc"] for p in parts), "nr": sum(p["nr"] for p in parts),
        }

    def _p_filler(self, spec, mode):
        how, amt = _dim(spec.get("h"))
        top, bottom = _int(spec.get("t", 0), 0, 2), _int(spec.get("b", 0), 0, 2)
        n = spec.get("n") or {"k": "text", "txt": "t"}
        if how == "k" or (isinstance(n, dict) and n.get("k") in FLOW_ONLY):
            kid = self.plan(n, "F")
            height, need = "pack", kid["nr"]
        else:
            kid = self.plan(n, "B")
            if how == "g":
                height = need = kid["nr"] + amt
            else:
                height, need = ["relative", amt], _ceil_div(kid["nr"] * 100, amt) + 1
        # min_height (used with a relative height only, the constructor drops it otherwise): the body gets
        # max(share, min_height) rows and the fixed top / bottom rows give way to it, so a min_height that covers
        # the body's need makes the body's need the need of the Filler
        minh = _min(spec.get("mh"), kid["nr"])
        total = need + top + bottom
        if isinstance(height, list) and minh is not None and minh >= kid["nr"]:
            total = kid["nr"]
        return {
            "k": "filler", "mode": "B", "kids": [kid], "height": height, "top": top, "bottom": bottom, "minh": minh,
            "va": self._valign(spec.get("va", 0)), "nc": kid["nc"], "nr": total,
        }

    @staticmethod
    def _valign(v):
        if isinstance(v, (list, tuple)):
            return ["relative", _int(v[1] if len(v) > 1 else 50, 0, 100, 50)]
        return VALIGNS[_int(v, 0, 2)]

    @staticmethod
    def _align(v):
        if isinstance(v, (list, tuple)):
            return ["relative", _int(v[1] if len(v) > 1 else 50, 0, 100, 50)]
        return ALIGNS[_int(v, 0, 2)]

    def _p_pad(self, spec, mode):
        how, amt = _dim(spec.get("w"))
        left, right = _int(spec.get("l", 0), 0, 2), _int(spec.get("r", 0), 0, 2)
        kid = self.plan(spec.get("n") or {"k": "text", "txt": "t"}, mode)
        if how == "k" and not (mode == "F" and kid["k"] in PACKABLE and kid["nat"] >= 1):
            how, amt = "g", 0
        if how == "k":
            width, need = "pack", max(kid["nat"], kid["nc"])
        elif how == "g":
            width = need = kid["nc"] + amt
        else:
            width, need = ["relative", amt], _ceil_div(kid["nc"] * 100, amt) + 1
        # min_width: with a relative width the child gets max(share, min_width) columns and the fixed left / right
        # columns give way to it (calculate_left_right_padding's contract), so a min_width that covers the child's
        # need makes the child's need the need of the Padding; with a given / pack width it changes nothing
        minw = _min(spec.get("mw"), kid["nc"])
        total = need + left + right
        if isinstance(width, list) and minw is not None and minw >= kid["nc"]:
            total = kid["nc"]
        return {
            "k": "pad", "mode": mode, "kids": [kid], "width": width, "left": left, "right": right, "minw": minw,
            "al": self._align(spec.get("al", 0)), "nc": total, "nr": kid["nr"],
        }

    def _p_over(self, spec, mode):
        hhow, hamt = _dim(spec.get("h"))
        whow, wamt = _dim(spec.get("w"))
        top_spec = spec.get("top") or {"k": "text", "txt": "t"}
        if hhow == "k" or (isinstance(top_spec, dict) and top_spec.get("k") in FLOW_ONLY):
            top = self.plan(top_spec, "F")
            height, hneed = "pack", top["nr"]
        else:
            top = self.plan(top_spec, "B")
            if hhow == "g":
                height = hneed = top["nr"] + hamt
            else:
                height, hneed = ["relative", hamt], _ceil_div(top["nr"] * 100, hamt) + 1
        if whow == "r":
            width, wneed = ["relative", wamt], _ceil_div(top["nc"] * 100, wamt) + 1
        else:
            width = wneed = top["nc"] + (wamt if whow == "g" else 0)
        ml, mr = _int(spec.get("l", 0), 0, 2), _int(spec.get("r", 0), 0, 2)
        mt, mb = _int(spec.get("t", 0), 0, 2), _int(spec.get("b", 0), 0, 2)
        # min_width / min_height: as for Padding / Filler (same helpers), with a relative width / height
        minw, minh = _min(spec.get("mw"), top["nc"]), _min(spec.get("mh"), top["nr"])
        nc, nr = wneed + ml + mr, hneed + mt + mb
        if isinstance(width, list) and minw is not None and minw >= top["nc"]:
            nc = top["nc"]
        if isinstance(height, list) and minh is not None and minh >= top["nr"]:
            nr = top["nr"]
        return {
            "k": "over", "mode": "B", "kids": [top], "bg": bool(spec.get("bg", 0)), "width": width, "height": height,
            "al": self._align(spec.get("al", 1)), "va": self._valign(spec.get("va", 1)), "minw": minw, "minh": minh,
            "ml": ml, "mr": mr, "mt": mt, "mb": mb, "nc": nc, "nr": nr,
        }

    def _p_box(self, spec, mode):
        kid = self.plan(spec.get("n") or {"k": "fill"}, "B")
        height = kid["nr"] + _int(spec.get("x", 0), 0, 3)
        return {"k": "box", "mode": "F", "kids": [kid], "height": height, "nc": kid["nc"], "nr": height}

    def _p_line(self, spec, mode):
        kid = self.plan(spec.get("n") or {"k": "text", "txt": "t"}, mode)
        drop = sorted({d for d in (spec.get("drop") or []) if d in ("tline", "bline", "lline", "rline")})
        title = str(spec.get("title", "")) if "tline" not in drop else ""
        return {
            "k": "line", "mode": mode, "kids": [kid], "drop": drop, "title": title,
            "nc": max(kid["nc"] + ("lline" not in drop) + ("rline" not in drop), len(title) + 4),
            "nr": kid["nr"] + ("tline" not in drop) + ("bline" not in drop),
        }

    def _p_attr(self, spec, mode):
        kid = self.plan(spec.get("n") or {"k": "text", "txt": "t"}, mode)
        return {
            "k": "attr", "mode": mode, "kids": [kid], "amap": _int(spec.get("amap", 0), 0, 2),
            "fmap": _int(spec.get("fmap", 0), 0, 1), "nc": kid["nc"], "nr": kid["nr"],
        }


# ---------------------------------------------------------------------------------------------
# building: node -> fresh widgets


def _t(x):
    return tuple(x) if isinstance(x, list) else x


class Registry:
    def __init__(self):
        self.log = []
        self.probes = []  # pid -> dict(w, node, sel, bg, mv)
        self.conts = []  # containers / decorations in build order: dict(w, node)


def build(node, reg, bg=False, mv=True, anc=(), fixes=frozenset()):
    """fresh widget tree for `node`.  bg: below an Overlay's bottom slot; mv: every widget from the
    root down to here implements move_cursor_to_coords; anc: kinds of the ancestors."""
    w = _build(node, reg, bg, mv, anc, fixes)
    if reg is not None and node["k"] not in LEAF_W:
        cid = len(reg.conts)
        reg.conts.append({"w": w, "node": node})

        # the rows of the canvas this widget returns are logged (fit precondition of the widgets that are no
        # leaves, Harness.hosts_fit); the widget itself is the plain urwid class
        def render(size, focus=False, _inner=w.render, _cid=cid, _log=reg.log):
            canv = _inner(size, focus)
            _log.append(("crender", _cid, len(size), canv.cols(), canv.rows()))
            return canv

        w.render = render
    return w


def _build(node, reg, bg, mv, anc, fixes):
    k = node["k"]
    kids = node["kids"]
    if k in LEAF_W:
        w = make_leaf(node["leaf"], probe=reg is not None)
        if reg is not None:
            pid = len(reg.probes)
            w._c09 = (reg, pid)
            reg.probes.append({"w": w, "node": node, "sel": k in SELECTABLE_LEAVES, "bg": bg, "mv": mv, "anc": anc})
        return w
    sub_mv = mv and k not in NO_MOVE
    ws = [build(kid, reg, bg, sub_mv, (*anc, k), fixes) for kid in kids]
    if k == "pile":
        items = [(("pack", w) if o[0] == "pack" else (o[0], o[1], w)) for o, w in zip(node["opts"], ws)]
        return urwid.Pile(items, focus_item=node["f"])
    if k == "cols":
        items = [(("pack", w) if o[0] == "pack" else (o[0], o[1], w)) for o, w in zip(node["opts"], ws)]
        return urwid.Columns(items, dividechars=node["div"], focus_column=node["f"], box_columns=node["boxcols"] or None)
    if k == "grid":
        return (FixedGridFlow if "gridflow-pack" in fixes else urwid.GridFlow)(ws, node["cw"], node["hs"], node["vs"], node["al"], focus=node["f"])
    if k == "lb":
        lb = urwid.ListBox(urwid.SimpleFocusListWalker(ws))
        if node["f"] is not None:
            lb.focus_position = node["f"]
        return lb
    if k == "frame":
        it = iter(ws)
        hdr = next(it) if node["hdr"] else None
        body = next(it)
        ftr = next(it) if node["ftr"] else None
        return urwid.Frame(body, hdr, ftr, focus_part=node["fp"])
    if k == "filler":
        return (FixedFiller if "filler-move" in fixes else urwid.Filler)(
            ws[0], valign=_t(node["va"]), height=_t(node["height"]), min_height=node.get("minh"), top=node["top"], bottom=node["bottom"]
        )
    if k == "pad":
        return urwid.Padding(
            ws[0], align=_t(node["al"]), width=_t(node["width"]), min_width=node.get("minw"), left=node["left"], right=node["right"]
        )
    if k == "over":
        if node["bg"] and reg is not None:
            bottom = build({"k": "fill", "mode": "B", "leaf": {"k": "fill"}, "nc": 1, "nr": 1, "kids": []}, reg, True, False)
        else:
            bottom = urwid.SolidFill(".")
        return (FixedOverlay if "overlay-cursor" in fixes else urwid.Overlay)(
            ws[0], bottom, _t(node["al"]), _t(node["width"]), _t(node["va"]), _t(node["height"]),
            min_width=node.get("minw"), min_height=node.get("minh"),
            left=node["ml"], right=node["mr"], top=node["mt"], bottom=node["mb"],
        )
    if k == "box":
        return urwid.BoxAdapter(ws[0], node["height"])
    if k == "line":
        return urwid.LineBox(ws[0], title=node["title"], **{d: "" for d in node["drop"]})
    if k == "attr":
        amap = [None, "a", {None: "a"}][node["amap"]]
        return urwid.AttrMap(ws[0], amap, "f" if node["fmap"] else None)
    raise AssertionError(k)


# ---------------------------------------------------------------------------------------------
# reading the drawing


def attr_grid(canvas):
    cols = canvas.cols()
    grid = []
    for row in canvas.content():
        cells = []
        for attr, cs, text in row:
            n = len(text) if cs in ("0", "U") else W.width(text, MODE)
            cells.extend([attr] * n)
        if len(cells) != cols:
            stat("discard:content-row-width")  # C02's business
            raise Discard()
        grid.append(cells)
    return grid


def rectangles(grid):
    """pid -> (left, top, width, height, count of cells)"""
    box = {}
    for r, row in enumerate(grid):
        for c, attr in enumerate(row):
            if isinstance(attr, str) and attr[:1] == "P" and attr[1:].isdigit():
                pid = int(attr[1:])
                b = box.get(pid)
                if b is None:
                    box[pid] = [c, r, c, r, 1]
                else:
                    if c < b[0]:
                        b[0] = c
                    if c > b[2]:
                        b[2] = c
                    if r > b[3]:
                        b[3] = r
                    b[4] += 1
    return {pid: (b[0], b[1], b[2] - b[0] + 1, b[3] - b[1] + 1, b[4]) for pid, b in box.items()}


def run_ends(cells):
    """first and last index of every maximal run of equal entries"""
    out = []
    for i, a in enumerate(cells):
        if i == 0 or a != cells[i - 1] or i + 1 == len(cells) or a != cells[i + 1]:
            out.append(i)
    return out


def pid_at(grid, c, r):
    attr = grid[r][c]
    if isinstance(attr, str) and attr[:1] == "P" and attr[1:].isdigit():
        return int(attr[1:])
    return None


# ---------------------------------------------------------------------------------------------
# the check


_ACTIVE = None


def active_known():
    """ids of this property's listed known findings; read once per process, and only from
    known_findings.json and this property's own fragment (other fragments are being written by
    other builders while this runs)"""
    global _ACTIVE  # noqa: PLW0603
    if _ACTIVE is None:
        ids = set()
        for path in (os.path.join(ROOT, "known_findings.json"), os.path.join(ROOT, "known_findings.d", f"{PROPERTY}.json")):
            if os.path.exists(path):
                with open(path) as f:
                    ids.update(x["id"] for x in json.load(f)["findings"] if x["property"] == PROPERTY and x["status"] == "known")
        _ACTIVE = ids
    return _ACTIVE


class Skip(Exception):
    """a listed known finding was hit: the dependent assertions are skipped, the case goes on"""


class RenderFailed(Exception):
    """root.render raised inside urwid: there is no drawing to establish the fit precondition on"""

    def __init__(self, violation):
        super().__init__(str(violation))
        self.violation = violation


def _kinds_of(node, out):
    out.add(node["k"])
    for kid in node["kids"]:
        _kinds_of(kid, out)
    return out


def _same(a, b):
    return a.clause == b.clause and a.message == b.message


MAX_AREA = 600
_CLAUSE3_SEEN: dict = {}  # (tree, mode, size) -> instances of listed findings clause 3 met (nothing unlisted), this process
NOTE_NEVER = " [never rendered tree]"
NOTE_RESIZED = " [resized, not drawn since]"


class Harness:
    def __init__(self, case, fixes=frozenset(), collect=None):
        self.case = case
        self.fixes = frozenset(fixes)
        self.collect = collect  # a list: record every violation and go on (attribution re-runs)
        self.mode = "F" if case.get("mode") == "F" else "B"
        self.known = {k: p for k, p in KNOWN.items() if k in active_known()}
        self.deferred = []
        self.reruns = {}
        self.pending = None  # an event sent right after a resize, judged on the next drawing
        self.steps = 0
        self.root_node = Planner().plan(case["tree"], self.mode)
        self.kinds = _kinds_of(self.root_node, set())
        cols = self.root_node["nc"] + _int(case.get("dc", 0), 0, 6)
        rows = self.root_node["nr"] + _int(case.get("dr", 0), 0, 4)
        if cols * rows > MAX_AREA:
            # bound of the campaign (every cell is visited, several times): larger drawings are not generated
            if collect is None:
                stat(f"discard:area>{MAX_AREA}")
            raise Discard()
        self.size = (cols, rows) if self.mode == "B" else (cols,)

    # ---- reporting --------------------------------------------------------------------------
    def _rerun(self, names):
        key = frozenset(names)
        if key not in self.reruns:
            seen = []
            try:
                Harness(self.case, fixes=key, collect=seen).run()
            except Discard:
                seen = None
            self.reruns[key] = seen
        return self.reruns[key]

    def attribute(self, v, recheck=None):
        """names of the proposed patches under which this very violation no longer occurs (the tree still
        fitting): one patch if one suffices, else a minimal set (two listed defects can cooperate).
        recheck(names) -> True if the failed assertion alone, repeated on a fresh tree carrying those
        patches, no longer fails; tried first because it is cheap, the whole case is re-run otherwise."""

        def whole(names):
            seen = self._rerun(names)
            return seen is not None and not any(_same(x, v) for x in seen)

        def local(names):
            try:
                return bool(recheck(frozenset(names)))
            except (Discard, RenderFailed):
                return False

        names = [name for name, (kinds, _cls) in FIXES.items() if self.kinds.intersection(kinds)]
        for gone in ([local] if recheck is not None else []) + [whole]:
            for name in names:
                if gone([name]):
                    return [name]
            if len(names) > 1 and gone(names):
                for name in list(names):
                    rest = [n for n in names if n != name]
                    if rest and gone(rest):
                        names = rest
                return names
        return None

    def report(self, v, recheck=None):
        """raise v, unless it is an instance of a listed known finding: then remember it, skip what
        depends on the failed call and go on with the rest of the case"""
        if self.collect is not None:
            self.collect.append(v)
            raise Skip()
        names = self.attribute(v, recheck)
        if names is not None:
            v2 = Violation(v.clause, f"{v.message} {fix_mark('+'.join(names))}")
            v2.__traceback__ = v.__traceback__
            v = v2
        for pred in self.known.values():
            try:
                hit = pred("tree", self.case, v)
            except Exception:  # noqa: BLE001
                hit = False
            if hit:
                self.deferred.append(v)
                raise Skip()
        raise v

    @staticmethod
    def raw(fn, what):
        """run an urwid entry point; an exception from inside urwid is raised as the runner's exception clause"""
        try:
            return fn()
        except (Violation, Discard, Skip, RenderFailed):
            raise
        except Exception as e:  # noqa: BLE001
            if not innermost_is_urwid(e):
                raise
            v = Violation(f"exception:{type(e).__name__}@{urwid_frame(e)}", f"{type(e).__name__}: {e} in {what}")
            v.__traceback__ = e.__traceback__
            raise v from e

    def guard(self, fn, what):
        """raw() + report(): returns, raises an unlisted Violation, or raises Skip"""
        try:
            return self.raw(fn, what)
        except Violation as v:
            self.report(v)
            raise Skip() from v

    # ---- drawing ----------------------------------------------------------------------------
    def fresh(self, probes=True, fixes=None):
        reg = Registry() if probes else None
        return build(self.root_node, reg, fixes=self.fixes if fixes is None else fixes), reg

    def draw_raw(self, root, reg, count=True):
        """render focus=True with an empty cache; -> (canvas, grid, rects, sizes) after the fit check.
        Raises Discard if the tree does not fit, RenderFailed if render raises inside urwid."""
        urwid.CanvasCache.clear()
        del reg.log[:]
        try:
            canv = self.raw(lambda: root.render(self.size, True), "render")
        except Violation as v:
            raise RenderFailed(v) from v
        count = count and self.collect is None

        def unfit(label):
            if count:
                stat(label)
            raise Discard()

        if canv.cols() != self.size[0] or (self.mode == "B" and canv.rows() != self.size[1]):
            unfit("discard:canvas-size")  # C01's business
        grid = attr_grid(canv)
        rects = rectangles(grid)
        rendered, focused = {}, set()
        for e in reg.log:
            if e[0] == "render":
                rendered.setdefault(e[1], set()).add((e[2], e[4], e[5]))
                if e[3]:
                    focused.add(e[1])
        sizes = {}
        for pid, p in enumerate(reg.probes):
            if p["bg"]:
                continue
            # a ListBox is the one container made to show part of its children: an item that does not lie on
            # the focus chain may be scrolled out or cut by the edge of the list box.  Such a probe is no
            # "cell where a child widget is drawn [in full]": it is taken out of `rects`, nothing is asserted
            # about its cells in this drawing.  The leaf that is rendered with focus (the one the cursor
            # clause is about) must be there in full like every probe outside a ListBox.
            scrolls = "lb" in p["anc"] and pid not in focused
            got = rendered.get(pid)
            if not got:
                if scrolls:
                    rects.pop(pid, None)
                    if count:
                        stat("fit:listbox-item-scrolled-out")
                    continue
                unfit("discard:unfit:not-rendered")
            if len(got) != 1:
                unfit("discard:rendered-at-two-sizes")
            size, ccols, crows = next(iter(got))
            rect = rects.get(pid)
            bad = None
            if rect is None or ccols < 1 or crows < 1:
                bad = "hidden"
            elif rect[2] != ccols or rect[3] != crows or rect[4] != ccols * crows:
                bad = "clipped"
            if bad is not None:
                if scrolls:
                    rects.pop(pid, None)
                    if count:
                        stat("fit:listbox-item-" + bad)
                    continue
                unfit("discard:unfit:" + bad)
            sizes[pid] = size
        if not self.hosts_fit(reg):
            unfit("discard:unfit:flow-widget-taller-than-its-box-parent-has-rows")
        return canv, grid, rects, sizes

    @staticmethod
    def hosts_fit(reg):
        """the fit precondition for the widgets that are no leaves: "every widget on the way gets the rows it
        needs".  A flow widget says what it needs by the rows of the canvas it returns; it can be given less only
        where a box widget holds it (Filler / Overlay with height 'pack', Frame header and footer, the 'pack'
        items of a box Pile), and there the holder cuts it (a LineBox loses its border, the Filler scrolls it
        to the cursor) although every leaf may still be drawn in full.  Rows are taken from the canvases the
        widgets returned in this drawing; the only geometry used is which children a holder stacks."""
        rows = {}
        for e in reg.log:
            if e[0] == "crender":
                rows[id(reg.conts[e[1]]["node"])] = e[4]
            elif e[0] == "render":
                rows[id(reg.probes[e[1]]["node"])] = e[5]
        for c in reg.conts:
            node = c["node"]
            k, have = node["k"], rows.get(id(node))
            if have is None:
                continue  # not rendered in this drawing (scrolled out of a ListBox)
            kid_rows = [rows.get(id(kid)) for kid in node["kids"]]
            if k == "filler" and node["height"] == "pack":
                need = [kid_rows[0], node["top"], node["bottom"]]
            elif k == "over" and node["height"] == "pack":
                need = [kid_rows[0], node["mt"], node["mb"]]
            elif k == "frame":
                need = [1 if i == int(node["hdr"]) else r for i, r in enumerate(kid_rows)]  # the body: at least a row
            elif k == "pile" and node["mode"] == "B":
                need = [r if o[0] == "pack" else (o[1] if o[0] == "given" else 1) for o, r in zip(node["opts"], kid_rows)]
            else:
                continue
            if any(n is None for n in need) or sum(need) > have:
                return False
        return True

    @staticmethod
    def min_stats(reg):
        """evidence only: how often a min_width / min_height was in force in a fitting first drawing, and how often
        it took columns / rows from the fixed margins (child drawn larger than the holder minus its margins)"""
        dims = {}
        for e in reg.log:
            if e[0] == "crender":
                dims[id(reg.conts[e[1]]["node"])] = (e[3], e[4])
            elif e[0] == "render":
                dims[id(reg.probes[e[1]]["node"])] = (e[4], e[5])
        for c in reg.conts:
            node = c["node"]
            have, kid = dims.get(id(node)), dims.get(id(node["kids"][0])) if node["kids"] else None
            if have is None or kid is None:
                continue
            for axis, key, dim, margins in ((0, "minw", "width", ("left", "right", "ml", "mr")), (1, "minh", "height", ("top", "bottom", "mt", "mb"))):
                if node["k"] not in ("pad", "filler", "over") or node.get(key) is None or not isinstance(node.get(dim), list):
                    continue
                fixed = sum(node.get(m, 0) for m in margins)
                stat(f"min:{node['k']}:{key}:in-force")
                if fixed and kid[axis] > have[axis] - fixed:
                    stat(f"min:{node['k']}:{key}:margins-gave-way")

    def draw(self, root, reg, count=True):
        try:
            return self.draw_raw(root, reg, count)
        except RenderFailed as rf:
            # no drawing, so the fit precondition cannot be established on this tree.  Rendering failures
            # are C01's business; the exception is pursued here only if it is an instance of a listed
            # cursor/geometry defect (it disappears, and the tree fits, under that defect's patch).
            v = rf.violation
            if self.collect is not None or self.attribute(v) is None:
                if self.collect is None and count:
                    stat(f"discard:render-raises:{v.clause}")
                raise Discard() from rf
            self.report(v)
            raise Skip() from rf

    # ---- clause 1 ---------------------------------------------------------------------------
    def initial(self, fixes):
        """fresh tree: asked for its cursor, drawn (fit check), asked again.
        -> (root, reg, canvas, grid, rects, sizes, violations of clause 1)"""
        root, reg = self.fresh(fixes=fixes)
        has = hasattr(root, "get_cursor_coords")
        before = None
        if has:
            try:
                before = ("ok", self.raw(lambda: root.get_cursor_coords(self.size), "get_cursor_coords (never rendered tree)"))
            except Violation as v:
                before = ("exc", v)
        canv, grid, rects, sizes = self.draw_raw(root, reg, count=fixes == self.fixes)
        out = []
        if not has:
            # the root does not implement the cursor protocol (e.g. AttrMap over a SolidFill): outside the quantifier
            return root, reg, canv, grid, rects, sizes, out
        if before[0] == "exc":
            out.append(before[1])
        elif before[1] != canv.cursor:
            out.append(self.disagree("never rendered tree", before[1], canv))
        try:
            after = self.raw(lambda: root.get_cursor_coords(self.size), "get_cursor_coords (rendered tree)")
            if after != canv.cursor:
                out.append(self.disagree("rendered tree", after, canv))
        except Violation as v:
            out.append(v)
        return root, reg, canv, grid, rects, sizes, out

    def disagree(self, what, got, canv):
        return Violation(
            "cursor-agree",
            f"{what}: get_cursor_coords({self.size}) == {got!r}, render({self.size}, True).cursor == {canv.cursor!r}",
        )

    def check_cursor(self, root, canv, what):
        """clause 1 on a tree whose focused rendering is `canv`"""
        if not hasattr(root, "get_cursor_coords"):
            return
        try:
            got = self.guard(lambda: root.get_cursor_coords(self.size), f"get_cursor_coords ({what})")
            if got != canv.cursor:
                self.report(self.disagree(what, got, canv))
        except Skip:
            return
        stat("cursor:agree:" + ("none" if got is None else "coords"))

    # ---- clause 2 ---------------------------------------------------------------------------
    def send(self, root, reg, grid, rects, event, button, c, r, note=""):
        """one mouse event to `root`, judged against the drawing (grid, rects) of a tree in the same state"""
        del reg.log[:]
        try:
            self.guard(lambda: root.mouse_event(self.size, event, button, c, r, True), f"mouse_event at ({c},{r}){note}")
            self.judge([e for e in reg.log if e[0] == "mouse"], reg, grid, rects, event, button, c, r, note)
        except Skip:
            return

    def judge(self, hits, reg, grid, rects, event, button, c, r, note=""):
        """clause 2 for one delivered event: `hits` are the mouse_event calls the probes logged"""
        pid = pid_at(grid, c, r)
        if pid is None or reg.probes[pid]["bg"] or pid not in rects:
            stat("mouse:cell-outside-probes")
            return
        left, top = rects[pid][0], rects[pid][1]
        kind = reg.probes[pid]["node"]["k"]
        size = f" of size {self.size}" if note else ""
        others = sorted({e[1] for e in hits if e[1] != pid})
        if others:
            self.report(
                Violation(
                    "mouse-only-to-drawn-child",
                    f"{event!r} button {button} at ({c},{r}){size}{note}, where probe {pid} ({kind}) is drawn, was "
                    f"delivered to probes {others}",
                )
            )
        mine = [e for e in hits if e[1] == pid]
        if not mine:
            self.report(
                Violation(
                    "mouse-delivered",
                    f"{event!r} button {button} at ({c},{r}){size}{note}: probe {pid} ({kind}) is drawn there (its "
                    f"rectangle starts at ({left},{top})) but its mouse_event was not called",
                )
            )
        for e in mine:
            if (e[5], e[6]) != (c - left, r - top):
                self.report(
                    Violation(
                        "mouse-relative-coords",
                        f"{event!r} button {button} at ({c},{r}){size}{note}: probe {pid} ({kind}) drawn from "
                        f"({left},{top}) received (col,row) = ({e[5]},{e[6]}), expected ({c - left},{r - top})",
                    )
                )
        stat("mouse:delivered" + note.replace(",", "").replace(" [", ":").replace("]", "").replace(" ", "-"))

    # ---- clause 3 ---------------------------------------------------------------------------
    def move_violation(self, fixes, c, r, pid, probe, rect, psize):
        """one move_cursor_to_coords on a fresh tree -> (Violation | None, label for the statistics)"""
        root, _reg = self.fresh(probes=False, fixes=fixes)
        left, top = rect[0], rect[1]
        kind = probe["node"]["k"]
        twin = make_leaf(probe["node"]["leaf"], probe=False)
        if hasattr(twin, "move_cursor_to_coords"):
            exp = twin.move_cursor_to_coords(psize, c - left, r - top) is not False
        else:
            exp = True  # a selectable widget without the method accepts every cell (all containers read it so)
        what = f"move_cursor_to_coords({self.size}, {c}, {r})"
        try:
            got = self.raw(lambda: root.move_cursor_to_coords(self.size, c, r), what)
            if bool(got) != exp:
                return Violation(
                    "move-accept",
                    f"{what} returned {got!r}; the cell is ({c - left},{r - top}) of probe {pid} ({kind}, drawn from "
                    f"({left},{top}) at size {psize}) whose twin {'accepts' if exp else 'rejects'} it",
                ), None
            if not exp:
                return None, "move:rejected"
            tcur = twin.get_cursor_coords(psize) if hasattr(twin, "get_cursor_coords") else None
            if tcur is None:
                return None, "move:accepted:twin-has-no-cursor"
            want = (left + tcur[0], top + tcur[1])
            cur = self.raw(lambda: root.get_cursor_coords(self.size), f"get_cursor_coords (after {what})")
            if cur != want:
                clause = "move-cursor-row" if (cur is None or cur[1] != want[1]) else "move-cursor-col"
                return Violation(
                    clause,
                    f"after {what} == True the root reports cursor {cur!r}; probe {pid} ({kind}, drawn from "
                    f"({left},{top}) at size {psize}) asked for ({c - left},{r - top}) puts it at {tcur!r}, i.e. {want!r}",
                ), None
            if kind in ROW_EXACT and cur[1] != r:
                # the statement itself, no twin involved: "... and afterwards the reported cursor is on the requested row"
                return Violation(
                    "move-cursor-requested-row",
                    f"{what} returned {got!r} but afterwards the root reports its cursor at {cur!r}, not on row {r} "
                    f"(cell ({c - left},{r - top}) of probe {pid}, {kind} {probe['node']['leaf']!r}, drawn from "
                    f"({left},{top}) at size {psize})",
                ), None
        except Violation as v:
            return v, None
        return None, "move:accepted"

    def move(self, *args):
        v, label = self.move_violation(self.fixes, *args)
        if v is None:
            stat(label)
            return

        def recheck(names):
            with patches_applied(self.fixes | names):
                v2, _label = self.move_violation(self.fixes | names, *args)
            return v2 is None or not _same(v2, v)

        try:
            self.report(v, recheck)
        except Skip:
            return

    def elsewhere_violation(self, fixes, c, r):
        """clause 3 for a cell that is no cell of a selectable leaf on the move path (margin rows of a Filler, the
        rows below a column that is shorter than its neighbours, dividers, borders, unselectable children): the
        statement's "... and afterwards the reported cursor is on the requested row", no twin and no geometry helper
        involved.  A fresh tree is asked to move its cursor to the cell; if it says it did and then reports a
        cursor, the tree is drawn (fit precondition) and the leaf whose rectangle holds the reported cursor must be
        drawn on the requested row (Edit: the cursor itself is on that row).  Which column the cursor is in is not
        the statement's (Columns / Padding snap to the nearest selectable column on purpose).
        -> (Violation | None, label for the statistics)"""
        with patches_applied(fixes):
            root, reg = self.fresh(fixes=fixes)
            what = f"move_cursor_to_coords({self.size}, {c}, {r})"
            try:
                got = self.raw(lambda: root.move_cursor_to_coords(self.size, c, r), what)
                if not got:
                    return None, "move:elsewhere:rejected"
                cur = self.raw(lambda: root.get_cursor_coords(self.size), f"get_cursor_coords (after {what})")
            except Violation as v:
                return v, None
            if cur is None:
                return None, "move:elsewhere:accepted:no-cursor-reported"
            try:
                _canv, grid, rects, sizes = self.draw_raw(root, reg, count=False)
            except (Discard, RenderFailed):
                return None, "move:elsewhere:accepted:tree-does-not-fit-afterwards"
        x, y = cur
        if not (0 <= y < len(grid) and 0 <= x < len(grid[y])):
            return None, "move:elsewhere:accepted:cursor-outside-the-drawing"  # clause 1's business
        pid = pid_at(grid, x, y)
        if pid is None or pid not in rects or reg.probes[pid]["bg"] or not reg.probes[pid]["mv"]:
            # the cursor is shown by a widget below a Frame / ListBox / Overlay (no move_cursor_to_coords: the
            # container above them moved its focus there, the cell never reached the leaf)
            return None, "move:elsewhere:accepted:cursor-below-a-widget-without-the-method"
        left, top, _w, h, _n = rects[pid]
        kind = reg.probes[pid]["node"]["k"]
        if not top <= r < top + h or (kind in ROW_EXACT and y != r):
            return Violation(
                "move-cursor-requested-row",
                f"{what} returned {got!r} but afterwards the root reports its cursor at {cur!r}, in probe {pid} ({kind} "
                f"{reg.probes[pid]['node']['leaf']!r}) which is drawn on rows {top}..{top + h - 1}"
                + ("" if top <= r < top + h else f": {NOT_ON_ROW} {r}")
                + f" (the cell is outside every selectable leaf of the first drawing; size of the leaf {sizes.get(pid)})",
            ), None
        return None, "move:elsewhere:accepted:cursor-on-the-requested-row"

    def move_elsewhere(self, c, r):
        v, label = self.elsewhere_violation(self.fixes, c, r)
        if v is None:
            stat(label)
            return

        def recheck(names):
            v2, _label = self.elsewhere_violation(self.fixes | names, c, r)
            return v2 is None or not _same(v2, v)

        try:
            self.report(v, recheck)
        except Skip:
            return

    # ---- the case ---------------------------------------------------------------------------
    def run(self):
        with warnings.catch_warnings(record=True) as wlist:
            warnings.simplefilter("always")
            try:
                with patches_applied(self.fixes):
                    self._run()
            except Skip:
                pass
            for wm in wlist:
                if issubclass(wm.category, WidgetWarning):
                    if self.collect is None:
                        stat(f"discard:warning:{wm.category.__name__}")
                    raise Discard()
        if self.deferred:
            raise self.deferred[0]

    def _run(self):
        # clause 1: a fresh tree is asked "without rendering", then drawn.  Nothing is reported before the fit
        # precondition holds on the drawing (initial() raises Discard otherwise).
        try:
            root, reg, canv0, grid0, rects0, sizes0, found = self.initial(self.fixes)
        except RenderFailed as rf:
            v = rf.violation
            if self.collect is not None or self.attribute(v) is None:
                if self.collect is None:
                    stat(f"discard:render-raises:{v.clause}")
                raise Discard() from rf
            self.report(v)
            raise Skip() from rf
        if self.collect is None:
            stat("fit")
            self.min_stats(reg)
        if not hasattr(root, "get_cursor_coords"):
            stat("cursor:root-without-protocol")
        for v in found:

            def recheck(names, v=v):
                with patches_applied(self.fixes | names):
                    return not any(_same(x, v) for x in self.initial(self.fixes | names)[6])

            try:
                self.report(v, recheck)
            except Skip:
                pass
        if not found and hasattr(root, "get_cursor_coords"):
            stat("cursor:agree:" + ("none" if canv0.cursor is None else "coords"), 2)
        ncols, nrows = canv0.cols(), canv0.rows()

        # clause 3: a fresh tree per cell (rectangles of the first drawing = the initial state)
        # (every call is made on a fresh tree, so what this block finds is a function of the tree and the size alone:
        # a tree + size is not gone through again for the next history on the same tree + size, the instances of
        # listed findings it met are taken over)
        memo = (json.dumps(self.case["tree"], sort_keys=True), self.mode, self.size)
        mark = len(self.deferred)
        if self.collect is None and memo in _CLAUSE3_SEEN:
            self.deferred.extend(_CLAUSE3_SEEN[memo])
            stat("move:tree-and-size-gone-through-before")
        elif hasattr(root, "move_cursor_to_coords"):
            twinned = set()
            for pid, p in enumerate(reg.probes):
                if not p["sel"] or p["bg"]:
                    continue
                if not p["mv"]:
                    stat("move:path-without-method(skipped)")
                    continue
                if pid not in rects0:
                    continue
                left, top, w, h, _n = rects0[pid]
                for r in range(top, top + h):
                    for c in range(left, left + w):
                        twinned.add((c, r))
                        self.move(c, r, pid, p, rects0[pid], sizes0[pid])
            # ... and every other cell of the rendered area (margins, dividers, borders, rows below a short column,
            # unselectable children, leaves below a Frame / ListBox / Overlay): if the tree says it moved its cursor
            # there, the cursor it reports is in a leaf drawn on the requested row.  Every row; in a row the first and
            # the last column of every maximal run of cells that show the same thing in the first drawing (one leaf,
            # or the same margin / divider / border attribute): the clause is about the row, columns are snapped
            for r in range(nrows):
                for c in run_ends(grid0[r]):
                    if (c, r) not in twinned:
                        self.move_elsewhere(c, r)
            if self.collect is None:
                _CLAUSE3_SEEN[memo] = tuple(self.deferred[mark:])

        # clause 2 "without rendering": the event reaches a tree that was never drawn (nor asked anything) at any
        # size - input that arrives before the first screen update.  What is drawn where is read off the first
        # drawing of the twin above (same spec, same initial state).  A fresh tree per event, the corners and the
        # centre of every probe's rectangle.
        event, button = EVENTS[_int(self.case.get("ev", 0), 0, len(EVENTS) - 1)]
        for pid in sorted(rects0):
            if reg.probes[pid]["bg"]:
                continue
            left, top, w, h, _n = rects0[pid]
            cells = {(left, top), (left + w - 1, top), (left, top + h - 1), (left + w - 1, top + h - 1), (left + w // 2, top + h // 2)}
            for c, r in sorted(cells):
                root2, reg2 = self.fresh()
                self.send(root2, reg2, grid0, rects0, event, button, c, r, NOTE_NEVER)

        # clause 2: every cell, an event that changes no state, on the drawn tree
        canv, grid, rects, _sizes = self.draw(root, reg)
        for r in range(nrows):
            for c in range(ncols):
                self.send(root, reg, grid, rects, event, button, c, r)

        # history on the same tree: button-1 presses, content changes of a leaf, keys, focus / alignment setters of
        # the containers, resizes.  After every step the tree is asked for its cursor *without rendering*, then drawn
        # again (fit precondition re-established on the new drawing, else the history ends there) and asked once
        # more.  The tree lives the way it does under a screen: the canvas of the previous drawing is still
        # referenced (so the canvas cache still answers for whatever the step did not invalidate).  Bit j of
        # case["ord"] decides the order for step j: 0 - the cursor is asked first; 1 - the tree is first rendered
        # with those canvases kept (the next screen update), then asked.  Either way the fit precondition is then
        # established on a drawing made with an empty cache, and the answer must agree with both renderings.
        applied = 0
        order = int(self.case.get("ord", 0) or 0)
        for op in self.history():
            self.pending = None
            try:
                what = self.apply(op, root, reg, grid, rects, ncols, nrows)
            except Discard:
                if self.collect is not None:
                    raise  # attribution re-run: a history that cannot be followed to its end attributes nothing
                applied = 0  # the step may have been carried out in part: no drawing of the final state
                break
            if what is None:
                continue
            draw_first = (order >> (self.steps % 16)) & 1
            self.steps += 1
            live = None
            if draw_first:
                try:
                    live = self.raw(lambda: root.render(self.size, True), "render (canvases of the previous drawing kept)")
                    what_asked = f"{what}, rendered once since (canvases of the previous drawing still referenced)"
                except Violation:
                    draw_first = 0  # a rendering failure is not this property's; the drawing below decides
            if not draw_first:
                what_asked = f"{what}, not rendered since"
            before = self.ask(root, f"get_cursor_coords ({what_asked})")
            try:
                canv, grid, rects, _sizes = self.draw(root, reg, count=False)
            except Discard:
                # the changed tree no longer fits its size (or cannot be drawn): outside the property from here on
                if self.collect is not None:
                    raise
                stat("history:ended:unfit")
                applied = 0  # no drawing of the final state to sweep
                break
            applied += 1
            ncols, nrows = canv.cols(), canv.rows()
            if self.pending is not None:
                self.judge_pending(reg, grid, rects, ncols, nrows)
            if before is not None:
                try:
                    if before[0] == "exc":
                        self.report(before[1])
                    elif live is not None and before[1] != live.cursor:
                        self.report(self.disagree(what_asked, before[1], live))
                    elif before[1] != canv.cursor:
                        self.report(self.disagree(what_asked, before[1], canv))
                    else:
                        stat("cursor:agree:" + ("none" if before[1] is None else "coords"))
                        if live is not None:
                            stat("cursor:agree:kept-canvases")
                except Skip:
                    pass
            live = None
            self.check_cursor(root, canv, f"{what}, rendered")

        # clause 2 again on the state the history ended in
        if applied and ncols * nrows <= MAX_AREA:
            for r in range(nrows):
                for c in range(ncols):
                    self.send(root, reg, grid, rects, event, button, c, r)

    def history(self):
        """ops of the case: ["click", kind, i] | ["text", i, what, new] | ["key", i] | ["set", target, spelling, value] |
        ["size", dc, dr, cell]; the older "clicks" list first"""
        out = [["click", cl[0], cl[1]] for cl in self.case.get("clicks") or []]
        out += [list(op) for op in self.case.get("ops") or [] if isinstance(op, (list, tuple)) and op]
        return out

    def ask(self, root, what):
        """the cursor the tree reports now, held back (also an exception) until the next drawing passed the fit check"""
        if not hasattr(root, "get_cursor_coords"):
            return None
        try:
            return ("ok", self.raw(lambda: root.get_cursor_coords(self.size), what))
        except Violation as v:
            return ("exc", v)

    def apply(self, op, root, reg, grid, rects, ncols, nrows):
        """one step of the history on the live tree -> description, or None if the step does not apply"""
        kind = op[0]
        if kind == "click":
            probe_cells = [(c, r) for r in range(nrows) for c in range(ncols) if pid_at(grid, c, r) is not None]
            how, i = int(op[1]) % 2, int(op[2])
            if how and probe_cells:
                c, r = probe_cells[i % len(probe_cells)]
            else:
                c, r = i % ncols, (i // ncols) % nrows
            self.send(root, reg, grid, rects, "mouse press", 1, c, r)
            stat("click")
            return f"after button-1 press at ({c},{r})"
        if kind == "text":
            # the application changes what a leaf shows (public setters); its rows / natural width may change
            cands = [(pid, p) for pid, p in enumerate(reg.probes) if not p["bg"] and p["node"]["k"] != "fill"]
            if not cands:
                return None
            pid, p = cands[int(op[1]) % len(cands)]
            k, w, new = p["node"]["k"], p["w"], str(op[3])
            if k == "edit":
                if int(op[2]) % 2:
                    w.set_caption(new)
                    setter = "set_caption"
                else:
                    w.set_edit_text(new)
                    setter = "set_edit_text"
            elif k in ("icon", "text"):
                w.set_text(new)
                setter = "set_text"
            else:
                w.set_label(new)
                setter = "set_label"
            stat("op:text:" + k)
            return f"after probe {pid} ({k}) .{setter}({new!r})"
        if kind == "key":
            # keys reach a widget tree only if its topmost widget is selectable (MainLoop.process_input)
            if not root.selectable():
                return None
            key = KEYS[int(op[1]) % len(KEYS)]
            try:
                self.raw(lambda: root.keypress(self.size, key), f"keypress {key!r}")
            except Violation as v:
                # what keys do is not this property's: the history ends here
                if self.collect is None:
                    stat(f"history:ended:keypress-raises:{v.clause}")
                raise Discard() from v
            stat("op:key")
            return f"after key {key!r}"
        if kind == "set":
            return self.apply_set(op, reg)
        if kind == "size":
            # the window is resized and input arrives before the next screen update (MainLoop handles a batch of
            # 'window resize' + mouse input before it redraws): from here on every call carries the new size, and
            # the first thing the tree sees at that size is a mouse event.  The event changes no state, so what it
            # should have reached is read off the drawing that follows (judge_pending).
            cols = self.root_node["nc"] + _int(op[1], 0, 6)
            rows = self.root_node["nr"] + _int(op[2], 0, 4)
            new = (cols, rows) if self.mode == "B" else (cols,)
            if cols * rows > MAX_AREA or new == self.size:
                return None
            self.size = new
            i = int(op[3])
            # a flow root does not know its rows before it is drawn: the row is taken from the old drawing and the
            # event is judged only if it turns out to lie inside the new one
            c, r = i % cols, (i // cols) % (rows if self.mode == "B" else nrows)
            event, button = EVENTS[_int(self.case.get("ev", 0), 0, len(EVENTS) - 1)]
            del reg.log[:]
            try:
                self.raw(lambda: root.mouse_event(self.size, event, button, c, r, True), f"mouse_event at ({c},{r}){NOTE_RESIZED}")
                held = ("ok", [e for e in reg.log if e[0] == "mouse"])
            except Violation as v:
                held = ("exc", v)
            self.pending = (held, event, button, c, r)
            stat("op:size")
            return f"after a resize to {new} and {event!r} at ({c},{r})"
        return None

    def judge_pending(self, reg, grid, rects, ncols, nrows):
        held, event, button, c, r = self.pending
        self.pending = None
        if c >= ncols or r >= nrows:
            stat("mouse:resized:event-outside-the-new-drawing")
            return
        try:
            if held[0] == "exc":
                self.report(held[1])
            self.judge(held[1], reg, grid, rects, event, button, c, r, NOTE_RESIZED)
        except Skip:
            return

    def apply_set(self, op, reg):
        """the application moves the focus / the alignment through a public setter of a container, or the edit
        position of an Edit (every spelling the library supports, deprecated ones included: they are what
        existing applications call).  None of them changes what the tree needs."""
        targets = [t for t in reg.conts if t["node"]["k"] in SETTABLE]
        targets += [p for p in reg.probes if p["node"]["k"] == "edit" and not p["bg"]]
        if not targets:
            return None
        t = targets[int(op[1]) % len(targets)]
        w, node = t["w"], t["node"]
        k, j, val = node["k"], int(op[2]), int(op[3])
        if k == "edit":
            n = val % (len(w.edit_text) + 1)
            calls = [("set_edit_pos(%d)" % n, lambda: w.set_edit_pos(n)), ("edit_pos = %d" % n, lambda: setattr(w, "edit_pos", n))]
        elif k in ("pile", "cols", "grid"):
            n = val % len(w.contents)
            child = w.contents[n][0]
            calls = [
                (f"focus_position = {n}", lambda: setattr(w, "focus_position", n)),
                (f"set_focus({n})", lambda: w.set_focus(n)),
                (f"set_focus(<child {n}>)", lambda: w.set_focus(child)),
            ]
            if k == "cols":
                calls += [(f"set_focus_column({n})", lambda: w.set_focus_column(n)), (f"focus_col = {n}", lambda: setattr(w, "focus_col", n))]
            if k == "grid":
                calls += [(f"focus_cell = <child {n}>", lambda: setattr(w, "focus_cell", child))]
        elif k == "frame":
            parts = ["body"] + (["header"] if node["hdr"] else []) + (["footer"] if node["ftr"] else [])
            part = parts[val % len(parts)]
            calls = [(f"focus_position = {part!r}", lambda: setattr(w, "focus_position", part)), (f"set_focus({part!r})", lambda: w.set_focus(part))]
        elif k == "lb":
            n = val % len(w.body)
            old = w.focus_position
            frm = None if n == old else ("above" if old < n else "below")
            va = VALIGNS[val % 4] if val % 4 < 3 else ("relative", val)
            calls = [
                (f"set_focus({n})", lambda: w.set_focus(n)),
                (f"set_focus({n}, {frm!r})", lambda: w.set_focus(n, frm)),
                (f"focus_position = {n}", lambda: setattr(w, "focus_position", n)),
                (f"set_focus_valign({va!r})", lambda: w.set_focus_valign(va)),
                (f"set_focus_valign({va!r})", lambda: w.set_focus_valign(va)),
            ]
        elif k == "pad":
            al = ALIGNS[val % 4] if val % 4 < 3 else ("relative", val)
            calls = [(f"align = {al!r}", lambda: setattr(w, "align", al))]
        elif k == "over":
            al = ALIGNS[val % 4] if val % 4 < 3 else ("relative", val)
            va = VALIGNS[(val // 4) % 4] if (val // 4) % 4 < 3 else ("relative", 100 - val)
            calls = [
                (
                    f"set_overlay_parameters({al!r}, <width>, {va!r}, <height>, <margins>)",
                    lambda: w.set_overlay_parameters(
                        al, _t(node["width"]), va, _t(node["height"]), node.get("minw"), node.get("minh"),
                        left=node["ml"], right=node["mr"], top=node["mt"], bottom=node["mb"],
                    ),
                )
            ]
        else:
            raise AssertionError(k)
        name, call = calls[j % len(calls)]
        try:
            self.raw(call, f"{k}.{name}")
        except Violation as v:
            # what a setter does with a valid argument is not this property's: the history ends here
            if self.collect is None:
                stat(f"history:ended:setter-raises:{v.clause}")
            raise Discard() from v
        stat(f"op:set:{k}")
        return f"after {k}.{name}"


def check_tree(case):
    use_encoding("utf-8")
    urwid.CanvasCache.clear()
    Harness(case).run()


SUBS = {"tree": check_tree}


# ---------------------------------------------------------------------------------------------
# strategies

_txt = st.text(alphabet="aab  \n世", max_size=9)
_label = st.text(alphabet="ab ", max_size=7)
_edit = st.fixed_dictionaries(
    {
        "k": st.just("edit"),
        "cap": st.sampled_from(["", "", ">", "c: ", "c\n", "ab\ncd"]),
        "txt": _txt,
        "ml": st.integers(0, 1),
        "al": st.sampled_from([0, 0, 1, 2]),
        "wrap": st.sampled_from([0, 0, 1, 2]),
        "pos": st.integers(0, 9),
    }
)
_icon = st.fixed_dictionaries({"k": st.just("icon"), "txt": _txt, "pos": st.sampled_from([0, 0, 1, 2, 5, 12])})
_btn = st.fixed_dictionaries({"k": st.sampled_from(["btn", "chk", "radio"]), "txt": _label, "st": st.integers(0, 1)})
_text = st.fixed_dictionaries({"k": st.just("text"), "txt": _txt, "al": st.integers(0, 2)})
_fill = st.fixed_dictionaries({"k": st.just("fill")})
_flow_leaf = st.one_of(_edit, _edit, _edit, _icon, _btn, _text)

_w = st.integers(1, 3).map(lambda n: ["w", n])
_g = st.integers(0, 3).map(lambda n: ["g", n])
_k = st.just(["k"])
# relative share: 100 is the default of Padding (and what "fill the parent" is written as), so it is drawn often
_rel = st.one_of(st.integers(30, 100), st.sampled_from([100, 100, 50])).map(lambda n: ["r", n])
# min_width / min_height: absent, 0 (falsy but a valid int), or the child's need - 1 .. + 4
_min_opt = st.sampled_from([None, None, None, "z", -1, 0, 0, 1, 2, 4])
_focus = st.one_of(st.none(), st.none(), st.integers(0, 3))
_margin = st.sampled_from([0, 0, 1, 2])
_align = st.one_of(st.integers(0, 2), st.integers(0, 100).map(lambda n: ["r", n]))


def _kids(item, max_n=3):
    return st.lists(item, min_size=1, max_size=max_n)


@functools.lru_cache(maxsize=None)
def flow_node(depth):
    if depth <= 0:
        return _flow_leaf
    fl, bx = flow_node(depth - 1), box_node(depth - 1)
    pile_item = st.one_of(
        st.fixed_dictionaries({"o": st.one_of(_w, _k), "n": fl}),
        st.fixed_dictionaries({"o": st.one_of(_w, _k), "n": fl}),
        st.fixed_dictionaries({"o": _g, "n": bx}),
    )
    cols_item = st.one_of(
        st.fixed_dictionaries({"o": st.one_of(_w, _w, _g, _k), "box": st.just(0), "n": fl}),
        st.fixed_dictionaries({"o": st.one_of(_w, _w, _g, _k), "box": st.just(0), "n": fl}),
        st.fixed_dictionaries({"o": st.one_of(_w, _g), "box": st.just(1), "n": box_node(0)}),
    )
    pile = st.fixed_dictionaries({"k": st.just("pile"), "c": _kids(pile_item), "f": _focus})
    cols = st.fixed_dictionaries({"k": st.just("cols"), "c": _kids(cols_item), "div": st.integers(0, 2), "f": _focus})
    grid = st.fixed_dictionaries(
        {
            "k": st.just("grid"),
            "c": _kids(st.fixed_dictionaries({"n": _flow_leaf}), 4),
            "cwx": st.integers(0, 3),
            "hs": st.integers(0, 2),
            "vs": st.integers(0, 1),
            "al": st.integers(0, 2),
            "f": _focus,
        }
    )
    pad = st.fixed_dictionaries(
        {"k": st.just("pad"), "n": fl, "w": st.one_of(_g, _rel, _rel, _k), "mw": _min_opt, "al": _align, "l": _margin, "r": _margin}
    )
    box = st.fixed_dictionaries({"k": st.just("box"), "n": bx, "x": st.integers(0, 3)})
    return st.one_of(_flow_leaf, pile, cols, cols, grid, pad, box, _line(fl), _attr(fl))


def _line(child):
    return st.fixed_dictionaries(
        {
            "k": st.just("line"),
            "n": child,
            "title": st.sampled_from(["", "", "T"]),
            "drop": st.lists(st.sampled_from(["tline", "bline", "lline", "rline"]), max_size=2, unique=True),
        }
    )


def _attr(child):
    return st.fixed_dictionaries({"k": st.just("attr"), "n": child, "amap": st.integers(0, 2), "fmap": st.integers(0, 1)})


@functools.lru_cache(maxsize=None)
def box_node(depth):
    if depth <= 0:
        return st.one_of(
            _fill,
            st.fixed_dictionaries(
                {"k": st.just("filler"), "n": _flow_leaf, "h": _k, "va": st.integers(0, 2), "t": _margin, "b": _margin}
            ),
        )
    fl, bx = flow_node(depth - 1), box_node(depth - 1)
    pile_item = st.one_of(
        st.fixed_dictionaries({"o": _w, "n": bx}),
        st.fixed_dictionaries({"o": _g, "n": bx}),
        st.fixed_dictionaries({"o": _k, "n": fl}),
        st.fixed_dictionaries({"o": _k, "n": fl}),
    )
    cols_item = st.fixed_dictionaries({"o": st.one_of(_w, _w, _g), "n": bx})
    pile = st.fixed_dictionaries({"k": st.just("pile"), "c": _kids(pile_item), "f": _focus})
    cols = st.fixed_dictionaries({"k": st.just("cols"), "c": _kids(cols_item), "div": st.integers(0, 2), "f": _focus})
    frame = st.fixed_dictionaries(
        {
            "k": st.just("frame"),
            "body": bx,
            "hdr": st.one_of(st.none(), fl),
            "ftr": st.one_of(st.none(), fl),
            "fp": st.sampled_from(["body", "body", "header", "footer"]),
        }
    )
    filler = st.one_of(
        st.fixed_dictionaries({"k": st.just("filler"), "n": fl, "h": _k, "va": _align, "t": _margin, "b": _margin}),
        st.fixed_dictionaries(
            {"k": st.just("filler"), "n": bx, "h": st.one_of(_g, _rel), "mh": _min_opt, "va": _align, "t": _margin, "b": _margin}
        ),
    )
    pad = st.fixed_dictionaries(
        {"k": st.just("pad"), "n": bx, "w": st.one_of(_g, _rel, _rel), "mw": _min_opt, "al": _align, "l": _margin, "r": _margin}
    )
    over_common = {
        "k": st.just("over"), "bg": st.integers(0, 1), "al": _align, "va": _align, "w": st.one_of(_g, _rel), "mw": _min_opt,
        "l": _margin, "r": _margin, "t": _margin, "b": _margin,
    }
    over = st.one_of(
        st.fixed_dictionaries({"top": fl, "h": _k, **over_common}),
        st.fixed_dictionaries({"top": bx, "h": st.one_of(_g, _rel), "mh": _min_opt, **over_common}),
    )
    lb = st.fixed_dictionaries(
        {
            "k": st.just("lb"),
            "c": _kids(st.fixed_dictionaries({"n": fl}), 4),
            "f": _focus,
            "cut": st.sampled_from([0, 0, 1, 2, 3, 5]),
        }
    )
    return st.one_of(_fill, pile, pile, cols, cols, frame, filler, filler, pad, over, lb, _line(bx), _attr(bx))


def case_strategy(depth):
    bx, fl = box_node(depth), flow_node(depth)
    root = st.one_of(
        st.tuples(st.just("B"), bx.filter(lambda s: s["k"] != "fill")),
        st.tuples(st.just("B"), bx.filter(lambda s: s["k"] != "fill")),
        st.tuples(st.just("F"), fl.filter(lambda s: s["k"] not in FLOW_LEAVES)),
    )
    click = st.tuples(st.just("click"), st.integers(0, 1), st.integers(0, 2000)).map(list)
    text = st.tuples(st.just("text"), st.integers(0, 11), st.integers(0, 1), _txt).map(list)
    key = st.tuples(st.just("key"), st.integers(0, len(KEYS) - 1)).map(list)
    setter = st.tuples(st.just("set"), st.integers(0, 11), st.integers(0, 5), st.integers(0, 100)).map(list)
    size = st.tuples(st.just("size"), st.sampled_from([0, 1, 2, 3, 6]), st.sampled_from([0, 1, 2, 4]), st.integers(0, 2000)).map(list)
    ops = st.lists(st.one_of(click, click, text, text, key, setter, setter, size), max_size=6)
    # the history is drawn first: drawn after the (large) tree, Hypothesis leaves it empty in 60% of the examples
    return st.builds(
        lambda ops, order, rt, dc, dr, ev: {"tree": rt[1], "mode": rt[0], "dc": dc, "dr": dr, "ev": ev, "ops": ops, "ord": order},
        ops,
        st.integers(0, 63),
        root,
        st.sampled_from([0, 0, 1, 2, 3, 6]),
        st.sampled_from([0, 0, 1, 2, 4]),
        st.integers(0, len(EVENTS) - 1),
    )


# ---------------------------------------------------------------------------------------------
# evidence helpers


def _children(spec):
    if not isinstance(spec, dict):
        return []
    out = [it.get("n") for it in spec.get("c") or [] if isinstance(it, dict)]
    for key in ("n", "body", "hdr", "ftr", "top"):
        if isinstance(spec.get(key), dict):
            out.append(spec[key])
    return [s for s in out if isinstance(s, dict)]


def _levels(spec):
    kids = _children(spec)
    if not kids:
        return 0
    return 1 + max(_levels(k) for k in kids)


def _kinds(spec, out):
    out.add(spec.get("k"))
    for k in _children(spec):
        _kinds(k, out)
    return out


def _min_options(spec, out):
    for key, name in (("mw", "min_width"), ("mh", "min_height")):
        if spec.get(key) is not None:
            out.add(f"{name}={'0' if spec[key] == 'z' else 'need%+d' % _int(spec[key], -1, 4)}")
    for k in _children(spec):
        _min_options(k, out)
    return out


def _has_offset(spec):
    k = spec.get("k")
    if k in ("pile", "cols", "grid", "lb") and len(spec.get("c") or []) >= 2:
        return True
    if k in ("over", "line"):
        return True
    if k == "frame" and spec.get("hdr"):
        return True
    if k == "pad" and (spec.get("l") or spec.get("al") not in (0, None)):
        return True
    if k == "filler" and (spec.get("t") or spec.get("va") not in (0, None)):
        return True
    return any(_has_offset(c) for c in _children(spec))


def nontrivial(case):
    return _levels(case["tree"]) >= 2 and _has_offset(case["tree"])


def classify(case):
    out = [f"root:{case['mode']}:{case['tree'].get('k')}", f"levels:{_levels(case['tree'])}"]
    out += [f"has:{k}" for k in sorted(_kinds(case["tree"], set()))]
    out += [f"opt:{o}" for o in sorted(_min_options(case["tree"], set()))]
    ops = [op[0] for op in case.get("ops") or []] + ["click"] * len(case.get("clicks") or [])
    out.append(f"steps:{len(ops)}")
    out += [f"step:{k}" for k in sorted(set(ops))]
    return out


# ---------------------------------------------------------------------------------------------
# deterministic sweep: every setter spelling of every container kind, every order


N_SPELLINGS = {"pile": 3, "cols": 5, "grid": 4, "frame": 2, "lb": 4, "pad": 1, "over": 1}  # distinct calls in apply_set


def _e(txt, cap="", pos=0):
    return {"k": "edit", "cap": cap, "txt": txt, "ml": 0, "al": 0, "wrap": 0, "pos": pos}


def setter_cases():
    """every container kind that has a focus / alignment setter, holding leaves of 1 and 2 rows so that the
    setter has an effect on the cursor (a ListBox with fewer rows than its items need, so that it scrolls), bare and
    inside a LineBox (non-zero offset) x every spelling of the setter x 6 values x a second call of the same
    setter with another value x both orders of "asked" / "drawn with the kept canvases" after either call; the
    size alternates between the exact need and need + (3, 1) (Padding / Overlay: both sizes).  Two families of leaves: Edits (their canvases are
    never cached) and SelectableIcon based ones (Button, CheckBox, SelectableIcon: the canvases of the whole focus
    chain stay in the canvas cache, so a setter that forgets to invalidate shows in the next drawing); Padding and
    Overlay start from a named alignment and from ('relative', 30) (the setter values then run through named ->
    named, named -> relative, relative -> named and relative -> another relative amount)."""
    edits = (_e("ab", pos=1), _e("b", "c\n"), _e("\u4e16c", ">", 2), _e("d"))
    icons = (
        {"k": "btn", "txt": "ab", "st": 0}, {"k": "chk", "txt": "b b b", "st": 1},
        {"k": "icon", "txt": "\u4e16c", "pos": 1}, {"k": "btn", "txt": "d", "st": 0},
    )
    for a, b, c, d in (edits, icons):
        filler = {"k": "filler", "n": b, "h": ["k"], "va": 1, "t": 0, "b": 0}
        trees = [
            ("F", {"k": "pile", "c": [{"o": ["k"], "n": a}, {"o": ["k"], "n": b}, {"o": ["w", 1], "n": c}], "f": None}),
            ("F", {"k": "cols", "c": [{"o": ["w", 1], "box": 0, "n": a}, {"o": ["g", 1], "box": 0, "n": b}, {"o": ["w", 2], "box": 0, "n": c}], "div": 1, "f": None}),
            ("F", {"k": "grid", "c": [{"n": a}, {"n": b}, {"n": c}, {"n": d}], "cwx": 1, "hs": 1, "vs": 1, "al": 0, "f": None}),
            ("B", {"k": "frame", "body": filler, "hdr": a, "ftr": c, "fp": "body"}),
            ("B", {"k": "lb", "c": [{"n": a}, {"n": b}, {"n": c}, {"n": d}], "f": None, "cut": 2}),
            ("B", {"k": "lb", "c": [{"n": a}, {"n": b}, {"n": c}, {"n": d}], "f": 2, "cut": 3}),
        ]
        for al in (0, ["r", 30]):
            trees.append(("F", {"k": "pad", "n": b, "w": ["g", 3], "al": al, "l": 1, "r": 0}))
            trees.append(("B", {"k": "over", "top": b, "h": ["k"], "bg": 0, "al": al if al else 1, "va": al if al else 1, "w": ["g", 2], "l": 1, "r": 0, "t": 0, "b": 1}))
        for natural, tree in trees:
            for wrapped in (0, 1):
                spec = {"k": "line", "n": tree, "title": "", "drop": []} if wrapped else tree
                for mode in sorted({natural, "B"}):
                    for j in range(N_SPELLINGS[tree["k"]]):
                        for val in range(6):
                            for order in range(4):
                                # an alignment shows only where there is room to share out: both sizes
                                sizes = ((0, 0), (3, 1)) if tree["k"] in ("pad", "over") else (((0, 0), (3, 1))[(val + order) % 2],)
                                for dc, dr in sizes:
                                    yield {
                                        "tree": spec, "mode": mode, "dc": dc, "dr": dr, "ev": (val + j) % len(EVENTS),
                                        "ops": [["set", 0, j, val], ["set", 0, j, 3 * val + 1]], "ord": order,
                                    }


def min_size_cases():
    """every decoration that shares out space with fixed margins and a minimum size (Padding: left / right /
    min_width; Filler: top / bottom / min_height; Overlay: both) over a two-row Edit, relative share 100 % (the
    default) and 60 %, x every pair of margins x min = the child's need + 0 / + 2 x every alignment (the three names
    and ('relative', 30)) x every size from the child's bare need upwards (+0..6 columns, +0..4 rows): the whole
    range from "margins gone, child fills the widget" over "min size wins over part of the margins" to "margins
    intact, share above the minimum".  Flow and box root for the Padding."""
    edit = _e("b", "c\n", 1)
    boxed = {"k": "filler", "n": edit, "h": ["k"], "va": 0, "t": 0, "b": 0}
    for pct in (100, 60):
        for extra in (0, 2):
            for al in (0, 1, 2, ["r", 30]):
                for m0 in range(3):
                    for m1 in range(3):
                        for d in range(7):
                            ev = (d + m0) % len(EVENTS)
                            base = {"dc": d, "dr": d % 3, "ev": ev, "ops": [], "ord": 0}
                            pad = {"k": "pad", "n": edit, "w": ["r", pct], "mw": extra, "al": al, "l": m0, "r": m1}
                            yield {"tree": pad, "mode": "F", **base}
                            yield {"tree": {**pad, "n": boxed}, "mode": "B", **base}
                            over = {"k": "over", "top": edit, "h": ["k"], "bg": d % 2, "al": al, "va": 1, "w": ["r", pct], "mw": extra, "l": m0, "r": m1, "t": 0, "b": 1}
                            yield {"tree": over, "mode": "B", **base}
                            if d > 4 or m0 > 1 or m1 > 1:
                                continue  # rows: the root gets +0..4, so margins 0..1 cover the whole range
                            base = {"dc": d % 3, "dr": d, "ev": ev, "ops": [], "ord": 0}
                            yield {"tree": {"k": "filler", "n": boxed, "h": ["r", pct], "mh": extra, "va": al, "t": m0, "b": m1}, "mode": "B", **base}
                            yield {
                                "tree": {"k": "over", "top": boxed, "h": ["r", pct], "mh": extra, "bg": d % 2, "al": 1, "va": al, "w": ["g", 1], "l": 1, "r": 0, "t": m0, "b": m1},
                                "mode": "B", **base,
                            }


def row_margin_cases():
    """every way the generated widgets have of giving a flow child fewer rows than they have themselves - Filler
    with height 'pack' (top / middle / bottom / ('relative', 30) x fixed top and bottom rows 0..1; the child bare, in an
    AttrMap, in a LineBox), a box Pile with a 'pack' item above a weighted one, a Columns (flow and box root) with a
    taller neighbour - x every selectable leaf kind with one and with two rows (Edit, Edit below a caption row,
    SelectableIcon, Button, CheckBox, RadioButton) x 0, 1, 3 rows more than the tree needs: the cells of clause 3 that
    are outside every selectable leaf (move_cursor_to_coords succeeds -> the cursor is reported on that row)"""
    leaves = [
        _e("ab", pos=1), _e("b", "c\n"), {"k": "icon", "txt": "a", "pos": 0}, {"k": "icon", "txt": "a\nb", "pos": 0},
        {"k": "btn", "txt": "a", "st": 0}, {"k": "btn", "txt": "a a a a", "st": 0}, {"k": "chk", "txt": "a", "st": 1}, {"k": "radio", "txt": "a", "st": 0},
    ]
    tall = {"k": "text", "txt": "a\nb\nc", "al": 0}
    for li, leaf in enumerate(leaves):
        hosts = []
        for wi, kid in enumerate((leaf, {"k": "attr", "n": leaf, "amap": 1, "fmap": 1}, {"k": "line", "n": leaf, "title": "", "drop": []})):
            for va in (0, 1, 2, ["r", 30]):
                for t in (0, 1):
                    for b in (0, 1):
                        if wi and t != b:
                            continue
                        hosts.append(("B", {"k": "filler", "n": kid, "h": ["k"], "va": va, "t": t, "b": b}))
        hosts.append(("B", {"k": "pile", "c": [{"o": ["k"], "n": leaf}, {"o": ["w", 1], "n": {"k": "fill"}}], "f": None}))
        for mode in ("F", "B"):
            for div in (0, 1):
                hosts.append((mode, {"k": "cols", "c": [{"o": ["w", 1], "box": 0, "n": leaf}, {"o": ["w", 1], "box": 0, "n": tall}], "div": div, "f": None}))
        for hi, (mode, tree) in enumerate(hosts):
            for dr in (0, 1, 3):
                yield {"tree": tree, "mode": mode, "dc": (hi + dr) % 2, "dr": dr, "ev": (li + hi) % len(EVENTS), "ops": [], "ord": 0}


def shard(ctx):
    depth = ctx.scale(3, 4)
    ctx.sweep("tree", row_margin_cases(), nontrivial=nontrivial, classify=classify, exhaustive_name="row margins x selectable leaf kinds")
    if ctx.failure:
        return
    ctx.sweep("tree", setter_cases(), nontrivial=nontrivial, classify=classify, exhaustive_name="setter spellings x orders")
    if ctx.failure:
        return
    ctx.sweep("tree", min_size_cases(), nontrivial=nontrivial, classify=classify, exhaustive_name="margins x minimum size x alignment x size")
    if ctx.failure:
        return
    ctx.given("tree", case_strategy(depth), ctx.scale(400, 4000), nontrivial=nontrivial, classify=classify)
    for label, n in sorted(STATS.items()):
        ctx.count("run:" + label, n)


# ---------------------------------------------------------------------------------------------
# known findings (active only if listed in known_findings.json / known_findings.d with status "known")


def _k_overlay_none(sub, case, v):
    return (
        fixed_by(v) == ["overlay-cursor"]
        and v.clause == "exception:TypeError@widget/overlay.py:get_cursor_coords"
        and "NoneType" in v.message
    )


def _k_overlay_flow_top(sub, case, v):
    return "overlay-cursor" in fixed_by(v) and not _k_overlay_none(sub, case, v)


def _k_filler_move(sub, case, v):
    return "filler-move" in fixed_by(v) and v.clause.startswith("move-")


def _k_gridflow_pack(sub, case, v):
    return "gridflow-pack" in fixed_by(v)


NOT_ON_ROW = "nothing of it is drawn on the requested row"


def _k_columns_move_row(sub, case, v):
    """Columns.move_cursor_to_coords hands the row to the chosen column without looking at that column's rows: gone
    under `columns-move` alone (not under the Filler's patch, which is tried first), and the symptom is the one of
    that root cause - success for a cell on a row where nothing of the leaf that then shows the cursor is drawn"""
    return fixed_by(v) == ["columns-move"] and v.clause == "move-cursor-requested-row" and NOT_ON_ROW in v.message


def _filler_over_leaf_without_method(node):
    """a Filler whose wrapped widget has no move_cursor_to_coords: a SelectableIcon, bare or below AttrMaps (whose
    delegated attribute is as absent as the wrapped widget's)"""
    kid = node["kids"][0] if node["kids"] else None
    if node["k"] == "filler":
        while kid is not None and kid["k"] == "attr":
            kid = kid["kids"][0]
        if kid is not None and kid["k"] == "icon":
            return True
    return any(_filler_over_leaf_without_method(k) for k in node["kids"])


def _k_filler_move_no_method(sub, case, v):
    """Filler.move_cursor_to_coords answers True before it looks at its top / bottom rows when the wrapped widget has
    no move_cursor_to_coords: gone under `filler-move` alone, the cursor is then shown by a SelectableIcon, and the
    tree does hold a Filler directly over one (also the Filler the harness puts around a flow leaf in a box position)"""
    if not (fixed_by(v) == ["filler-move"] and v.clause == "move-cursor-requested-row" and NOT_ON_ROW in v.message):
        return False
    if not re.search(r"in probe \d+ \(icon ", v.message):
        return False
    return _filler_over_leaf_without_method(Planner().plan(case["tree"], "F" if case.get("mode") == "F" else "B"))


KNOWN = {
    "C09-columns-move-row-unchecked": _k_columns_move_row,
    "C09-filler-move-no-method": _k_filler_move_no_method,
    "C09-overlay-cursor-none": _k_overlay_none,
    "C09-overlay-cursor-flow-top": _k_overlay_flow_top,
    "C09-filler-move-maxcol": _k_filler_move,
    "C09-gridflow-pack-stale": _k_gridflow_pack,
}
