"""C10 — Edit / IntEdit / IntegerEdit / FloatEdit behave as a text-editor model for any key sequence.

Model-based (stateful) check: a case is a widget description plus an op list (keys and button-1
clicks); ``check_fn`` drives the real widget and a small reference editor side by side and
asserts the invariants of DESIGN.md "C10 / O" after every step.

Reference editor: ``(text, pos)`` + a list of acceptable *preferred columns*.
  insert at cursor; backspace/delete remove the character before/after (character = code point
  for str, encoded character for bytes, from vlib.widths); left/right move one character;
  0 <= pos <= len and pos is a character boundary.
Display-dependent moves are judged against a *display map* built from the widget's own layout
structure (``edit.get_line_translation(width)``: rows of (column, text offset, width) entries;
C03 validates the layout itself, this check only reads it):
  up/down land on row -/+1 at the largest candidate column <= the preferred column (else the
  smallest) or return the key with the state unchanged when there is no such row; home/end go to
  the first/last position of the cursor's row; in clip mode only the row change is asserted.
Signals are observed through a plain function listener plus 0..3 generated listeners connected in the
other ways urwid.connect_signal documents (callback kind, weak_args incl. alive-but-falsy objects,
user_args incl. falsy values, deprecated user_arg, handler return value): each listener must see the
same change/postchange chain and receive the documented arguments.  One generated listener in three changes the
handler list from inside its handler (disconnects itself or another listener, by key or by arguments, or connects
a further listener); when there are generated listeners a second plain function is connected after them.  Every
listener is told about every modification while it is connected, whatever its neighbours do.
Two edit cases in five are preceded by the same widget description (for bytes: the same bytes) being shown and
driven with the same keys under another encoding in the same process, results ignored; the case proper must not
depend on it.  The rows the widget works with must be rows of the displayed text under the active encoding
(clause display-consistent).
Readings deliberately taken on the weak side (see comments at the place of use):
  * 'tab' with allow_tab: any 1..8 spaces (the docs say "1-8 spaces", not how many);
  * the preferred column after a click is either the clicked column or the cursor column;
    after an unhandled backspace/delete it is either kept or forgotten;
  * numeric variants may strip any number of leading zeros standing before the cursor after a
    handled key ("Remove leading zeros" does not say when);
  * a zero-width (combining) character has no cell of its own: no cell-content assertion when
    the cursor is on one, and it is never a required up/down/end target;
  * a double-width character cut by the right edge in clip mode is drawn as a space by urwid's
    general convention: no content assertion there.
"""
from __future__ import annotations

import functools
import re
import warnings

from hypothesis import strategies as st

import urwid
from urwid import numedit
from vlib import widths
from vlib.runner import Discard, Violation

PROPERTY = "C10"
LEVEL = "exploration"
RULE = (
    "edit: Hypothesis-generated cases {encoding in utf-8/euc-jp/iso8859-1/gbk/big5/uhc (one narrow, utf-8, and "
    "both double-byte families set_encoding() lists: EUC with trail bytes >= 0xA1 only, and GBK/Big5/UHC whose "
    "trail byte may be an ASCII byte 0x40..0x7E or 0x80..0xA0 - three two-column characters per trail-byte class "
    "that the codec has), str or bytes, caption <=8 chars, "
    "text <=14 chars (ASCII, double-width, combining, newline, space; only characters representable in the "
    "encoding whose encoded length equals their width in wide mode), width 1..20, wrap space/any/clip, align, "
    "multiline, allow_tab, mask, initial cursor, op list <=40 (quick) / <=80 (thorough; every other list has >= 10 "
    "elements) of printable keys, "
    "left/right/up/down/home/end, backspace, delete, enter, tab, unrelated keys, button-1 clicks on any cell, "
    "and (one element in eight) a run of 2..4 consecutive up/down keys optionally started by home/end/left/right "
    "or a click in the first or last column, so that the preferred column - 0 and width-1 included - is carried "
    "over several rows}; "
    "numeric: IntEdit, IntegerEdit(base 2..36, allow_negative), FloatEdit(separator, allow_negative, "
    "preserve_significance; the options passed as the modern keywords, as the deprecated but still accepted "
    "decimalSeparator=/preserveSignificance= keywords, or positionally) "
    "with keys from digits, letters, '-', '.', ',', characters whose .upper() is in "
    "the alphabet, navigation and clicks. Both kinds of case also draw 0..3 extra 'change'/'postchange' listeners "
    "besides the plain function every case connects: callback kind (function, bound method, callable object, "
    "functools.partial) x weak_args (0..2 live objects: plain, truthy widgets/walkers, and alive-but-falsy ones - "
    "len()==0 or bool()==False objects, empty Pile/Columns/list walker/ListBox) x user_args (not passed, empty, or "
    "1..2 values from 0, '', [], False, 0.0, 1, 'x', [0], True; optionally the caller changes its list after "
    "connecting) x the deprecated user_arg (not passed or one of the same values) x handler return value; every "
    "listener must record the same change/postchange chain as the plain one and be called with the arguments "
    "connect_signal() documents. One generated listener in three acts on the handler list from inside its 1st..3rd "
    "call (counted per signal): it disconnects its own handler for that signal (a one-shot listener) or that of "
    "another generated listener, with the key connect_signal() returned or with disconnect_signal() and the "
    "connect arguments, or connects one more plain listener to both signals; with generated listeners present a "
    "second plain function is connected after them. Every listener that is connected before a step and not "
    "disconnected during it must record the full chain of that step; a listener that disconnects itself in its "
    "n-th call records exactly the first n modifications; a handler is never called in a step after the one in "
    "which it was disconnected; nothing is asserted about a listener in the step during which another "
    "listener's handler disconnects it or in which it is connected. "
    "Two edit cases in five have a prehistory: before the widget under test is built, the same caption/text "
    "(bytes cases: the same bytes), options and width are shown, and the same keys and clicks delivered, under "
    "another of the six encodings in the same process (nothing asserted there, exceptions ignored, the old widget "
    "and its canvases stay referenced); then set_encoding() switches to the case's encoding. "
    "Every step is compared with the reference editor / display map / "
    "signal chain; every text segment of the widget's layout must start and end between characters of the "
    "displayed text and be as wide as those characters under the active encoding. Non-trivial (edit): caption+text need >= 2 display rows or contain a double-width/combining "
    "character, and the history has an up/down move or inserts/deletes while such a character is present; "
    "(numeric): the history has a key outside the ASCII alphabet of the widget or a '-' and >= 3 keys."
)
ASSUMPTIONS = [
    "vlib.widths (wcwidth table + codec structure) is the reference for character boundaries and widths; in a "
    "double-byte encoding a byte >= 0x81 followed by a byte >= 0x40 is one two-column character (texts are built "
    "from whole encoded characters, so no stray lead byte ever precedes an ASCII byte)",
    "Python's gbk / big5 / uhc (cp949) codecs define which characters exist in those encodings",
    "the widget's own layout structure (get_line_translation) is taken as the display; C03 checks the layout, this "
    "check only requires that its text segments lie between characters and have the width of their characters",
    "keys are delivered as str (urwid's input layer always produces str keys), one code point per printable key",
    "the widget is rendered with focus=True between keys (an Edit only receives keys while in focus)",
    "the width is constant within one case",
    "listeners are connected before the first key (or, one plain function, from inside a 'change' handler) with "
    "urwid.connect_signal as documented (weak_args / user_args as keywords, user_arg positionally) and are "
    "disconnected, if at all, from inside a handler with disconnect_signal_by_key() or disconnect_signal() and the "
    "connect arguments; the harness keeps every weak argument alive for the whole case, "
    "so 'the handler is dropped when a weak argument dies' never applies; delivery order between listeners is not "
    "asserted; handlers never modify the widget",
    "whether a handler connected or disconnected by another handler while a signal is being delivered takes part in "
    "that delivery is not stated anywhere: not asserted (from the next step on it is)",
    "urwid.set_encoding() may be called between the life of one widget and the creation of another (widgets and "
    "canvases created before the switch are not used after it; the canvas cache is cleared at the switch)",
]

NAV = ["left", "right", "up", "down", "home", "end"]
UNRELATED = ["f5", "ctrl x", "esc", "page up", "page down", "shift f1", "meta a", "insert", "ctrl l"]

# characters per encoding: representable, and in wide mode encoded length == column width
ASCII = list("abcxyz XYZ019-.,;")


def _dbcs_sample(enc, first, last):
    """Two-byte, two-column characters of a double-byte encoding, three per *trail-byte class* (first,
    middle and last of the class in code point order).  The classes are what distinguishes the
    double-byte families urwid.set_encoding() lists: EUC (euc-jp/kr/cn) trail bytes are all >= 0xA1,
    GBK / Big5 / UHC also use 0x40..0x7E (ASCII letters and punctuation) and 0x80..0xA0."""
    classes = {"ascii-trail": [], "mid-trail": [], "high-trail": []}
    for cp in range(first, last + 1):
        ch = chr(cp)
        try:
            b = ch.encode(enc)
        except UnicodeEncodeError:
            continue
        if len(b) != 2 or b[0] < 0x81 or widths.char_width(ch) != 2:
            continue
        t = b[1]
        if 0x40 <= t <= 0x7E:
            classes["ascii-trail"].append(ch)
        elif 0x80 <= t <= 0xA0:
            classes["mid-trail"].append(ch)
        elif t >= 0xA1:
            classes["high-trail"].append(ch)
    out = []
    for lst in classes.values():
        if lst:
            out += [lst[0], lst[len(lst) // 2], lst[-1]]
    return out


ALPHA = {
    "utf-8": ASCII + ["é", "ß", "あ", "漢", "Ａ", "́", "̈", "😀"],
    "euc-jp": ASCII + ["あ", "漢", "Ａ", "！"],
    "iso8859-1": ASCII + ["é", "ß", "ñ", "Ü"],
    # double-byte encodings whose trail byte may be an ASCII byte (CJK ideographs / Hangul syllables)
    "gbk": ASCII + _dbcs_sample("gbk", 0x4E00, 0x9FFF),
    "big5": ASCII + _dbcs_sample("big5", 0x4E00, 0x9FFF),
    "uhc": ASCII + _dbcs_sample("uhc", 0xAC00, 0xD7A3),
}
ENCODINGS = ["utf-8", "euc-jp", "iso8859-1", "gbk", "big5", "uhc"]


def _has_special(s: str) -> bool:
    return any(widths.char_width(c) != 1 for c in s if c != "\n")


# ---------------------------------------------------------------------------------------------
# reference helpers (independent of urwid.str_util)


def bounds(text, mode):
    if isinstance(text, str):
        return list(range(len(text) + 1))
    return widths.boundaries(text, mode)


def prev_bound(text, pos, mode):
    return max(b for b in bounds(text, mode) if b < pos)


def next_bound(text, pos, mode):
    return min(b for b in bounds(text, mode) if b > pos)


class Entry(tuple):
    """(x, p, w, kind, pend): column, offset into the displayed text, width, 'c'har / 'h'int"""

    __slots__ = ()
    x = property(lambda s: s[0])
    p = property(lambda s: s[1])
    w = property(lambda s: s[2])
    kind = property(lambda s: s[3])
    pend = property(lambda s: s[4])


def build_map(trans, disp, mode):
    """Display map from a layout structure: rows of Entry.  Columns of characters inside a text
    segment come from the width oracle; segment widths themselves are taken from the layout.

    The rows the widget works with have to be rows of *this* text under the *active* encoding: a text segment
    starts and ends between characters and is as wide as the characters it shows.  Otherwise "the cell of the
    character at the cursor offset" and "display row" mean nothing (clause display-consistent); this is what a
    layout remembered from another encoding, or from another text, looks like."""
    rows = []
    whole = set(bounds(disp, mode))
    for line in trans:
        x = 0
        row = []
        for seg in line:
            sc = seg[0]
            if len(seg) == 2:
                if seg[1] is not None:
                    row.append(Entry((x, seg[1], 0, "h", seg[1])))
            elif isinstance(seg[2], int):
                offs, end = seg[1], seg[2]
                if offs not in whole or end not in whole:
                    raise Violation("display-consistent", f"the widget's layout {trans!r} has a text segment "
                                    f"{tuple(seg)!r} that starts or ends inside a multi-byte character of {disp!r}")
                cx = x
                for s, e, w in widths.chars(disp[offs:end], mode):
                    row.append(Entry((cx, offs + s, w, "c", offs + e)))
                    cx += w
                if cx != x + sc:
                    raise Violation("display-consistent", f"the widget's layout {trans!r} gives the text segment "
                                    f"{tuple(seg)!r} {sc} column(s), the characters {disp[offs:end]!r} it shows "
                                    f"occupy {cx - x} under the active encoding")
            x += sc
        rows.append(row)
    return rows


def locate(M, p):
    for y, row in enumerate(M):
        for e in row:
            if e.p == p:
                return e, y
    return None


def row_targets(M, y, caplen):
    """entries of row y a vertical move / end may be required to land on"""
    return [e for e in M[y] if e.p >= caplen and (e.kind == "h" or e.w > 0)]


def targets_for_pref(M, y, caplen, pref):
    """set of acceptable displayed-text offsets on row y for one preferred column, or None"""
    ents = row_targets(M, y, caplen)
    if not ents:
        return None
    if pref == "left":
        out = {ents[0].p}
        raw = [e for e in M[y] if e.p >= caplen]
        out.add(raw[0].p)  # a row may start with a zero-width character: either is "the first position"
        return out
    if pref == "right":
        return {ents[-1].p}
    le = [e for e in ents if e.x <= pref]
    col = max(e.x for e in le) if le else min(e.x for e in ents)
    # a zero-width character shares its column with what follows it: any offset at that column will do
    return {e.p for e in M[y] if e.p >= caplen and e.x == col}


# ---------------------------------------------------------------------------------------------
# the driver shared by the plain and numeric variants


class Spec:
    """what distinguishes the widget variants for the model"""

    multiline = False
    allow_tab = False
    numeric = False
    alphabet = None  # set of allowed characters (numeric)
    allow_negative = False
    wrap = "space"

    def accepts(self, key, text, pos):
        return True

    def to_text(self, key):
        return key


def _fmt(v):
    return repr(v)


# ---------------------------------------------------------------------------------------------
# listeners: the ways a 'change' / 'postchange' handler can be connected (urwid.connect_signal docs)


class _Plain:
    """an ordinary weak-referenceable object"""


class _Len0:
    """alive, but empty: len() == 0, so bool() is False (like an empty container widget or list walker)"""

    def __len__(self):
        return 0


class _BoolFalse:
    def __bool__(self):
        return False


class _EqAnything:
    """compares equal to everything, None included"""

    def __eq__(self, other):
        return True

    def __ne__(self, other):
        return False

    __hash__ = object.__hash__


# every target is weak-referenceable and is kept alive by the harness for the whole case
WEAK_TARGETS = {
    "object": _Plain,
    "len0-object": _Len0,
    "bool-false-object": _BoolFalse,
    "eq-anything-object": _EqAnything,
    "Text": lambda: urwid.Text("result"),
    "Pile-1": lambda: urwid.Pile([urwid.Text("result")]),
    "Pile-empty": lambda: urwid.Pile([]),
    "Columns-empty": lambda: urwid.Columns([]),
    "walker-1": lambda: urwid.SimpleFocusListWalker([urwid.Text("result")]),
    "walker-empty": lambda: urwid.SimpleFocusListWalker([]),
    "ListBox-empty": lambda: urwid.ListBox(urwid.SimpleFocusListWalker([])),
}
# values for user_args / the deprecated user_arg: ordinary ones and the falsy-but-valid ones
ARG_VALUES = [0, "", [], False, 0.0, 1, "x", [0], True]
CALLBACK_KINDS = ["function", "bound-method", "callable-object", "partial"]


def _listener_label(desc):
    parts = [desc["callback"]]
    if desc["weak"]:
        parts.append(f"weak_args={desc['weak']!r}")
    if desc["user_args"] is not None:
        parts.append(f"user_args={desc['user_args']!r}" + (" (list changed by the caller afterwards)"
                                                            if desc.get("mutate_after") else ""))
    if desc["user_arg"] is not None:
        parts.append(f"user_arg={desc['user_arg']!r}")
    parts.append(f"returning {desc.get('returns')!r}")
    re_ = desc.get("reentry")
    if re_:
        if re_["do"] == "connect":
            parts.append(f"connecting one more listener from inside its call no. {re_['at']}")
        else:
            who = "itself" if re_.get("target") is None else f"listener no. {re_['target']} (modulo their number)"
            parts.append(f"disconnecting {who} ({'by key' if re_['how'] == 'key' else 'disconnect_signal() with the connect arguments'}) "
                         f"from inside its call no. {re_['at']}")
    return ", ".join(parts)


def _same_value(a, b):
    return type(a) is type(b) and a == b


class LState:
    """what the harness knows about one listener: its log, how it was connected (to be able to disconnect it the
    two documented ways), how often each handler ran, and the step at which each handler was disconnected"""

    def __init__(self, label, log, desc=None, born=-2):
        self.label = label
        self.log = log
        self.desc = desc
        self.born = born  # step during which it was connected (-2: before the first key)
        self.calls = {"change": 0, "postchange": 0}
        self.gone = {"change": None, "postchange": None}  # step at which the handler was disconnected
        self.by = set()  # who disconnected it: 'self' / 'other'
        self.keys = {}
        self.cbs = {}
        self.connect_args = {}
        # snapshot taken at the start of every step
        self.was = {"change": True, "postchange": True}
        self.calls_before = 0

    def begin_step(self):
        del self.log[:]
        self.was = {k: self.gone[k] is None for k in self.gone}
        self.calls_before = self.calls["change"]


def disconnect_listener(edit, kind, target, how):
    """the two documented ways: the key connect_signal() returned, or 'exactly the same' arguments"""
    if how == "key":
        urwid.disconnect_signal_by_key(edit, kind, target.keys[kind])
    else:
        pos, kwargs = target.connect_args[kind]
        urwid.disconnect_signal(edit, kind, target.cbs[kind], *pos, **{k: list(v) for k, v in kwargs.items()})


def connect_listener(edit, desc, st, keep, world):
    """Connect one handler to 'change' and one to 'postchange' as described by ``desc`` (JSON):
    callback kind, weak_args (names from WEAK_TARGETS), user_args (None = not passed), deprecated
    user_arg (None = not passed, as documented), the value the handler returns.  The handler checks
    the arguments it is called with against the connect_signal() docs - weak_args (the objects
    themselves), then user_args as passed at connect time, then what the widget emits (widget, text),
    then user_arg - and appends (signal, text argument, edit_text at that moment) to its log.

    ``desc["reentry"]`` (optional) makes the handler change the very handler list that is being walked, from
    inside its call number ``at`` (counted per signal): disconnect itself or another generated listener (that
    listener's handler for the same signal), by key or with disconnect_signal() and the connect arguments, or
    connect one more plain listener to both signals.  ``world``: {"registry": [LState of the generated
    listeners], "step": current step, "connect_plain": fn(label) -> None}."""
    weak = [WEAK_TARGETS[name]() for name in desc["weak"]]
    uargs = desc["user_args"]
    uarg = desc["user_arg"]
    ret = desc.get("returns")
    reentry = desc.get("reentry")
    nw, nu = len(weak), len(uargs or [])
    label = st.label
    log = st.log

    def act(kind):
        if reentry["do"] == "connect":
            if kind == "change":
                world["connect_plain"](f"plain function connected from inside a 'change' handler during step {world['step']}")
            return
        reg = world["registry"]
        target = st if reentry.get("target") is None else reg[reentry["target"] % len(reg)]
        disconnect_listener(edit, kind, target, reentry["how"])
        if target.gone[kind] is None:
            target.gone[kind] = world["step"]
        target.by.add("self" if target is st else "other")

    def receive(kind, args):
        ok = (
            len(args) == nw + nu + 2 + (uarg is not None)
            and all(a is b for a, b in zip(args[:nw], weak))
            and all(_same_value(a, b) for a, b in zip(args[nw : nw + nu], uargs or []))
            and (uarg is None or _same_value(args[-1], uarg))
        )
        if not ok:
            raise Violation("signal-args", f"'{kind}' handler connected as {label} was called with {args!r}; expected "
                            f"the {nw} weak argument(s), then {list(uargs or [])!r}, then (widget, text)"
                            f"{', then ' + repr(uarg) if uarg is not None else ''}")
        log.append((kind, args[nw + nu + 1], edit.edit_text))
        st.calls[kind] += 1
        if reentry and st.calls[kind] == reentry["at"]:
            act(kind)
        return ret

    class Holder:
        def change(self, *args):
            return receive("change", args)

        def postchange(self, *args):
            return receive("postchange", args)

        def __call__(self, *args):
            return receive(self.kind, args)

    for kind in ("change", "postchange"):
        if desc["callback"] == "function":
            def cb(*args, kind=kind):
                return receive(kind, args)
        elif desc["callback"] == "bound-method":
            h = Holder()
            cb = getattr(h, kind)
        elif desc["callback"] == "callable-object":
            cb = Holder()
            cb.kind = kind
        elif desc["callback"] == "partial":
            cb = functools.partial(lambda k, *args: receive(k, args), kind)
        else:
            raise AssertionError(desc["callback"])
        kwargs = {}
        if weak:
            kwargs["weak_args"] = list(weak)
        passed = None
        if uargs is not None:
            passed = list(uargs)
            kwargs["user_args"] = passed
        # "the arguments passed should be exactly the same as those passed to connect_signal()"
        st.connect_args[kind] = ((uarg,) if uarg is not None else (),
                                 {k: list(v) for k, v in kwargs.items()})
        st.cbs[kind] = cb
        if uarg is not None:
            st.keys[kind] = urwid.connect_signal(edit, kind, cb, uarg, **kwargs)
        else:
            st.keys[kind] = urwid.connect_signal(edit, kind, cb, **kwargs)
        if passed is not None and desc.get("mutate_after"):
            # the caller goes on using its list: the handler still gets "the user_args passed at connect time"
            passed.insert(0, "added later")
            passed.append("added later")
    keep.append(weak)


def drive(edit, spec: Spec, case, mode, mask):
    w = case["width"]
    size = (w,)
    caption = edit.caption
    caplen = len(caption)
    # every listener must be told about every modification while it is connected.  A plain function is connected
    # first; then the generated listeners, each connected in one of the ways connect_signal() documents, some of
    # which disconnect themselves / another listener or connect a further one from inside their handler; when
    # there are generated listeners a second plain function is connected after them (so every generated listener
    # has an observed neighbour on either side in connection order)
    keep = []  # strong references: the weak arguments stay alive for the whole case
    world = {"registry": [], "step": -1}
    listeners = []  # LState of every listener, in connection order

    def connect_plain(label, born=-2):
        st_ = LState(label, [], None, born)
        llog = st_.log
        urwid.connect_signal(edit, "change", lambda _w, new: llog.append(("change", new, edit.edit_text)))
        urwid.connect_signal(edit, "postchange", lambda _w, old: llog.append(("postchange", old, edit.edit_text)))
        listeners.append(st_)
        return st_

    world["connect_plain"] = lambda label: connect_plain(label, world["step"])
    plain = connect_plain("plain function")
    log = plain.log
    for desc in case.get("listeners") or []:
        st_ = LState(_listener_label(desc), [], desc)
        world["registry"].append(st_)
        listeners.append(st_)
    for st_ in world["registry"]:
        connect_listener(edit, st_.desc, st_, keep, world)
    if world["registry"]:
        connect_plain("plain function connected last")

    def displayed(text):
        return caption + (mask * len(text) if mask is not None else text)

    def fail(i, op, clause, msg):
        raise Violation(clause, f"step {i} op {op!r}: {msg}")

    def check_valid(i, op, text, pos):
        if type(text) is not type(caption):
            fail(i, op, "text-type", f"edit_text became {type(text).__name__}, caption is {type(caption).__name__}")
        if not isinstance(pos, int) or not 0 <= pos <= len(text):
            fail(i, op, "pos-range", f"edit_pos {pos!r} outside 0..{len(text)} for text {text!r}")
        if pos not in bounds(text, mode):
            fail(i, op, "pos-boundary", f"edit_pos {pos} is inside a multi-byte character of {text!r}")

    def check_alphabet(i, op, text):
        if not spec.numeric:
            return
        for k, c in enumerate(text):
            if c in spec.alphabet:
                continue
            if c == "-" and k == 0 and spec.allow_negative:
                continue
            fail(i, op, "alphabet", f"text {text!r} holds {c!r} at index {k}; allowed {''.join(sorted(spec.alphabet))!r}"
                 f"{' and one leading minus' if spec.allow_negative else ''}")

    def observe(i, op):
        """render with focus, check cursor cell; return (display map, cursor)"""
        text, pos = edit.edit_text, edit.edit_pos
        canv = edit.render(size, focus=True)
        cur = canv.cursor
        if cur is None:
            fail(i, op, "cursor-drawn", "render(size, focus=True).cursor is None")
        cx, cy = cur
        nrows = canv.rows()
        if not (0 <= cx < w and 0 <= cy < nrows):
            fail(i, op, "cursor-inside", f"cursor {cur} outside the {w}x{nrows} canvas; text {text!r} pos {pos}")
        disp = displayed(text)
        M = build_map(edit.get_line_translation(w), disp, mode)
        if len(M) != nrows:
            raise Discard()  # layout and canvas disagree on rows: C01/C03 matter
        hit = locate(M, caplen + pos)
        if hit is not None:
            e, y = hit
            if (e.x, y) != (cx, cy):
                fail(i, op, "cursor-cell", f"cursor drawn at {cur}, but offset {pos} of {text!r} is laid out at "
                     f"{(e.x, y)} (width {w}, layout {edit.get_line_translation(w)!r})")
            row = canv.text[cy]
            cells, _pending = widths.cells(row, mode)
            if len(cells) == w:
                chunk, cont = cells[cx]
                if e.kind == "c" and e.w > 0 and e.x + e.w <= w:
                    ch = disp[e.p : e.pend]
                    want = ch.encode(case["encoding"]) if isinstance(ch, str) else ch
                    if cont or want not in chunk:  # a leading zero-width character rides on the same cell
                        fail(i, op, "cursor-cell", f"cell under the cursor {cur} holds {chunk!r} (cont={cont}), "
                             f"the character at offset {pos} is {ch!r}; row {row!r}")
                elif e.kind == "h" and e.p < len(disp):
                    # newline / the space a wrap consumed: its cell is the blank after the row's text
                    if cont or chunk != b" ":
                        fail(i, op, "cursor-cell", f"cell under the cursor {cur} holds {chunk!r}, expected blank "
                             f"(offset {pos} is {disp[e.p:e.p+1]!r}); row {row!r}")
        return M, cur

    def check_signals(i, op, t0, t1):
        check_chain_1(i, op, t0, t1, log)  # the plain listener connected first
        for st_ in list(listeners)[1:]:
            check_listener(i, op, t0, t1, st_)

    def check_listener(i, op, t0, t1, st_):
        def lfail(clause, msg):
            raise Violation(clause, f"step {i} op {op!r}: {msg} [listener connected as {st_.label}; the plain listener "
                            f"saw {log!r}]")

        if st_.born == i:
            return  # connected during this very step: whether it is told about the emission in progress is not stated
        for kind, was in st_.was.items():
            if not was and any(e[0] == kind for e in st_.log):
                lfail("signal-after-disconnect", f"'{kind}' handler disconnected during step {st_.gone[kind]} was called "
                      f"again: {st_.log!r}")
        touched = [k for k in st_.gone if st_.was[k] and st_.gone[k] is not None]
        if all(st_.was.values()) and not touched:
            try:
                check_chain_1(i, op, t0, t1, st_.log)
            except Violation as v:
                raise Violation(v.clause, f"{v.message} [listener connected as {st_.label}; the plain listener saw "
                                f"{log!r}]") from None
        elif all(st_.was.values()) and len(touched) == 2 and st_.by == {"self"}:
            # a listener that disconnects its 'change' handler inside its n-th 'change' call and its 'postchange'
            # handler inside its n-th 'postchange' call has been told about exactly the first n modifications
            n = st_.desc["reentry"]["at"] - st_.calls_before
            if st_.log != log[: 2 * n]:
                lfail("signal-chain", f"a listener that disconnects itself inside its call no. {st_.desc['reentry']['at']} "
                      f"(it had been called {st_.calls_before} time(s) before this step) recorded {st_.log!r}, expected the "
                      f"first {n} modification(s) of this step")
        # otherwise (disconnected by another listener's handler while the signal was being delivered, possibly
        # half-way): whether it still gets the emission in progress is not stated; nothing more is asserted

    def check_chain_1(i, op, t0, t1, log):
        cur = t0
        k = 0
        while k < len(log):
            kind, arg, seen = log[k]
            if kind != "change":
                fail(i, op, "signal-chain", f"'{kind}' without a preceding 'change': {log!r}")
            if seen != cur:
                fail(i, op, "signal-chain", f"'change' received while edit_text == {seen!r}, expected old text {cur!r}: {log!r}")
            if k + 1 >= len(log) or log[k + 1][0] != "postchange":
                fail(i, op, "signal-chain", f"'change' not followed by 'postchange': {log!r}")
            _k2, old, seen2 = log[k + 1]
            if old != cur:
                fail(i, op, "signal-chain", f"'postchange' carries {old!r}, old text was {cur!r}: {log!r}")
            if seen2 != arg:
                fail(i, op, "signal-chain", f"'postchange' received while edit_text == {seen2!r}, 'change' announced {arg!r}")
            cur = arg
            k += 2
        if cur != t1:
            fail(i, op, "signal-chain", f"text went {t0!r} -> {t1!r} but the signals end at {cur!r}: {log!r}")

    # ---- initial state
    t0, p0 = edit.edit_text, edit.edit_pos
    check_valid(-1, "init", t0, p0)
    if spec.numeric:
        for k, c in enumerate(t0):
            if not (c in spec.alphabet or (c == "-" and k == 0 and spec.allow_negative)):
                raise Discard()  # the constructor's default is outside the alphabet: not a key-sequence matter
    M, cur = observe(-1, "init")
    prefs = [None]  # acceptable preferred columns; None = "the cursor's current column"

    for i, op in enumerate(case["ops"]):
        t0, p0 = edit.edit_text, edit.edit_pos
        bs = bounds(t0, mode)
        world["step"] = i
        for st_ in listeners:
            st_.begin_step()
        cx0, cy0 = cur
        complete = all(locate(M, caplen + b) is not None for b in bs)
        top = locate(M, caplen)
        key = None
        if op[0] == "k":
            key = op[1]
            ret = edit.keypress(size, key)
        else:
            col = op[1] * w // 100
            row = op[2] * len(M) // 100
            ret = edit.mouse_event(size, "mouse press", 1, col, row, True)
        t1, p1 = edit.edit_text, edit.edit_pos
        check_valid(i, op, t1, p1)
        check_alphabet(i, op, t1)
        check_signals(i, op, t0, t1)
        changed = (t1, p1) != (t0, p0)

        def unchanged(why, ret=ret, t1=t1, p1=p1, t0=t0, p0=p0, i=i, op=op):
            if (t1, p1) != (t0, p0):
                fail(i, op, "state-unchanged", f"{why}: state went {(t0, p0)!r} -> {(t1, p1)!r}")

        def expect(cands, what, ret=ret, t1=t1, p1=p1, t0=t0, p0=p0, i=i, op=op):
            """cands: list of acceptable (text, pos).  Numeric variants may also have stripped
            leading zeros standing before the cursor (handled keys only)."""
            acc = list(cands)
            if spec.numeric and not ret:
                for t, p in cands:
                    k = 0
                    while k < p and t[k : k + 1] == "0":
                        k += 1
                        acc.append((t[k:], p - k))
            if (t1, p1) not in acc:
                shown = acc if len(acc) <= 4 else acc[:4] + ["..."]
                fail(i, op, what, f"from {(t0, p0)!r} expected {shown!r}, widget has {(t1, p1)!r} (returned {ret!r})")
            if (t1, p1) != (t0, p0) and ret:
                fail(i, op, "handled-key-returned", f"state changed {(t0, p0)!r} -> {(t1, p1)!r} but the key came back {ret!r}")

        if op[0] == "click":
            hit = None
            if 0 <= row < len(M):
                for e in M[row]:
                    if e.kind == "c" and e.w > 0 and e.p >= caplen and e.x >= 0 and e.x + e.w <= w and e.x <= col < e.x + e.w:
                        hit = e
            if hit is not None:
                if not ret:
                    fail(i, op, "click-char", f"click on {(col, row)} = character at offset {hit.p - caplen} of {t0!r} "
                         f"returned {ret!r}")
                if (t1, p1) != (t0, hit.p - caplen):
                    fail(i, op, "click-char", f"click on {(col, row)} is the cell of offset {hit.p - caplen} of {t0!r} "
                         f"(width {w}); edit_pos became {p1}, text {t1!r}")
            else:
                if t1 != t0:
                    fail(i, op, "click-text", f"a click changed the text {t0!r} -> {t1!r}")
                if not ret:
                    unchanged("click returned False")
            if ret:
                prefs = [col, None]  # weaker reading: clicked column or the cursor's column
        else:
            printable = len(key) == 1 and key >= " "
            if printable:
                if spec.accepts(key, t0, p0):
                    ins = spec.to_text(key)
                    expect([(t0[:p0] + ins + t0[p0:], p0 + len(ins))], "insert")
                    if ret:
                        fail(i, op, "handled-key-returned", f"{key!r} was inserted and returned")
                    prefs = [None]
                else:
                    if ret != key:
                        fail(i, op, "unused-key-returned", f"{key!r} is not accepted here but keypress returned {ret!r}; "
                             f"state {(t0, p0)!r} -> {(t1, p1)!r}")
                    unchanged(f"rejected character {key!r}")
            elif key == "enter" and spec.multiline:
                nl = spec.to_text("\n")
                expect([(t0[:p0] + nl + t0[p0:], p0 + 1)], "insert")
                prefs = [None]
            elif key == "tab" and spec.allow_tab:
                sp = spec.to_text(" ")
                # docs: "'tab' inserts 1-8 spaces"
                expect([(t0[:p0] + sp * n + t0[p0:], p0 + n) for n in range(1, 9)], "insert-tab")
                prefs = [None]
            elif key == "left":
                if p0 == 0:
                    unchanged("left at offset 0")
                else:
                    expect([(t0, prev_bound(t0, p0, mode))], "move-left")
                    prefs = [None]
            elif key == "right":
                if p0 == len(t0):
                    unchanged("right at the end")
                else:
                    expect([(t0, next_bound(t0, p0, mode))], "move-right")
                    prefs = [None]
            elif key == "backspace":
                if p0 == 0:
                    unchanged("backspace at offset 0")
                    prefs = prefs + [None]  # urwid forgets the preferred column here; either reading accepted
                else:
                    q = prev_bound(t0, p0, mode)
                    expect([(t0[:q] + t0[p0:], q)], "backspace")
                    prefs = [None]
            elif key == "delete":
                if p0 == len(t0):
                    unchanged("delete at the end")
                    prefs = prefs + [None]
                else:
                    q = next_bound(t0, p0, mode)
                    expect([(t0[:p0] + t0[q:], p0)], "delete")
                    prefs = [None]
            elif key in ("up", "down"):
                y1 = cy0 + (1 if key == "down" else -1)
                if not complete or top is None:
                    # some offsets have no place in the layout (a line of zero-width characters only)
                    if t1 != t0 and not spec.numeric:
                        fail(i, op, "move-text", f"{key} changed the text {t0!r} -> {t1!r}")
                    if changed and ret:
                        fail(i, op, "handled-key-returned", f"{key} moved the cursor and was returned")
                    prefs = [None, cx0] + [p for p in prefs if p is not None]
                elif y1 < top[1] or y1 >= len(M):
                    if ret != key:
                        fail(i, op, "unused-key-returned", f"{key} from row {cy0} of {len(M)} (text starts on row {top[1]}) "
                             f"returned {ret!r}")
                    unchanged(f"{key} with no row to go to")
                elif spec.wrap == "clip":
                    # weaker reading in clip mode: the cursor moves to the adjacent row
                    if ret:
                        fail(i, op, "move-vertical", f"{key} from row {cy0} of {len(M)} came back unhandled")
                    if t1 != t0 and not spec.numeric:
                        fail(i, op, "move-text", f"{key} changed the text {t0!r} -> {t1!r}")
                    if t1 == t0:
                        h = locate(M, caplen + p1)
                        if h is not None and h[1] != y1:
                            fail(i, op, "move-vertical", f"{key} from row {cy0} landed on row {h[1]} (offset {p0} -> {p1} of {t0!r})")
                    prefs = [None]
                else:
                    if ret:
                        fail(i, op, "move-vertical", f"{key} from row {cy0} of {len(M)} came back unhandled ({ret!r})")
                    ok = []
                    allt = []
                    for pref in prefs:
                        c = cx0 if pref is None else pref
                        tg = targets_for_pref(M, y1, caplen, c)
                        if tg is None:
                            ok.append(c)
                            continue
                        cands = [(t0, p - caplen) for p in sorted(tg)]
                        allt.extend(cands)
                        try:
                            expect(cands, "move-vertical")
                            ok.append(c)
                        except Violation:
                            pass
                    if not ok:
                        fail(i, op, "move-vertical", f"{key} from offset {p0} (cursor {cur}, preferred column(s) "
                             f"{[cx0 if p is None else p for p in prefs]!r}) of {t0!r} width {w}: expected one of "
                             f"{sorted(set(allt))!r}, widget has {(t1, p1)!r}; layout {edit.get_line_translation(w)!r}")
                    prefs = ok
            elif key in ("home", "end"):
                if complete and M[cy0]:
                    tg = targets_for_pref(M, cy0, caplen, "left" if key == "home" else "right")
                    if tg is not None:
                        expect([(t0, p - caplen) for p in sorted(tg)], "move-" + key)
                elif t1 != t0 and not spec.numeric:
                    fail(i, op, "move-text", f"{key} changed the text {t0!r} -> {t1!r}")
                prefs = ["left" if key == "home" else "right"]
            else:
                if ret != key:
                    fail(i, op, "unused-key-returned", f"keypress({key!r}) returned {ret!r}")
                unchanged(f"unused key {key!r}")
            if spec.numeric and not ret and None not in prefs:
                prefs = prefs + [None]  # a zero may have been stripped, which forgets the column
        M, cur = observe(i, op)


# ---------------------------------------------------------------------------------------------
# sub-check "edit": urwid.Edit with all options


class EditSpec(Spec):
    def __init__(self, case, conv):
        self.multiline = case["multiline"]
        self.allow_tab = case["allow_tab"]
        self.wrap = case["wrap"]
        self.conv = conv

    def to_text(self, key):
        return self.conv(key)


def prehistory(case, caption, text, mask):
    """What the process did before the widget under test existed: urwid.set_encoding() is public, global and may
    be called at any time, so the very same caption / text (for bytes: the same bytes, which are other characters
    of other widths there) may have been shown and edited with the same keys and clicks at the same width under
    another encoding.  Nothing is asserted about this phase (the bytes need not be well-formed text there) and
    whatever it raises is ignored; the widget and its canvases stay referenced while the real case runs.  What the
    library remembered from it must not leak into the case proper."""
    widths.use_encoding(case["prior"])
    size = (case["width"],)
    kept = []
    try:
        old = urwid.Edit(caption, text, multiline=case["multiline"], align=case["align"], wrap=case["wrap"],
                         allow_tab=case["allow_tab"], mask=mask)
        kept.append(old)
        kept.append(old.render(size, focus=True))
        old.get_cursor_coords(size)
        for op in case["ops"]:
            if op[0] == "k":
                old.keypress(size, op[1])
            else:
                old.mouse_event(size, "mouse press", 1, op[1] * case["width"] // 100, op[2] * old.rows(size, True) // 100, True)
            kept.append(old.render(size, focus=True))
    except Exception:  # noqa: BLE001 - not under test
        pass
    return kept


def check_edit(case):
    enc = case["encoding"]
    mode = widths.use_encoding(enc)
    conv = (lambda s: s.encode(enc)) if case["bytes"] else (lambda s: s)
    caption, text = conv(case["caption"]), conv(case["text"])
    mask = None if case["mask"] is None else conv(case["mask"])
    pos = None
    if case["pos"] is not None:
        bs = bounds(text, mode)
        pos = bs[case["pos"] % len(bs)]
    with warnings.catch_warnings():
        warnings.simplefilter("ignore")
        before = None
        if case.get("prior") not in (None, enc):
            before = prehistory(case, caption, text, mask)
            mode = widths.use_encoding(enc)
        edit = urwid.Edit(caption, text, multiline=case["multiline"], align=case["align"], wrap=case["wrap"],
                          allow_tab=case["allow_tab"], edit_pos=pos, mask=mask)
        if edit.edit_text != text or edit.edit_pos != (len(text) if pos is None else pos):
            raise Violation("init", f"Edit({caption!r}, {text!r}, edit_pos={pos}) holds {edit.edit_text!r} at {edit.edit_pos}")
        drive(edit, EditSpec(case, conv), case, mode, mask)


# ---------------------------------------------------------------------------------------------
# sub-check "numeric": IntEdit, IntegerEdit, FloatEdit

DIGITS36 = "0123456789ABCDEFGHIJKLMNOPQRSTUVWXYZ"


class NumSpec(Spec):
    numeric = True

    def __init__(self, alphabet, allow_negative):
        self.alphabet = set(alphabet)
        self.allow_negative = allow_negative

    def accepts(self, key, text, pos):
        if key in self.alphabet:
            # in front of the minus sign nothing can be typed: the result would hold '-' at an index > 0,
            # which the property excludes ("at most one minus sign at index 0")
            return not (pos == 0 and text[:1] == "-")
        # documented by the NumEdit doctest: a minus is taken only at the very start, once
        return self.allow_negative and key == "-" and pos == 0 and "-" not in text


def check_numeric(case):
    enc = case["encoding"]
    mode = widths.use_encoding(enc)
    kind = case["kind"]
    default = case["default"]
    with warnings.catch_warnings():
        warnings.simplefilter("ignore")
        if kind == "IntEdit":
            edit = urwid.IntEdit(case["caption"], default)
            spec = NumSpec("0123456789", False)
        elif kind == "IntegerEdit":
            edit = numedit.IntegerEdit(case["caption"], default, base=case["base"], allow_negative=case["allow_negative"])
            al = DIGITS36[: case["base"]]
            spec = NumSpec(al + al.lower(), case["allow_negative"])
        elif kind == "FloatEdit":
            # the three supported ways of passing the options (numedit.FloatEdit.__init__: the camelCase
            # names are deprecated, still accepted, and are also the 3rd and 4th positional parameters)
            spelling = case.get("spelling", "keyword")
            if spelling == "keyword":
                edit = numedit.FloatEdit(case["caption"], default, preserve_significance=case["preserve"],
                                         decimal_separator=case["separator"], allow_negative=case["allow_negative"])
            elif spelling == "legacy-keyword":
                edit = numedit.FloatEdit(case["caption"], default, preserveSignificance=case["preserve"],
                                         decimalSeparator=case["separator"], allow_negative=case["allow_negative"])
            elif spelling == "positional":
                edit = numedit.FloatEdit(case["caption"], default, case["preserve"], case["separator"],
                                         allow_negative=case["allow_negative"])
            else:
                raise AssertionError(spelling)
            spec = NumSpec("0123456789" + case["separator"], case["allow_negative"])
        else:
            raise AssertionError(kind)
        drive(edit, spec, case, mode, None)


SUBS = {"edit": check_edit, "numeric": check_numeric}


# ---------------------------------------------------------------------------------------------
# strategies


def _ops(typed, max_ops):
    keyop = st.sampled_from(typed).map(lambda c: ["k", c])
    single = st.one_of(
        keyop, keyop, keyop,
        st.sampled_from(NAV).map(lambda k: ["k", k]),
        st.sampled_from(NAV).map(lambda k: ["k", k]),
        st.sampled_from(["backspace", "delete", "backspace", "delete", "enter", "tab"]).map(lambda k: ["k", k]),
        st.sampled_from(UNRELATED).map(lambda k: ["k", k]),
        st.tuples(st.just("click"), st.integers(0, 99), st.integers(0, 99)).map(list),
    )
    # "keeping the preferred column" is only observable over consecutive vertical moves: a run of 2..4 up/down
    # keys, optionally started from an edge of the row (home, end, or a click in the first / last column -
    # the remembered column is then 0 or width-1, the extremes of its range) or from a left/right step
    anchor = st.one_of(
        st.none(),
        st.sampled_from(["home", "end", "left", "right"]).map(lambda k: ["k", k]),
        st.tuples(st.just("click"), st.sampled_from([0, 99]), st.integers(0, 99)).map(list),
    )
    run = st.tuples(anchor, st.lists(st.sampled_from(["up", "down"]).map(lambda k: ["k", k]), min_size=2, max_size=4)).map(
        lambda t: ([t[0]] if t[0] is not None else []) + t[1])
    chunk = st.one_of(*([single.map(lambda o: [o])] * 7 + [run]))
    # Hypothesis lists of 1..max average about 6 elements; every other history is drawn with at least 10 so that
    # long histories (state carried over many steps, several clicks per text) are ordinary, not exceptional
    hist = st.one_of(st.lists(chunk, min_size=1, max_size=max_ops), st.lists(chunk, min_size=10, max_size=max_ops))
    return hist.map(lambda cs: [o for c in cs for o in c][:max_ops])


_listener = st.fixed_dictionaries({
    "callback": st.sampled_from(CALLBACK_KINDS),
    "weak": st.lists(st.sampled_from(sorted(WEAK_TARGETS)), max_size=2),
    "user_args": st.one_of(st.none(), st.lists(st.sampled_from(ARG_VALUES), max_size=2)),
    "user_arg": st.one_of(st.none(), st.none(), st.sampled_from(ARG_VALUES)),
    "mutate_after": st.booleans(),
    "returns": st.sampled_from([None, None, True, False, 0, "x"]),
    # a handler may change the handler list that is being walked: one listener in three does so from inside its
    # 1st..3rd call - it disconnects itself (a one-shot listener) or another listener, by key or by arguments,
    # or connects a further listener
    "reentry": st.one_of(st.none(), st.none(), st.fixed_dictionaries({
        "at": st.integers(1, 3),
        "do": st.sampled_from(["disconnect", "disconnect", "disconnect", "connect"]),
        "how": st.sampled_from(["key", "args"]),
        "target": st.one_of(st.none(), st.none(), st.integers(0, 2)),
    })),
})
# besides the plain listener every case has, 0..3 more, connected in the other documented ways
_listeners = st.lists(_listener, max_size=3)


@st.composite
def edit_cases(draw, max_ops):
    enc = draw(st.sampled_from(ENCODINGS))
    is_bytes = draw(st.booleans())
    alpha = ALPHA[enc]
    textch = st.sampled_from(alpha + ["\n", " ", " ", "a", "b"])
    caption = draw(st.text(st.sampled_from(alpha + ["\n", " "]), max_size=8))
    text = draw(st.text(textch, max_size=14))
    typed = alpha
    ops = draw(_ops(typed, max_ops))
    width = draw(st.integers(1, 20))
    if _has_special(caption + text + "".join(o[1] for o in ops if o[0] == "k" and len(o[1]) == 1)):
        width = max(width, 2)  # a double-width character cannot be displayed in one column
    return {
        "encoding": enc,
        "bytes": is_bytes,
        "caption": caption,
        "text": text,
        "width": width,
        "wrap": draw(st.sampled_from(["space", "any", "clip"])),
        "align": draw(st.sampled_from(["left", "left", "center", "right"])),
        "multiline": draw(st.booleans()),
        "allow_tab": draw(st.booleans()),
        "mask": draw(st.sampled_from([None, None, None, "*"])),
        "pos": draw(st.one_of(st.none(), st.integers(0, 30))),
        "ops": ops,
        "listeners": draw(_listeners),
        # two cases in five: the same widget description was used under another encoding earlier in the process
        "prior": draw(st.one_of(st.none(), st.none(), st.none(), st.sampled_from(ENCODINGS), st.sampled_from(ENCODINGS))),
    }


NUM_KEYS_ASCII = list("0123456789") + list("0159") + list("aAfFgGzZsStTiI") + list("--..,,") + [" ", "+", "e", "x"]
NUM_KEYS_UPPER = ["ſ", "ı", "ﬆ", "ﬅ"]  # .upper() gives 'S', 'I', 'ST', 'ST'


@st.composite
def numeric_cases(draw, max_ops):
    enc = draw(st.sampled_from(ENCODINGS))
    kind = draw(st.sampled_from(["IntEdit", "IntegerEdit", "IntegerEdit", "FloatEdit"]))
    caption = draw(st.text(st.sampled_from(list("ab: \n")), max_size=5))
    case = {"encoding": enc, "kind": kind, "caption": caption, "width": draw(st.integers(1, 12))}
    neg = draw(st.booleans())
    digits = st.text(st.sampled_from("0123456789"), min_size=1, max_size=6)
    if kind == "IntEdit":
        case["default"] = draw(st.one_of(st.none(), st.integers(0, 99999), digits))
    elif kind == "IntegerEdit":
        base = draw(st.one_of(st.sampled_from([2, 8, 10, 16, 36, 36]), st.integers(2, 36)))
        case["base"] = base
        case["allow_negative"] = neg
        al = DIGITS36[:base]
        choices = [st.none(), st.text(st.sampled_from(al + al.lower()), min_size=1, max_size=6)]
        if base == 10:
            choices.append(st.integers(-999 if neg else 0, 99999))
        case["default"] = draw(st.one_of(*choices))
    else:
        sep = draw(st.sampled_from([".", ".", ","]))
        case["separator"] = sep
        case["allow_negative"] = neg
        case["preserve"] = draw(st.booleans())
        case["spelling"] = draw(st.sampled_from(["keyword", "keyword", "legacy-keyword", "positional"]))
        ip = draw(st.text(st.sampled_from("0123456789"), min_size=1, max_size=4))
        if ip.strip("0") == "":
            ip += "1"  # keeps str(Decimal(...)) out of exponent notation
        fp = draw(st.text(st.sampled_from("0123456789"), min_size=0, max_size=3))
        sign = "-" if neg and draw(st.booleans()) else ""
        choices = [st.none(), st.just(""), st.just(sign + ip)]
        if sep == ".":
            choices.append(st.just(sign + ip + "." + fp if fp else sign + ip))
        case["default"] = draw(st.one_of(*choices))
    typed = NUM_KEYS_ASCII + (NUM_KEYS_UPPER if enc == "utf-8" else [])
    case["ops"] = draw(_ops(typed, max_ops))
    case["listeners"] = draw(_listeners)
    return case


def _edit_nontrivial(case):
    chars = case["caption"] + case["text"]
    typed = "".join(o[1] for o in case["ops"] if o[0] == "k" and len(o[1]) == 1)
    special = _has_special(chars + typed)
    multirow = "\n" in chars or len(chars) + len(typed) > case["width"]
    vertical = any(o[0] == "k" and o[1] in ("up", "down") for o in case["ops"])
    edits = any(o[0] == "k" and (len(o[1]) == 1 or o[1] in ("backspace", "delete")) for o in case["ops"])
    return (special or multirow) and (vertical or (special and edits))


def _listener_classes(case):
    out = []
    for d in case.get("listeners") or []:
        out.append(f"listener:{d['callback']}")
        if d["weak"]:
            falsy = [n for n in d["weak"] if n.endswith("-empty") or n.startswith(("len0", "bool-false"))]
            out.append("listener:weak_args alive but falsy" if falsy else "listener:weak_args")
        if d["user_args"] is not None:
            out.append("listener:user_args" + (" empty" if not d["user_args"] else
                                               " with a falsy value" if not all(d["user_args"]) else ""))
            if d.get("mutate_after"):
                out.append("listener:user_args list changed after connecting")
        if d["user_arg"] is not None:
            out.append("listener:deprecated user_arg" + ("" if d["user_arg"] else " falsy"))
        r = d.get("reentry")
        if r:
            if r["do"] == "connect":
                out.append("listener:connects a listener inside its handler")
            else:
                n = len(case["listeners"])
                itself = r["target"] is None or case["listeners"][r["target"] % n] is d
                out.append(f"listener:disconnects {'itself' if itself else 'another listener'} inside its handler ({r['how']})")
    return sorted(set(out))


def _edit_classes(case):
    out = [f"edit:{case['encoding']}:{'bytes' if case['bytes'] else 'str'}", f"edit:wrap={case['wrap']}",
           f"edit:align={case['align']}"]
    if case["mask"] is not None:
        out.append("edit:mask")
    if case["multiline"]:
        out.append("edit:multiline")
    chars = case["caption"] + case["text"] + "".join(o[1] for o in case["ops"] if o[0] == "k" and len(o[1]) == 1)
    if any(widths.char_width(c) == 2 for c in chars):
        out.append("edit:double-width")
    if any(widths.char_width(c) == 0 for c in chars if c != "\n"):
        out.append("edit:combining")
    if any(o[0] == "click" for o in case["ops"]):
        out.append("edit:click")
    if any(o[0] == "k" and o[1] in ("up", "down") for o in case["ops"]):
        out.append("edit:vertical")
    if case.get("prior") not in (None, case["encoding"]):
        out.append(f"edit:after the same {'bytes' if case['bytes'] else 'str'} case under another encoding")
    return out + _listener_classes(case)


def _num_nontrivial(case):
    keys = [o[1] for o in case["ops"] if o[0] == "k"]
    return len(keys) >= 3 and any(k in NUM_KEYS_UPPER or k == "-" or (len(k) == 1 and not k.isdigit()) for k in keys)


def _num_classes(case):
    out = [f"numeric:{case['kind']}"]
    if case.get("allow_negative"):
        out.append("numeric:allow_negative")
    if case.get("base") not in (None, 10):
        out.append("numeric:base!=10")
    if case.get("spelling", "keyword") != "keyword":
        out.append("numeric:FloatEdit options in the deprecated spelling")
    if any(o[0] == "k" and o[1] in NUM_KEYS_UPPER for o in case["ops"]):
        out.append("numeric:upper()-lands-in-alphabet key")
    return out + _listener_classes(case)


def shard(ctx):
    # the small campaign first: should the budget run out (overloaded machine), both sub-checks have still run
    ctx.given("numeric", numeric_cases(ctx.scale(30, 60)), ctx.scale(250, 4000), nontrivial=_num_nontrivial,
              classify=_num_classes)
    if ctx.failure is None:
        max_ops = ctx.scale(40, 80)
        ctx.given("edit", edit_cases(max_ops), ctx.scale(800, 10000), nontrivial=_edit_nontrivial, classify=_edit_classes)


# ---------------------------------------------------------------------------------------------
# known findings (active only when listed in known_findings.d/C10.json with status "known")

_STEP = re.compile(r"^step (-?\d+) ")


def _step_op(case, v):
    m = _STEP.match(v.message)
    if not m or int(m.group(1)) < 0:
        return None
    return case["ops"][int(m.group(1))]


def _case_chars(case):
    return case.get("caption", "") + case.get("text", "") + "".join(
        o[1] for o in case["ops"] if o[0] == "k" and len(o[1]) == 1)


def _known_zero_segment(sub, case, v):
    # LayoutSegment.subseg emits a zero-width text segment (0, n, n) when the shifted view cuts a
    # double-width character and nothing else of the segment remains
    return (
        v.clause == "exception:ValueError@text_layout.py:__init__"
        and re.match(r"^ValueError: \(0, (\d+), \1\)$", v.message) is not None
        and any(widths.char_width(c) == 2 for c in _case_chars(case))
    )


def _known_bytes_key_utf8(sub, case, v):
    # Edit.keypress encodes a str key with "utf-8" for a bytes caption whatever the active encoding is
    op = _step_op(case, v)
    return (
        sub == "edit"
        and case["bytes"]
        and case["encoding"] != "utf-8"
        and v.clause in ("insert", "pos-boundary")
        and op is not None
        and op[0] == "k"
        and len(op[1]) == 1
        and ord(op[1]) > 127
    )


def _known_mask_bytes(sub, case, v):
    # the mask is repeated once per *byte* of a bytes edit_text, so display offsets (clicks, up/down,
    # home/end) map to offsets inside multi-byte characters
    return (
        sub == "edit"
        and case["bytes"]
        and case["mask"] is not None
        and v.clause == "pos-boundary"
        and any(len(c.encode(case["encoding"])) > 1 for c in _case_chars(case))
    )


def _known_upper_alphabet(sub, case, v):
    # NumEdit.valid_char tests `ch.upper() in allowed` (a substring test on the result of Unicode
    # upper-casing): 'ſ'.upper() == 'S', 'ı'.upper() == 'I', 'ﬆ'.upper() == 'ST' pass
    op = _step_op(case, v)
    return (
        sub == "numeric"
        and v.clause == "alphabet"
        and op is not None
        and op[0] == "k"
        and len(op[1]) == 1
        and ord(op[1]) > 127
        and op[1].upper() in DIGITS36
        and re.search(r"holds %r at index" % op[1], v.message) is not None
    )


def _known_zero_width_run(sub, case, v):
    # the layout emits a text segment (0, a, b), a < b, for a run of only zero-width characters (clip
    # mode line, or the part before a wrap-space); LayoutSegment rejects sc <= 0
    m = re.match(r"^ValueError: \(0, (\d+), (\d+)\)$", v.message)
    return (
        v.clause == "exception:ValueError@text_layout.py:__init__"
        and m is not None
        and int(m.group(1)) < int(m.group(2))
        and any(widths.char_width(c) == 0 for c in _case_chars(case) if c != "\n")
    )


def _known_before_minus(sub, case, v):
    # NumEdit.valid_char lets an allowed character be inserted at offset 0 in front of the minus sign
    op = _step_op(case, v)
    return (
        sub == "numeric"
        and case.get("allow_negative")
        and v.clause == "alphabet"
        and op is not None
        and op[0] == "k"
        and len(op[1]) == 1
        and ord(op[1]) < 128
        and re.search(r"holds '-' at index [1-9]", v.message) is not None
    )


KNOWN = {
    "C10-shift-cuts-wide-char-zero-width-segment": _known_zero_segment,
    "C10-zero-width-only-segment": _known_zero_width_run,
    "C10-numedit-char-before-minus": _known_before_minus,
    "C10-mask-per-byte": _known_mask_bytes,
    "C10-numedit-unicode-upper": _known_upper_alphabet,
    "C10-bytes-key-encoded-as-utf8": _known_bytes_key_utf8,
}
