"""C11 — screen-width arithmetic is consistent for text in every encoding.

Code under test: urwid/str_util.py (get_char_width, get_width, calc_width, calc_text_pos,
is_wide_char, decode_one, decode_one_right, move_next_char, move_prev_char, within_double_byte
through its callers), urwid/util.py (calc_trim_text, trim_text_attr_cs, apply_target_encoding) and
urwid/display/escape.py (DEC_SPECIAL_CHARS / ALT_DEC_SPECIAL_CHARS).

Oracle: vlib.widths (wcwidth table + Python codecs, does not import urwid.str_util) gives the list
of (start, end, width) characters of a str / bytes row.  Everything asserted below is derived from
that list: prefix sums are the columns, the starts (+ len) are the character boundaries.

Soundness decisions (the weaker reading wherever the statement leaves room):
* offsets are generated only on the oracle's character boundaries; target columns are >= 0;
  calc_trim_text column ranges are the callers' domain 0 <= start_col < end_col <= width of the
  range (Canvas.content, LayoutSegment.subseg) plus (0, 0) (text_layout ellipsis);
* zero-width characters: calc_text_pos must return the *largest* boundary whose column is <= the
  target (this is "col <= target and the next character would exceed"); for calc_trim_text any
  boundary at the right column is accepted (the statement fixes widths and pad flags, not on which
  side of the cut a zero-width character rides);
* invalid UTF-8 is restricted to truncated sequences, stray continuation bytes and overlong forms
  (no encoded surrogates, nothing above U+10FFFF, no 0xF5..0xFF): for exactly these urwid's documented
  behaviour (decode_one returns '?' and advances one byte) coincides with the oracle's "one
  undecodable byte = one 1-column character"; anything else is discarded;
* wide mode: a byte string is measured strictly only if it is *valid* text of the case's codec in
  which every character's encoded length equals its column width (DESIGN 2.5: urwid defines wide
  mode as "two bytes = two columns"; half-width katakana, 3-byte EUC, lone lead bytes are the
  caller's problem).  For other byte strings only the mode-independent facts are asserted
  (no exception, width == byte count and additive, calc_text_pos stays in range and <= target; stepping, between
  every two boundaries of the oracle's reading in which a lead byte without a second half is a character of its own:
  move_next_char / move_prev_char move one or two bytes and stay inside the range, the character before end_offs is
  the one calc_text_pos finds for the last column, next-then-previous returns to the start and previous-then-next
  does not stop short of end_offs).  No parse is presumed there: each of these holds for whatever pairing of the bytes
  as long as n bytes are n columns;
* encoding selection histories (enchist): the expected mode of a name comes from the manual's list, not from
  urwid; a raw set_byte_encoding leaves codec and DEC translation unasserted until the next set_encoding;
  set_temporary_encoding (restores by name) is entered only from states a name alone reproduces;
* apply_target_encoding: user text never contains raw SO/SI; the charset runs are compared after
  expansion to one entry per byte (the statement does not fix how runs are merged).
"""
from __future__ import annotations

import itertools
import warnings

from hypothesis import strategies as st

import urwid
from urwid import str_util, util
from urwid.display import escape
from vlib import widths
from vlib.runner import Discard, Violation

PROPERTY = "C11"
LEVEL = "exploration"
RULE = (
    "codepoint: every Unicode scalar value (1 112 064) as str and as UTF-8 bytes, alone and embedded "
    "between ASCII / multi-byte neighbours, for get_char_width, get_width, calc_width, is_wide_char, "
    "decode_one, decode_one_right, move_next_char, move_prev_char, calc_text_pos at every column; "
    "cp_enc: every code point encodable in euc-jp / gbk / big5 / euc-kr / iso8859-1 / ascii whose encoded "
    "length equals its width: str and bytes paths agree; bytes2: every 1- and 2-byte sequence (65 792) "
    "under wide codecs and narrow, alone and in three contexts; short: every concatenation of <=4 "
    "(thorough <=5) units from per-mode alphabets of ~10 class representatives (ASCII, Latin-1, CJK, "
    "combining, emoji, ZWJ, control, truncated / stray / overlong UTF-8, GBK/EUC/Big5 lead+trail "
    "variants, lone lead bytes) x every (start,end) on character boundaries x every target column / "
    "column range for calc_width (oracle + additivity), calc_text_pos, move_next/prev_char (+ round "
    "trip), is_wide_char, calc_trim_text, trim_text_attr_cs, and str<->bytes agreement; wide-mode byte strings that are "
    "not valid text of the codec (lone / truncated lead bytes anywhere incl. the end, lead + a byte that is no second "
    "half: bytes2, short, long) get the parse-independent clauses only: width == byte count, calc_text_pos in range, and "
    "for every range between boundaries of the oracle's reading: steps of one or two bytes inside the range, "
    "move_prev_char == calc_text_pos of the last column, next/previous inverse of each other in both directions; "
    "long: Hypothesis strings of <=24 units with sampled probes (one alternative splices one or two invalid-making "
    "units into wide text); dec: apply_target_encoding on every DEC special "
    "character alone, in every pair with 8 neighbours, and every string of <=4 units over a 7-unit "
    "alphabet, in utf-8, wide and narrow. enchist: histories of encoding-selection calls - set_encoding(name) for "
    "every name of docs/manual/encodings.rst (UTF-8, the ten double-byte names and their unhyphenated / alias forms, "
    "single-byte names, the C locale's ASCII name, an unknown name) in lower / UPPER / Title / eucJP spelling, "
    "str_util.set_byte_encoding(mode), entering / leaving util.set_temporary_encoding(name): every call alone, after each "
    "of 10 kinds of previous selection and followed by that selection again, every history of <=3 (thorough <=4) calls "
    "over 16 representative calls, Hypothesis histories of <=10 calls; after every call all clauses on a bytes probe "
    "(pairs that are 1 / 2 / 2x1 columns in utf8 / wide / narrow), str<->encoded-bytes agreement and "
    "apply_target_encoding under the mode and codec the name stands for. Non-trivial: the text contains a multi-byte, wide, zero-width "
    "or DEC character (codepoint: cp >= 0x80). total: 4-byte UTF-8 forms above U+10FFFF (boundary values, 9 "
    "contexts): only 'the functions return, in range' is asserted."
)
ASSUMPTIONS = [
    "the wcwidth table (clamped to >= 0) is the Unicode width table; Python's codecs define valid text",
    "offsets passed to the functions lie on character boundaries (callers' contract)",
    "invalid UTF-8 is limited to truncated sequences, stray continuation bytes and overlong forms",
    "wide mode is asserted strictly only for valid text whose characters have encoded length == width; for other byte "
    "strings (lone lead bytes ...) the offsets passed are the boundaries of the reading 'a byte >= 0x81 followed by a "
    "byte >= 0x40 is one character, every other byte is one', and only clauses that hold for any pairing are asserted",
    "calc_trim_text is called with 0 <= start_col < end_col <= width of the range, or (0, 0)",
    "user text passed to apply_target_encoding contains no raw SO/SI control characters",
    "encoding names: letter case is not significant (manual: set_encoding('UTF-8'); the locale module reports upper "
    "case); the name -> mode table is transcribed from docs/manual/encodings.rst, other separators (euc_jp) are not generated",
    "after str_util.set_byte_encoding only the byte arithmetic of that mode is asserted (codec / DEC translation "
    "unstated); set_temporary_encoding is entered only from a state selected by set_encoding with a name Python has a "
    "codec for (it restores by name); for names without a Python codec only ASCII and DEC characters are passed to "
    "apply_target_encoding",
]

warnings.filterwarnings("ignore", category=UnicodeWarning)  # calc_width announces invalid UTF-8

WIDE_CODECS = ["euc-jp", "gbk", "big5", "euc-kr"]
NARROW_CODECS = ["iso8859-1", "ascii"]


# ---------------------------------------------------------------------------------------------
# reference


def admissible_utf8(b: bytes) -> bool:
    """Only the invalid forms named in the module docstring (by construction in the generators)."""
    for i, v in enumerate(b):
        if v >= 0xF5:
            return False
        if v == 0xED and i + 1 < len(b) and 0xA0 <= b[i + 1] <= 0xBF:
            return False
        if v == 0xF4 and i + 1 < len(b) and 0x90 <= b[i + 1] <= 0xBF:
            return False
    return True


def valid_utf8(b: bytes) -> bool:
    try:
        b.decode("utf-8")
    except UnicodeDecodeError:
        return False
    return True


def valid_wide(b: bytes, codec: str) -> bool:
    """b is valid text of codec and every character's encoded length equals its column width,
    and Python's codec agrees with the width oracle's parse (cross-check of the oracle)."""
    try:
        s = b.decode(codec)
    except UnicodeDecodeError:
        return False
    ref = widths.chars(b, "wide")
    if len(ref) != len(s):
        return False
    for ch, (st_, en, w) in zip(s, ref):
        try:
            e = ch.encode(codec)
        except UnicodeEncodeError:
            return False
        if e != b[st_:en] or widths.char_width(ch) != w or len(e) != w:
            return False
    return True


class Ref:
    """Characters of a text according to the width oracle: boundaries B, widths W, columns cum."""

    __slots__ = ("B", "W", "cum", "n", "idx", "at")

    def __init__(self, text, mode):
        cs = widths.chars(text, mode)
        self.B = [c[0] for c in cs] + [len(text)]
        self.W = [c[2] for c in cs]
        self.cum = [0]
        for w in self.W:
            self.cum.append(self.cum[-1] + w)
        self.n = len(cs)
        self.idx = {b: k for k, b in enumerate(self.B)}  # offset -> boundary index
        self.at = {}  # absolute column -> boundary indices at that column
        for k, c in enumerate(self.cum):
            self.at.setdefault(c, []).append(k)

    def text_pos(self, i, j, target):
        """index k of the largest boundary in i..j with column <= target, and that column"""
        cum = self.cum
        lim = cum[i] + target
        k = i
        while k < j and cum[k + 1] <= lim:
            k += 1
        return k, cum[k] - cum[i]

    def trim(self, i, j, sc, ec):
        """(acceptable spos indices, acceptable epos indices, pad_left, pad_right) for the column
        range sc..ec of characters i..j.  Widths are <= 2, so a column inside the range that is not
        the column of any boundary is the middle of a double-width character."""
        base = self.cum[i]
        at = self.at
        pl = 0 if (base + sc) in at else 1
        pr = 0 if (base + ec) in at else 1
        s_ok = [k for k in at[base + sc + pl] if i <= k <= j]
        e_ok = [k for k in at[base + ec - pr] if i <= k <= j]
        return s_ok, e_ok, pl, pr


def _show(text):
    return repr(text) if isinstance(text, str) else "bytes.fromhex(%r)" % bytes(text).hex()


def rle_expand(rle):
    out = []
    for a, n in rle:
        out.extend([a] * n)
    return out


def _set_enc(enc):
    """Switch urwid's global encoding (and drop dependent caches) unless it is already active."""
    mode = widths.mode_of(enc)
    if util.get_encoding() != enc or str_util.get_byte_encoding() != mode:
        widths.use_encoding(enc)
        if util.get_encoding() != enc or str_util.get_byte_encoding() != mode:
            raise Violation(
                "select-encoding",
                f"set_encoding({enc!r}) left get_encoding() = {util.get_encoding()!r}, mode "
                f"{str_util.get_byte_encoding()!r}; expected {enc!r} / {mode!r}",
            )
    return mode


# ---------------------------------------------------------------------------------------------
# the generic checker: one text, all ranges / columns (or the given probes)


def check_text(text, mode, enc, strict=True, probes=None, do_trim_attr=True, trim_all_pairs=True, table=None):
    """Assert every C11 clause for `text` under byte mode `mode` (encoding `enc` is already set).

    probes None: all (i, j) boundary pairs x all columns x all column ranges (trim_all_pairs False:
    column ranges only for pairs that start at 0 or end at the end); otherwise a list of
    [i, j, c, d] integers interpreted modulo the number of boundaries / columns.
    table: dict that receives urwid's answers keyed by character indices (str/bytes agreement).
    """
    ctxs = f"enc={enc} text={_show(text)}"
    if not strict:
        _check_text_weak(text, ctxs)
        return
    ref = Ref(text, mode)
    B, W, cum, n, idx = ref.B, ref.W, ref.cum, ref.n, ref.idx
    calc_width, calc_text_pos = str_util.calc_width, str_util.calc_text_pos
    move_next_char, move_prev_char = str_util.move_next_char, str_util.move_prev_char

    # is_wide_char at every boundary
    for k in range(n):
        got = str_util.is_wide_char(text, B[k])
        if bool(got) != (W[k] == 2):
            raise Violation("is-wide", f"{ctxs}: is_wide_char(text, {B[k]}) = {got!r}, character width is {W[k]}")

    if probes is None:
        pairs = [(i, j) for i in range(n + 1) for j in range(i, n + 1)]
    else:
        pairs = []
        for p in probes:
            i, j = sorted((p[0] % (n + 1), p[1] % (n + 1)))
            pairs.append((i, j, p[2], p[3]))

    cw = {}
    for pr in pairs:
        i, j = pr[0], pr[1]
        s, e = B[i], B[j]
        total = cum[j] - cum[i]
        got = calc_width(text, s, e)
        cw[i, j] = got
        if got != total:
            raise Violation(
                "width", f"{ctxs}: calc_width(text, {s}, {e}) = {got}, width table says {total} ({W[i:j]})"
            )
        # offset for a target column
        cols = range(total + 2) if probes is None else (pr[2] % (total + 2),)
        for c in cols:
            k, col = ref.text_pos(i, j, c)
            got = calc_text_pos(text, s, e, c)
            if got[0] != B[k] or got[1] != col or len(got) != 2:
                raise Violation(
                    "text-pos",
                    f"{ctxs}: calc_text_pos(text, {s}, {e}, {c}) = {tuple(got)!r}, expected ({B[k]}, {col}): the largest "
                    f"character boundary at a column <= {c} (boundaries {B[i:j + 1]}, columns "
                    f"{[x - cum[i] for x in cum[i:j + 1]]})",
                )
        # trimming to a column range
        if probes is None:
            if trim_all_pairs or i == 0 or j == n:
                ranges = [(0, 0)] + [(a, b) for a in range(total) for b in range(a + 1, total + 1)]
            else:
                ranges = ()
        elif total:
            a = pr[2] % total
            ranges = [(a, a + 1 + pr[3] % (total - a)), (0, 0)]
        else:
            ranges = [(0, 0)]
        for sc, ec in ranges:
            s_ok, e_ok, pl, pr_ = ref.trim(i, j, sc, ec)
            got = util.calc_trim_text(text, s, e, sc, ec)
            spos, epos, gpl, gpr = got
            ks, ke = idx.get(spos), idx.get(epos)
            if gpl == pl and gpr == pr_ and ks in s_ok and ke in e_ok and ks <= ke:
                if table is not None:
                    table[i, j, sc, ec] = (ks, ke, gpl, gpr)
                continue
            _trim_violation(ctxs, ref, i, j, sc, ec, got, s_ok, e_ok, pl, pr_)

    # additivity over every split at a character boundary
    if probes is None:
        for (i, j), v in cw.items():
            for k in range(i + 1, j):
                if cw[i, k] + cw[k, j] != v:
                    raise Violation(
                        "additive",
                        f"{ctxs}: calc_width {B[i]}..{B[k]} + {B[k]}..{B[j]} = {cw[i, k]} + {cw[k, j]} != {v}",
                    )
    else:
        for pr in pairs:
            i, j = pr[0], pr[1]
            k = i + pr[3] % (j - i + 1)
            a = calc_width(text, B[i], B[k])
            b = calc_width(text, B[k], B[j])
            if a + b != cw[i, j]:
                raise Violation("additive", f"{ctxs}: calc_width {B[i]}..{B[k]} + {B[k]}..{B[j]} = {a} + {b} != {cw[i, j]}")

    if do_trim_attr and isinstance(text, bytes):
        total = cum[n]
        if probes is None:
            rs = [(a, b) for a in range(total) for b in range(a + 1, total + 1)]
        else:
            rs = []
            if total:
                for p in probes:
                    a = p[2] % total
                    rs.append((a, a + 1 + p[3] % (total - a)))
        if rs:
            _check_trim_attr(text, ref, mode, rs, ctxs)

    # stepping (after everything else, so that a listed stepping finding cannot hide another clause)
    for pr in pairs:
        i, j = pr[0], pr[1]
        if i == j:
            continue
        s, e = B[i], B[j]
        nx = move_next_char(text, s, e)
        if nx != B[i + 1]:
            clause = "move-next" if s < nx <= e else "step-out-of-range"
            raise Violation(clause, f"{ctxs}: move_next_char(text, {s}, {e}) = {nx}, next character starts at {B[i + 1]}")
        pv = move_prev_char(text, s, e)
        if pv != B[j - 1]:
            clause = "move-prev" if s <= pv < e else "step-out-of-range"
            raise Violation(clause, f"{ctxs}: move_prev_char(text, {s}, {e}) = {pv}, previous character starts at {B[j - 1]}")
        back = move_prev_char(text, s, nx)
        if back != s:
            raise Violation(
                "round-trip", f"{ctxs}: move_prev_char(text, {s}, move_next_char(text, {s}, {e})={nx}) = {back}"
            )


def _trim_violation(ctxs, ref, i, j, sc, ec, got, s_ok, e_ok, pl, pr):
    B = ref.B
    s, e = B[i], B[j]
    spos, epos, gpl, gpr = got
    call = f"calc_trim_text(text, {s}, {e}, {sc}, {ec}) = {tuple(got)!r}"
    if (gpl, gpr) != (pl, pr):
        raise Violation(
            "trim-pad",
            f"{ctxs}: {call}: pad flags should be ({pl}, {pr}) (a double-width character straddles the "
            f"left edge: {bool(pl)}, the right edge: {bool(pr)}); widths {ref.W[i:j]}",
        )
    if spos not in ref.idx or epos not in ref.idx or not s <= spos <= epos <= e:
        raise Violation("trim-boundary", f"{ctxs}: {call}: offsets are not ordered character boundaries {B[i:j + 1]}")
    ks, ke = ref.idx[spos], ref.idx[epos]
    wslice = ref.cum[ke] - ref.cum[ks]
    if wslice + gpl + gpr != ec - sc:
        raise Violation(
            "trim-width", f"{ctxs}: {call}: slice width {wslice} + pads {gpl}+{gpr} != requested {ec - sc} columns"
        )
    raise Violation(
        "trim-slice",
        f"{ctxs}: {call}: slice starts at column {ref.cum[ks] - ref.cum[i]} (expected {sc + pl}) and ends at "
        f"column {ref.cum[ke] - ref.cum[i]} (expected {ec - pr})",
    )


def _check_trim_attr(text, ref, mode, ranges, ctxs):
    B, n = ref.B, ref.n
    attr_src, cs_src = [], []
    for k in range(n):
        ln = B[k + 1] - B[k]
        attr_src.extend(["ABC"[k % 3]] * ln)
        cs_src.extend([None if k % 2 else "U"] * ln)
    attr, cs = [], []
    for a in attr_src:
        util.rle_append_modify(attr, (a, 1))
    for c in cs_src:
        util.rle_append_modify(cs, (c, 1))
    attr0, cs0 = list(attr), list(cs)
    for sc, ec in ranges:
        s_ok, e_ok, pl, pr = ref.trim(0, n, sc, ec)
        t, a_out, c_out = util.trim_text_attr_cs(text, attr, cs, sc, ec)

        def call(sc=sc, ec=ec, t=t, a_out=a_out, c_out=c_out):
            return f"trim_text_attr_cs(text, {attr0!r}, {cs0!r}, {sc}, {ec}) = ({t!r}, {a_out!r}, {c_out!r})"

        if attr != attr0 or cs != cs0:
            raise Violation("trim-attr-mutates", f"{ctxs}: {call()} modified its attr/cs arguments")
        cands = [
            (ks, ke) for ks in s_ok for ke in e_ok if ks <= ke and t == b" " * pl + text[B[ks] : B[ke]] + b" " * pr
        ]
        if not cands:
            raise Violation(
                "trim-attr-text",
                f"{ctxs}: {call()}: expected {pl} space(s) + the characters of columns {sc + pl}..{ec - pr} + {pr} space(s)",
            )
        if widths.width(t, mode) != ec - sc:
            raise Violation("trim-attr-width", f"{ctxs}: {call()}: result is not {ec - sc} columns wide")
        xa, xc = rle_expand(a_out), rle_expand(c_out)
        if len(xa) != len(t) or len(xc) != len(t):
            raise Violation(
                "trim-attr-rle", f"{ctxs}: {call()}: attr runs cover {len(xa)}, cs runs {len(xc)}, text has {len(t)} bytes"
            )
        hi = len(t) - pr
        if not any(xa[pl:hi] == attr_src[B[ks] : B[ke]] and xc[pl:hi] == cs_src[B[ks] : B[ke]] for ks, ke in cands):
            raise Violation("trim-attr-rle", f"{ctxs}: {call()}: attr/cs of the kept characters changed")


def _check_text_weak(text, ctxs):
    """Invalid text in wide mode: only what holds for any parse under 'n bytes = n columns'."""
    n = len(text)
    got = str_util.calc_width(text, 0, n)
    if got != n:
        raise Violation("weak-width", f"{ctxs}: calc_width(text, 0, {n}) = {got}, documented as the byte count")
    for c in range(n + 2):
        pos, col = str_util.calc_text_pos(text, 0, n, c)
        if not 0 <= pos <= n or col > c or col < 0:
            raise Violation("weak-text-pos", f"{ctxs}: calc_text_pos(text, 0, {n}, {c}) = ({pos}, {col})")
        if str_util.calc_width(text, 0, pos) != col:
            raise Violation(
                "weak-text-pos", f"{ctxs}: calc_text_pos(text, 0, {n}, {c}) = ({pos}, {col}) but width 0..{pos} differs"
            )
    if n:
        str_util.is_wide_char(text, 0)
        str_util.move_next_char(text, 0, n)
        str_util.move_prev_char(text, 0, n)
    _check_steps_weak(text, ctxs)


def _unpaired_lead(text, s, e):
    """text[s] is a high byte with no second half inside s..e: the range ends after it, or the next byte is none of
    the second halves within_double_byte documents (>= 0x80; 0x40..0x7E after a byte >= 0x81).  Only used to tell the
    listed move_next_char finding from every other stepping disagreement, never as an expectation."""
    if text[s] < 0x80:
        return False
    if s + 1 >= e:
        return True
    v = text[s + 1]
    return not (v >= 0x80 or (0x40 <= v <= 0x7E and text[s] >= 0x81))


def _check_steps_weak(text, ctxs):
    """Stepping in wide-mode text that is not valid text of the codec (lone / truncated lead bytes, bytes that
    cannot be a second half).  No parse is presumed; asserted is only what "n bytes = n columns" implies for any
    parse, between every two boundaries of the oracle's reading (a lead byte without a second half is one character):
    a step moves one or two bytes and stays inside the range; the character before end_offs is the one
    calc_text_pos finds for the last column of the range; next and previous agree with each other in both
    directions.  All move_prev_char clauses come first, so that the listed move_next_char finding hides none."""
    B = widths.boundaries(text, "wide")
    pairs = [(s, e) for s in B for e in B if s < e]
    nxt, prv, tpos = str_util.move_next_char, str_util.move_prev_char, str_util.calc_text_pos
    for s, e in pairs:
        p = prv(text, s, e)
        if not (s <= p < e and e - p <= 2):
            raise Violation(
                "weak-step-range", f"{ctxs}: move_prev_char(text, {s}, {e}) = {p}: not one or two bytes back inside the range"
            )
        # every character is as many columns as bytes, so the character before end_offs holds the last column
        tp = tpos(text, s, e, e - s - 1)
        if tp[0] != p:
            raise Violation(
                "weak-prev-text-pos",
                f"{ctxs}: move_prev_char(text, {s}, {e}) = {p} but calc_text_pos(text, {s}, {e}, {e - s - 1}) = {tuple(tp)!r}: "
                f"the character before end_offs is not the one that holds the last column of the range",
            )
        q = nxt(text, p, e)
        if q < e:
            raise Violation(
                "weak-prev-next",
                f"{ctxs}: move_prev_char(text, {s}, {e}) = {p} but move_next_char(text, {p}, {e}) = {q}: one step back "
                f"passed more than one character",
            )
    for s, e in pairs:
        q = nxt(text, s, e)
        if not (s < q <= e and q - s <= 2):
            clause = "weak-next-unpaired-lead" if _unpaired_lead(text, s, e) else "weak-step-range"
            raise Violation(
                clause, f"{ctxs}: move_next_char(text, {s}, {e}) = {q}: not one or two bytes forward inside the range"
            )
        back = prv(text, s, q)
        if back != s:
            clause = "weak-next-unpaired-lead" if _unpaired_lead(text, s, e) else "weak-round-trip"
            raise Violation(
                clause, f"{ctxs}: move_prev_char(text, {s}, move_next_char(text, {s}, {e})={q}) = {back}, not {s}"
            )


def _strictness(text, mode, enc):
    """True (strict), False (weak); raises Discard for inadmissible input."""
    if isinstance(text, str) or mode == "narrow":
        return True
    if mode == "utf8":
        if not admissible_utf8(text):
            raise Discard()
        return True
    return valid_wide(text, enc)


# ---------------------------------------------------------------------------------------------
# sub: codepoint  {"cp": int}

_PRE = []
for _pre in ("a", "中"):
    _pb = _pre.encode("utf-8")
    _PRE.append((_pre, _pb, len(_pb), widths.char_width(_pre)))


def check_codepoint(case):
    cp = case["cp"]
    if not (0 <= cp <= 0x10FFFF) or 0xD800 <= cp <= 0xDFFF:
        raise Discard()
    _set_enc("utf-8")
    s = chr(cp)
    b = s.encode("utf-8")
    lb = len(b)
    w = widths.char_width(s)
    su = str_util

    def bad(clause, what, got, exp):
        raise Violation(clause, f"U+{cp:04X}: {what} = {got!r}, expected {exp!r}")

    if (g := su.get_char_width(s)) != w:
        bad("char-width", "get_char_width(chr(cp))", g, w)
    if (g := su.get_width(cp)) != w:
        bad("char-width", "get_width(cp)", g, w)
    if (g := su.calc_width(s, 0, 1)) != w:
        bad("width", "calc_width(str, 0, 1)", g, w)
    if (g := su.calc_width(b, 0, lb)) != w:
        bad("width", f"calc_width(utf8 bytes, 0, {lb})", g, w)
    if (g := bool(su.is_wide_char(s, 0))) != (w == 2):
        bad("is-wide", "is_wide_char(str, 0)", g, w == 2)
    if (g := bool(su.is_wide_char(b, 0))) != (w == 2):
        bad("is-wide", "is_wide_char(utf8 bytes, 0)", g, w == 2)
    if (g := tuple(su.decode_one(b, 0))) != (cp, lb):
        bad("decode-one", "decode_one(utf8 bytes, 0)", g, (cp, lb))
    if (g := tuple(su.decode_one_uni(s, 0))) != (cp, 1):
        bad("decode-one", "decode_one_uni(str, 0)", g, (cp, 1))
    if (g := su.decode_one_right(b, lb - 1)) != (cp, -1):
        bad("decode-one-right", f"decode_one_right(utf8 bytes, {lb - 1})", g, (cp, -1))
    if (g := su.move_next_char(s, 0, 1)) != 1:
        bad("move-next", "move_next_char(str, 0, 1)", g, 1)
    if (g := su.move_next_char(b, 0, lb)) != lb:
        bad("move-next", f"move_next_char(utf8 bytes, 0, {lb})", g, lb)
    if (g := su.move_prev_char(s, 0, 1)) != 0:
        bad("move-prev", "move_prev_char(str, 0, 1)", g, 0)
    if (g := su.move_prev_char(b, 0, lb)) != 0:
        bad("move-prev", f"move_prev_char(utf8 bytes, 0, {lb})", g, 0)

    # embedded between neighbours (ASCII, and a 3-byte wide character): boundaries and columns
    for pre_s, pre_b, lp, wp in _PRE:
        variants = [(pre_b + b + pre_b, lp, lp + lb, 2 * lp + lb)]
        if wp == 1:
            variants.append((pre_s + s + pre_s, 1, 2, 3))  # str path: index arithmetic + get_char_width only
        for text, p0, p1, end in variants:
            def T(text=text):
                return ("str " if isinstance(text, str) else "utf8 ") + _show(text)

            if (g := su.move_next_char(text, p0, end)) != p1:
                bad("move-next", f"move_next_char({T()}, {p0}, {end})", g, p1)
            if (g := su.move_prev_char(text, 0, p1)) != p0:
                bad("move-prev", f"move_prev_char({T()}, 0, {p1})", g, p0)
            if (g := su.move_prev_char(text, 0, end)) != p1:
                bad("move-prev", f"move_prev_char({T()}, 0, {end})", g, p1)
            if (g := su.move_prev_char(text, 0, su.move_next_char(text, p0, end))) != p0:
                bad("round-trip", f"move_prev_char(.., 0, move_next_char({T()}, {p0}, {end}))", g, p0)
            if (g := bool(su.is_wide_char(text, p0))) != (w == 2):
                bad("is-wide", f"is_wide_char({T()}, {p0})", g, w == 2)
            if (g := su.calc_width(text, 0, end)) != 2 * wp + w:
                bad("width", f"calc_width({T()}, 0, {end})", g, 2 * wp + w)
            if (g := su.calc_width(text, p0, p1)) != w:
                bad("width", f"calc_width({T()}, {p0}, {p1})", g, w)
            if (g := su.calc_width(text, 0, p0) + su.calc_width(text, p0, end)) != 2 * wp + w:
                bad("additive", f"calc_width({T()}, 0, {p0}) + calc_width(.., {p0}, {end})", g, 2 * wp + w)
            if text.__class__ is bytes:
                if (g := tuple(su.decode_one(text, p0))) != (cp, p1):
                    bad("decode-one", f"decode_one({T()}, {p0})", g, (cp, p1))
                if (g := su.decode_one_right(text, p1 - 1)) != (cp, p0 - 1):
                    bad("decode-one-right", f"decode_one_right({T()}, {p1 - 1})", g, (cp, p0 - 1))
            # columns [0, wp, wp + w, 2 wp + w] at offsets [0, p0, p1, end]; the largest boundary whose
            # column is <= c (a zero-width character is passed over: w == 0 -> index 2 beats index 1).
            # All columns for the ASCII-neighbour utf-8 bytes text, the columns around the character
            # otherwise (the str path never looks at more than get_char_width of each element).
            offs = (0, p0, p1, end)
            colsat = (0, wp, wp + w, 2 * wp + w)
            if wp == 1 and text.__class__ is bytes:
                cols = range(colsat[3] + 2)
            elif wp == 1:
                cols = range(wp - 1, wp + w + 2)
            else:
                cols = (wp + w - 1, wp + w)
            for c in cols:
                k = 3 if colsat[3] <= c else 2 if colsat[2] <= c else 1 if colsat[1] <= c else 0
                g = su.calc_text_pos(text, 0, end, c)
                if g[0] != offs[k] or g[1] != colsat[k]:
                    bad("text-pos", f"calc_text_pos({T()}, 0, {end}, {c})", tuple(g), (offs[k], colsat[k]))
                if wp + w - 1 <= c <= wp + w:  # the character as the last one of the searched range
                    k = min(k, 2)
                    g = su.calc_text_pos(text, 0, p1, c)
                    if g[0] != offs[k] or g[1] != colsat[k]:
                        bad("text-pos", f"calc_text_pos({T()}, 0, {p1}, {c})", tuple(g), (offs[k], colsat[k]))


# ---------------------------------------------------------------------------------------------
# sub: cp_enc  {"enc": codec, "cp": int}   str and encoded bytes agree in wide / narrow modes

_CP_ENC_PRE = {"wide": ("a", "あ"), "narrow": ("a",)}


def check_cp_enc(case):
    enc, cp = case["enc"], case["cp"]
    s = chr(cp)
    try:
        b = s.encode(enc)
    except UnicodeEncodeError:
        raise Discard() from None
    if len(b) != widths.char_width(s):
        raise Discard()  # DESIGN 2.5 precondition: encoded length == column width
    mode = _set_enc(enc)
    if mode == "utf8" or (mode == "wide" and not valid_wide(b, enc)):
        raise Discard()
    for pre in _CP_ENC_PRE[mode]:
        ts = pre + s + pre
        tb = ts.encode(enc)
        if mode == "wide" and not valid_wide(tb, enc):
            raise Discard()
        _both(ts, tb, mode, enc, do_trim_attr=False)


def _both(ts, tb, mode, enc, probes=None, do_trim_attr=True):
    """check the str and its encoded bytes against the oracle, and that where the oracle leaves
    freedom (which zero-width characters a trimmed slice keeps) the two paths still agree."""
    t1, t2 = {}, {}
    check_text(ts, mode, enc, probes=probes, table=t1)
    check_text(tb, mode, enc, probes=probes, table=t2, do_trim_attr=do_trim_attr)
    if t1 != t2:
        for key in t1:
            if t1[key] != t2.get(key):
                i, j, sc, ec = key
                raise Violation(
                    "str-bytes-agree",
                    f"enc={enc} str={ts!r} bytes={tb!r}: calc_trim_text of characters {i}..{j}, columns {sc}..{ec}: "
                    f"str path keeps characters {t1[key][:2]}, bytes path {t2.get(key, (None, None))[:2]}",
                )


# ---------------------------------------------------------------------------------------------
# sub: bytes2  {"enc": codec, "hex": 1 or 2 bytes}

_CONTEXTS = [(b"", b""), (b"a", b"a"), (b"\xb0\xa1", b"\xb0\xa1"), (b"\xb0\xa1", b"@")]


def check_bytes2(case):
    enc = case["enc"]
    p = bytes.fromhex(case["hex"])
    mode = _set_enc(enc)
    for pre, post in _CONTEXTS:
        if mode == "narrow" and (pre or post):
            break  # one byte = one column whatever the neighbours are
        text = pre + p + post
        strict = _strictness(text, mode, enc)
        if not strict and (pre or post):
            continue  # an invalid pair makes the context meaningless; the bare pair is checked weakly
        check_text(text, mode, enc, strict=strict, trim_all_pairs=not (pre or post))


def _bytes2_class(case):
    p = bytes.fromhex(case["hex"])
    mode = widths.mode_of(case["enc"])
    if mode == "narrow":
        return [f"bytes2:{case['enc']}"]
    if all(v < 0x80 for v in p):
        return [f"bytes2:{case['enc']}:ascii"]
    return [f"bytes2:{case['enc']}:" + ("valid-dbcs" if valid_wide(p, case["enc"]) else "invalid(weak)")]


def _bytes2_nt(case):
    p = bytes.fromhex(case["hex"])
    mode = widths.mode_of(case["enc"])
    if mode == "narrow":
        return any(v >= 0x80 for v in p)
    return len(p) == 2 and valid_wide(p, case["enc"]) and p[0] >= 0x80


# ---------------------------------------------------------------------------------------------
# sub: short / long   {"enc", "s": str} | {"enc", "hex": bytes} [, "probes": [[i,j,c,d],...]]


def check_string(case):
    enc = case["enc"]
    mode = _set_enc(enc)
    probes = case.get("probes")
    if "s" in case:
        ts = case["s"]
        if any(0xD800 <= ord(c) <= 0xDFFF for c in ts):
            raise Discard()
        # the encoded form, when the encoding can represent the text with length == width
        try:
            tb = ts.encode(enc)
        except UnicodeEncodeError:
            tb = None
        if tb is not None and mode != "utf8":
            if any(len(c.encode(enc)) != widths.char_width(c) for c in ts):
                tb = None
            elif mode == "wide" and not valid_wide(tb, enc):
                tb = None
        if tb is None:
            check_text(ts, mode, enc, probes=probes)
        else:
            _both(ts, tb, mode, enc, probes=probes)
    else:
        tb = bytes.fromhex(case["hex"])
        strict = _strictness(tb, mode, enc)
        check_text(tb, mode, enc, strict=strict, probes=probes)


def _string_nt(case):
    mode = widths.mode_of(case["enc"])
    text = case["s"] if "s" in case else bytes.fromhex(case["hex"])
    if isinstance(text, bytes) and mode == "wide" and not valid_wide(text, case["enc"]):
        return False
    return any(e - s > 1 or w != 1 for s, e, w in widths.chars(text, mode))


def _string_class(case):
    mode = widths.mode_of(case["enc"])
    kind = "str" if "s" in case else "bytes"
    text = case["s"] if "s" in case else bytes.fromhex(case["hex"])
    out = [f"string:{mode}:{kind}"]
    if isinstance(text, bytes) and mode == "wide" and not valid_wide(text, case["enc"]):
        return [*out, "string:wide:invalid(weak)"]
    if isinstance(text, bytes) and mode == "utf8" and not valid_utf8(text):
        out.append("string:utf8:invalid-bytes")
    ws = {w for _, _, w in widths.chars(text, mode)}
    if 2 in ws:
        out.append(f"string:{mode}:{kind}:has-wide")
    if 0 in ws:
        out.append(f"string:{mode}:{kind}:has-zero-width")
    return out


# ---------------------------------------------------------------------------------------------
# sub: dec  {"enc": codec, "s": str}    apply_target_encoding

# The VT100 special graphics set (DEC STD 070 / xterm ctlseqs "DEC Special Character and Line Drawing Set"),
# transcribed here: byte 0x60..0x7e -> glyph.  0x5f is a blank in the standard; urwid documents U+25AE for it.
# Not imported from urwid.display.escape, so that a damaged table there is a violation and not the oracle.
ALT_CHARS = "_`abcdefghijklmnopqrstuvwxyz{|}~"
DEC_CHARS = "\u25ae\u25c6\u2592\u2409\u240c\u240d\u240a\u00b0\u00b1\u2424\u240b\u2518\u2510\u250c\u2514\u253c\u23ba\u23bb\u2500\u23bc\u23bd\u251c\u2524\u2534\u252c\u2502\u2264\u2265\u03c0\u2260\u00a3\u00b7"
assert len(ALT_CHARS) == len(DEC_CHARS) == 32


def check_dec(case):
    enc, s = case["enc"], case["s"]
    if escape.SO in s or escape.SI in s or any(0xD800 <= ord(c) <= 0xDFFF for c in s):
        raise Discard()
    mode = _set_enc(enc)
    _dec_oracle(s, mode, enc, f"enc={enc}")


def _dec_oracle(s, mode, codec, label):
    """apply_target_encoding(s) when the active encoding has byte mode `mode` and Python codec `codec`"""
    exp_bytes = bytearray()
    exp_cs = []
    for ch in s:
        k = DEC_CHARS.find(ch)
        if mode != "utf8" and k >= 0:
            e = ALT_CHARS[k].encode("ascii")
            tag = escape.DEC_TAG
        else:
            e = ch.encode(codec, "replace")
            tag = None
        exp_bytes += e
        exp_cs += [tag] * len(e)
    out, cs = util.apply_target_encoding(s)
    ctxs = f"{label} apply_target_encoding({s!r}) = ({out!r}, {cs!r})"
    if not isinstance(out, bytes):
        raise Violation("dec-type", f"{ctxs}: encoded text is not bytes")
    total = sum(n for _, n in cs)
    if total != len(out):
        raise Violation("dec-run-length", f"{ctxs}: charset runs cover {total} bytes, encoded text has {len(out)}")
    if out != bytes(exp_bytes):
        raise Violation("dec-bytes", f"{ctxs}: expected bytes {bytes(exp_bytes)!r}")
    if rle_expand(cs) != exp_cs:
        raise Violation("dec-charset", f"{ctxs}: expected per-byte charsets {exp_cs!r}")
    # bytes input (already encoded, no shifts): returned unchanged under one None run
    out2, cs2 = util.apply_target_encoding(bytes(out))
    if mode == "utf8" or not any(c in DEC_CHARS for c in s):
        if out2 != out or rle_expand(cs2) != [None] * len(out):
            raise Violation("dec-bytes-passthrough", f"{label} apply_target_encoding({out!r}) = ({out2!r}, {cs2!r})")


def _dec_nt(case):
    return any(c in DEC_CHARS for c in case["s"])


def _dec_class(case):
    mode = widths.mode_of(case["enc"])
    return [f"dec:{mode}" + (":has-dec" if _dec_nt(case) else "")]


# ---------------------------------------------------------------------------------------------
# sub: total  {"hex": bytes}   utf-8 byte strings holding a 4-byte form above U+10FFFF
#
# Outside the width oracle's domain (urwid's decoder and a terminal may well disagree about how many
# columns such garbage takes), so only totality is asserted: the width functions are total over
# (bytes, start, end, column) -- they return, with offsets inside the range and a column <= target.


def _beyond_unicode(b: bytes) -> bool:
    return any(
        (v == 0xF4 and i + 1 < len(b) and 0x90 <= b[i + 1] <= 0xBF) or 0xF5 <= v <= 0xF7 for i, v in enumerate(b)
    )


def check_total(case):
    b = bytes.fromhex(case["hex"])
    if not _beyond_unicode(b):
        raise Discard()
    _set_enc("utf-8")
    n = len(b)
    ctxs = f"enc=utf-8 text={_show(b)}"
    w = str_util.calc_width(b, 0, n)
    if not isinstance(w, int) or not 0 <= w <= 2 * n:
        raise Violation("total-width", f"{ctxs}: calc_width(text, 0, {n}) = {w!r}")
    for c in range(n + 2):
        pos, col = str_util.calc_text_pos(b, 0, n, c)
        if not 0 <= pos <= n or not 0 <= col <= c:
            raise Violation("total-text-pos", f"{ctxs}: calc_text_pos(text, 0, {n}, {c}) = ({pos}, {col})")
    for k in range(n):
        if b[k] & 0xC0 != 0x80:
            str_util.is_wide_char(b, k)


def total_cases():
    cores = []
    for b1, b2s in ((0xF4, (0x90, 0xA0, 0xBF)), (0xF5, (0x80, 0x90, 0xBF)), (0xF6, (0x80, 0xBF)), (0xF7, (0x80, 0xBF))):
        for b2 in b2s:
            for b3 in (0x80, 0xBF):
                for b4 in (0x80, 0xBF):
                    cores.append(bytes([b1, b2, b3, b4]))
    for pre in (b"", b"a", b"\xe4\xb8\xad"):
        for post in (b"", b"a", b"\xe4\xb8\xad"):
            for core in cores:
                yield {"hex": (pre + core + post).hex()}


# ---------------------------------------------------------------------------------------------
# sub: switch  {"hex": bytes}   the same byte string measured under alternating encodings


SWITCH_ORDER = ["utf-8", "euc-jp", "iso8859-1", "utf-8", "iso8859-1", "euc-jp", "utf-8"]


def check_switch(case):
    """One byte string, measured under utf-8, a wide codec and a narrow one in immediate succession and again:
    every answer depends on the encoding that is active *now* (nothing may be remembered across set_encoding)."""
    text = bytes.fromhex(case["hex"])
    for enc in SWITCH_ORDER:
        mode = _set_enc(enc)
        check_text(text, mode, enc, strict=_strictness(text, mode, enc), trim_all_pairs=False)


def switch_cases(max_units):
    """concatenations of <= max_units units: ASCII letters and byte pairs that are one double-width character in the
    wide reading (EUC shape), two one-column characters in the narrow reading and one one-column character in
    utf-8 (C3 A9 = e-acute)"""
    # pairs that are valid in all three readings (invalid UTF-8 has its own sub-checks and known findings)
    units = [b"a", b"Z", b" "] + [bytes([a, b]) for a in (0xC2, 0xC3, 0xCE) for b in (0xA2, 0xA9, 0xB1)]
    for n in range(1, max_units + 1):
        for t in itertools.product(units, repeat=n):
            yield {"hex": b"".join(t).hex()}


# ---------------------------------------------------------------------------------------------
# sub: enchist  {"ops": [[kind, arg], ...], "hex": probe bytes, "s": probe str, "d": str for output encoding}
#
# "the active encoding" is whatever the history of selection calls made it.  The selection API:
#   ["enc", name]   urwid.set_encoding(name), name spelled as the manual, the locale module or callers spell it
#   ["mode", m]     urwid.str_util.set_byte_encoding(m)  (the low-level switch set_encoding itself uses)
#   ["temp", name]  enter util.set_temporary_encoding(name)   ["exit"]  leave the innermost one
# After every call the width arithmetic of the probes must be the one of the mode the *model* is in.
#
# The name -> mode table below is transcribed from docs/manual/encodings.rst ("Supported encodings for
# pass-through mode": UTF-8; ISO-8859-* and everything else one byte = one column; EUC-JP, EUC-KR, EUC-CN aka
# CN-GB, EUC-TW, GB2312, GBK, BIG5, UHC two bytes = two columns) plus the unhyphenated forms the C library
# reports (eucJP, eucKR, ...) and the CNCB alias, which set_encoding has accepted since it replaced
# set_double_byte_encoding.  It is not imported from urwid.  Spelling: the manual writes the names in upper case
# (set_encoding("UTF-8")), locale.getpreferredencoding() -- the value urwid passes to set_encoding at import --
# reports "UTF-8", "EUC-JP", "eucJP", "BIG5", "ANSI_X3.4-1968", ..., callers write lower case: the case of the
# letters is not significant.  Other separators ("euc_jp") are a different question and are not generated.

ENC_UTF8_NAMES = ("utf-8", "utf8", "utf")
ENC_DBCS_NAMES = ("euc-jp", "euc-kr", "euc-cn", "euc-tw", "gb2312", "gbk", "big5", "cn-gb", "uhc",
                  "eucjp", "euckr", "euccn", "euctw", "cncb")
# single-byte encodings, the C locale's name for ASCII, and a name that is no charset at all
# (examples/lcd_cf635.py calls set_encoding("narrow"); set_encoding documents the ascii fallback by suppressing LookupError)
ENC_NARROW_NAMES = ("ascii", "iso8859-1", "latin-1", "iso-8859-15", "cp1252", "koi8-r", "ansi_x3.4-1968", "narrow")
ENC_MODES = ("utf8", "wide", "narrow")


def enc_spellings(name):
    out = [name, name.upper(), name.title()]
    if name.startswith("euc"):
        out.append("euc" + name[3:].upper())  # eucJP / euc-JP: the C library's spelling
    return list(dict.fromkeys(out))


def _enc_model(name):
    """(byte mode, Python codec or None when Python has no codec of that name) for an encoding name"""
    import codecs

    low = name.lower()
    mode = "utf8" if low in ENC_UTF8_NAMES else "wide" if low in ENC_DBCS_NAMES else "narrow"
    try:
        codecs.lookup(low)
    except LookupError:
        return mode, None
    return mode, low


def _enchist_probe(case, mode, codec, mixed, label):
    """every C11 clause on the case's probes under the model's state"""
    text = bytes.fromhex(case["hex"])
    if mode == "wide":
        strict = any(valid_wide(text, c) for c in WIDE_CODECS)
    else:
        strict = _strictness(text, mode, None)
    check_text(text, mode, label, strict=strict, trim_all_pairs=False)
    if mixed:
        # byte mode chosen behind set_encoding's back: which codec / DEC translation goes with it is not
        # stated anywhere; only the byte arithmetic (above) is asserted
        return
    enc = codec or "ascii"  # set_encoding: "if encoding is valid for conversion from unicode, remember it", else ascii
    # the str probe and its encoded form (characters the codec encodes with length == width; all in utf-8)
    ts = ""
    for ch in case.get("s", ""):
        try:
            e = ch.encode(enc)
        except UnicodeEncodeError:
            continue
        if mode == "utf8" or len(e) == widths.char_width(ch):
            ts += ch
    if ts:
        tb = ts.encode(enc)
        if mode == "wide" and not valid_wide(tb, enc):
            check_text(ts, mode, label)
        else:
            _both(ts, tb, mode, label, do_trim_attr=False)
    # output encoding; where Python has no codec of that name only ASCII and DEC characters are asserted
    d = case.get("d", "")
    if codec is None:
        d = "".join(ch for ch in d if ord(ch) < 0x80 or ch in DEC_CHARS)
    if d:
        _dec_oracle(d, mode, enc, label)


def check_enchist(case):
    ops = case["ops"]
    # a defined starting point that does not depend on what ran before: two different, ordinary names
    util.set_encoding("utf-8")
    util.set_encoding("iso8859-1")
    mode, codec, mixed = "narrow", "iso8859-1", False
    stack = []
    done = []
    try:
        for op in [*ops, *([["exit"]] * len(ops))]:
            kind = op[0]
            if kind == "enc":
                util.set_encoding(op[1])
                mode, codec = _enc_model(op[1])
                mixed = False
            elif kind == "mode":
                str_util.set_byte_encoding(op[1])
                mode, mixed = op[1], True
            elif kind == "temp":
                # the helper restores by *name* (get_encoding()): defined only when the name alone
                # reproduces the outer state, i.e. it was selected by set_encoding with a name Python knows
                if mixed or codec is None:
                    continue
                cm = util.set_temporary_encoding(op[1])
                cm.__enter__()
                stack.append((cm, mode, codec))
                mode, codec = _enc_model(op[1])
            elif kind == "exit":
                if not stack:
                    continue
                cm, mode, codec = stack.pop()
                cm.__exit__(None, None, None)
                mixed = False
            else:
                raise Discard()
            done.append(op if len(op) > 1 else [kind])
            label = f"after {done!r} (active: {mode}" + ("" if mixed else f", codec {codec or 'ascii'}") + ")"
            _enchist_probe(case, mode, codec, mixed, label)
    finally:
        while stack:
            stack.pop()[0].__exit__(None, None, None)
        str_util.set_byte_encoding("narrow")
        util.set_encoding("utf-8")
        util.set_encoding("iso8859-1")


ENCHIST_HEX = b"a\xc3\xa9\xc2\xa2Z\xce\xb1".hex()  # utf-8: a e-acute cent Z alpha; wide: 3 pairs; narrow: 8 bytes
ENCHIST_S = "a亜é中́b"
ENCHIST_D = "a─é│亜q°"


def _enchist_case(ops):
    return {"ops": [list(o) for o in ops], "hex": ENCHIST_HEX, "s": ENCHIST_S, "d": ENCHIST_D}


def enchist_all_ops():
    """every way to select an encoding: every documented name in every spelling (directly and through the
    temporary-encoding helper) and every low-level byte mode"""
    for name in ENC_UTF8_NAMES + ENC_DBCS_NAMES + ENC_NARROW_NAMES:
        for sp in enc_spellings(name):
            yield (["enc", sp],)
            yield (["temp", sp], ["exit"])
    for m in ENC_MODES:
        yield (["mode", m],)


# one representative per kind of state a selection can leave behind: utf8 / wide / narrow with a Python codec,
# wide and narrow without one (ascii fallback), utf8 under a name Python does not know, the three raw byte modes
ENCHIST_PREFIXES = [
    ["enc", "utf-8"], ["enc", "utf"], ["enc", "euc-jp"], ["enc", "euc-tw"], ["enc", "iso8859-1"], ["enc", "ascii"],
    ["enc", "narrow"], ["mode", "utf8"], ["mode", "wide"], ["mode", "narrow"],
]
# alphabet for the exhaustive three-call histories
ENCHIST_REPS = [
    ["enc", "utf-8"], ["enc", "UTF8"], ["enc", "euc-jp"], ["enc", "BIG5"], ["enc", "euc-tw"], ["enc", "cncb"],
    ["enc", "ascii"], ["enc", "iso8859-1"], ["enc", "narrow"],
    ["mode", "utf8"], ["mode", "wide"], ["mode", "narrow"],
    ["temp", "utf-8"], ["temp", "euc-tw"], ["temp", "iso8859-1"], ["exit"],
]


def enchist_cases(max_len):
    # every selection call after every kind of previous state, then the previous selection repeated
    for ops in enchist_all_ops():
        yield _enchist_case(ops)
        for pre in ENCHIST_PREFIXES:
            yield _enchist_case([pre, *ops])
            yield _enchist_case([pre, *ops, pre])
    # every history of max_len calls over the representatives
    for n in range(2, max_len + 1):
        for t in itertools.product(ENCHIST_REPS, repeat=n):
            yield _enchist_case(t)


def _enchist_class(case):
    out = set()
    for op in case["ops"]:
        if op[0] in ("enc", "temp"):
            mode, codec = _enc_model(op[1])
            out.add(f"enchist:{op[0]}:{mode}" + ("" if codec else ":no-python-codec")
                    + ("" if op[1] == op[1].lower() else ":not-lower-case"))
        else:
            out.add(f"enchist:{op[0]}")
    return sorted(out)


SUBS = {
    "switch": check_switch,
    "enchist": check_enchist,
    "codepoint": check_codepoint,
    "cp_enc": check_cp_enc,
    "bytes2": check_bytes2,
    "short": check_string,
    "long": check_string,
    "dec": check_dec,
    "total": check_total,
}


# ---------------------------------------------------------------------------------------------
# alphabets and enumerations

# utf-8 str: ASCII, Latin-1, CJK wide, combining, emoji (4-byte wide), ZWJ, half-width katakana
# (3 bytes, 1 column), control (width table says "not printable": 0 columns), variation selector
U8_STR_UNITS = ["a", "\xe9", "中", "́", "\U0001f600", "‍", "ｱ", "\t", "️"]
# utf-8 bytes: the above encoded, plus truncated 3- and 4-byte sequences, a lone lead, a stray
# continuation byte and an overlong form (E4 B8 + 80 and F0 9F + 80 80 recombine into valid characters)
U8_BYTE_UNITS = [
    b"a", b"\xc3\xa9", b"\xe4\xb8\xad", b"\xcc\x81", b"\xf0\x9f\x98\x80", b"\xe2\x80\x8d",
    b"\xe4\xb8", b"\xf0\x9f", b"\xc3", b"\x80", b"\xc0\xaf",
]
# wide (all valid GBK, so every concatenation is valid GBK text): ASCII, ASCII in the trail-byte
# range, EUC-style high/high, GBK low trail 0x40 and 0x7E, GBK trail 0x80, last row; plus two
# invalid-making units (lone lead byte, digit that cannot be a trail byte)
WIDE_UNITS = [b"a", b"@", b"~", b"\xb0\xa1", b"\xa4\xa2", b"\x81\x40", b"\xb0\x7e", b"\x81\x80", b"\xf7\xfe"]
WIDE_BAD_UNITS = [b"\xb0", b"1"]
EUCJP_UNITS = [b"a", b"@", b"\xb0\xa1", b"\xa4\xa2", b"\xf4\xa6", b"\xa1\xa1"]
NARROW_UNITS = [b"a", b"@", b"\xe9", b"\x80", b"\xff", b"\xb0"]
# str text in wide / narrow encodings (encoded length == width)
EUCJP_STR_UNITS = ["a", "@", "亜", "あ", "　"]
LATIN1_STR_UNITS = ["a", "\xe9", "\xff", "@"]


def _concats(units, max_len):
    for ln in range(0, max_len + 1):
        yield from itertools.product(units, repeat=ln)


def short_cases(max_len):
    for t in _concats(U8_STR_UNITS, max_len):
        yield {"enc": "utf-8", "s": "".join(t)}
    for t in _concats(U8_BYTE_UNITS, max_len):
        yield {"enc": "utf-8", "hex": b"".join(t).hex()}
    for t in _concats(WIDE_UNITS, max_len):
        yield {"enc": "gbk", "hex": b"".join(t).hex()}
    for t in _concats(WIDE_UNITS[:6] + WIDE_BAD_UNITS, max_len - 1):
        if any(u in WIDE_BAD_UNITS for u in t):
            yield {"enc": "gbk", "hex": b"".join(t).hex()}
    for t in _concats(EUCJP_UNITS, max_len):
        yield {"enc": "euc-jp", "hex": b"".join(t).hex()}
    for t in _concats(EUCJP_STR_UNITS, max_len):
        yield {"enc": "euc-jp", "s": "".join(t)}
    for t in _concats(NARROW_UNITS, max_len):
        yield {"enc": "iso8859-1", "hex": b"".join(t).hex()}
    for t in _concats(LATIN1_STR_UNITS, max_len):
        yield {"enc": "iso8859-1", "s": "".join(t)}


def bytes2_cases(encs):
    for enc in encs:
        for a in range(256):
            yield {"enc": enc, "hex": "%02x" % a}
        for a in range(256):
            for b in range(256):
                yield {"enc": enc, "hex": "%02x%02x" % (a, b)}


def cp_enc_cases(encs):
    for enc in encs:
        hi = 0x80 if enc == "ascii" else (0x100 if enc == "iso8859-1" else 0x10000)
        for cp in range(hi):
            if 0xD800 <= cp <= 0xDFFF:
                continue
            try:
                b = chr(cp).encode(enc)
            except UnicodeEncodeError:
                continue
            if len(b) == widths.char_width(chr(cp)):
                yield {"enc": enc, "cp": cp}


DEC_NEIGHBOURS = ["a", "~", "q", "\xe9", "中", "あ", "\xb0", " "]  # q is the ALT byte of U+2500, ° is a DEC char
DEC_UNITS = ["─", "│", "◆", "a", "q", "\xe9", "亜"]
DEC_ENCS = ["utf-8", "euc-jp", "iso8859-1", "ascii", "gbk"]


def dec_cases(max_len):
    seen = set()
    for enc in DEC_ENCS:
        for d in DEC_CHARS:
            cands = [d, d + d, d + d + d]
            for nb in DEC_NEIGHBOURS:
                cands += [d + nb, nb + d, nb + d + nb, d + nb + d]
            for d2 in DEC_CHARS:
                cands.append(d + d2)
            for s in cands:
                if (enc, s) not in seen:
                    seen.add((enc, s))
                    yield {"enc": enc, "s": s}
        for t in _concats(DEC_UNITS, max_len):
            s = "".join(t)
            if (enc, s) not in seen:
                seen.add((enc, s))
                yield {"enc": enc, "s": s}


# Hypothesis: longer strings ---------------------------------------------------------------------

_probe = st.lists(st.tuples(st.integers(0, 40), st.integers(0, 40), st.integers(0, 60), st.integers(0, 60)).map(list),
                  min_size=1, max_size=6)

_u8_char = st.one_of(
    st.sampled_from(U8_STR_UNITS + ["ᅠ", "̀", "\U0001f468", "\U0001f3fb", "가", "­", "\x7f", "\U000e0100"]),
    st.characters(exclude_categories=("Cs",)),
)
_long_u8_str = st.fixed_dictionaries(
    {"enc": st.just("utf-8"), "s": st.lists(_u8_char, min_size=3, max_size=24).map("".join), "probes": _probe}
)
_u8_unit = st.one_of(
    st.sampled_from(U8_BYTE_UNITS + [b"\xe0\x80\xaf", b"\xf0\x80\x80\xaf", b"\xe2\x80", b"\xbf", b"\xc2", b"\xf4\x8f\xbf\xbf", b"\xdf\xbf"]),
    _u8_char.map(lambda c: c.encode("utf-8")),
)
_long_u8_bytes = st.fixed_dictionaries(
    {"enc": st.just("utf-8"), "hex": st.lists(_u8_unit, min_size=3, max_size=24).map(lambda t: b"".join(t).hex()),
     "probes": _probe}
)


def _dbcs_unit():
    lead = st.integers(0x81, 0xFE)
    trail = st.one_of(st.integers(0x40, 0x7E), st.integers(0x80, 0xFE), st.integers(0xA1, 0xFE))
    return st.tuples(lead, trail).map(bytes)


_wide_unit = st.one_of(st.sampled_from(WIDE_UNITS), _dbcs_unit(), st.integers(0x20, 0x7E).map(lambda v: bytes([v])))
_long_wide = st.fixed_dictionaries(
    {"enc": st.sampled_from(["gbk", "gbk", "euc-jp", "big5", "euc-kr"]),
     "hex": st.lists(_wide_unit, min_size=3, max_size=24).map(lambda t: b"".join(t).hex()), "probes": _probe}
)
_long_narrow = st.fixed_dictionaries(
    {"enc": st.sampled_from(NARROW_CODECS), "hex": st.binary(min_size=3, max_size=24).map(bytes.hex), "probes": _probe}
)
# wide text made invalid by one or two units: a lone lead byte (the truncated double-byte character, anywhere incl. the
# end of the text), a lead byte followed by a byte that is no second half, a digit; measured weakly (_check_text_weak)
_wide_bad_unit = st.one_of(
    st.sampled_from(WIDE_BAD_UNITS),
    st.integers(0x81, 0xFE).map(lambda v: bytes([v])),
    st.tuples(st.integers(0x81, 0xFE), st.integers(0x20, 0x3F)).map(bytes),
)


def _splice(t):
    units, bad = list(t[0]), t[1]
    for k, (pos, u) in enumerate(bad):
        units.insert(pos % (len(units) + 1) if k else len(units) - pos % 2, u)  # the first one at / next to the end
    return b"".join(units).hex()


_long_wide_bad = st.fixed_dictionaries(
    {"enc": st.sampled_from(["gbk", "euc-jp", "big5", "euc-kr"]),
     "hex": st.tuples(st.lists(_wide_unit, min_size=1, max_size=12),
                      st.lists(st.tuples(st.integers(0, 12), _wide_bad_unit), min_size=1, max_size=2)).map(_splice),
     "probes": _probe}
)
_long_case = st.one_of(_long_u8_str, _long_u8_bytes, _long_u8_bytes, _long_wide, _long_wide, _long_narrow, _long_wide_bad)

_dec_long = st.fixed_dictionaries(
    {"enc": st.sampled_from(DEC_ENCS),
     "s": st.lists(st.one_of(st.sampled_from(list(DEC_CHARS)), st.sampled_from(DEC_NEIGHBOURS),
                             st.characters(exclude_categories=("Cs",), exclude_characters="\x0e\x0f")),
                   min_size=1, max_size=16).map("".join)}
)


_enc_op = st.one_of(
    st.tuples(st.sampled_from(["enc", "enc", "temp"]),
              st.sampled_from([sp for n in ENC_UTF8_NAMES + ENC_DBCS_NAMES + ENC_NARROW_NAMES for sp in enc_spellings(n)])).map(list),
    st.tuples(st.just("mode"), st.sampled_from(ENC_MODES)).map(list),
    st.just(["exit"]),
)
_enchist_long = st.fixed_dictionaries({
    "ops": st.lists(_enc_op, min_size=3, max_size=10),
    "hex": st.lists(st.sampled_from([b"a", b"Z", b" "] + [bytes([a, b]) for a in (0xC2, 0xC3, 0xCE) for b in (0xA2, 0xA9, 0xB1)]),
                    min_size=1, max_size=6).map(lambda t: b"".join(t).hex()),
    "s": st.lists(st.sampled_from(["a", "@", "\xe9", "\xff", "亜", "あ", "中", "가", "\u0301", "\U0001f600"]), max_size=6).map("".join),
    "d": st.lists(st.one_of(st.sampled_from(list(DEC_CHARS)), st.sampled_from(DEC_NEIGHBOURS)), max_size=6).map("".join),
})


def _codepoints(ctx):
    for cp in range(ctx.shard, 0x110000, ctx.nshards):
        if not 0xD800 <= cp <= 0xDFFF:
            yield {"cp": cp}


def shard(ctx):
    import time

    thorough = ctx.tier != "quick"
    cpu = {}

    def section(name, fn):
        """run one part of the campaign; False once a violation has been recorded"""
        if ctx.failure is not None:
            return False
        t = time.process_time()
        fn()
        cpu[name] = round(time.process_time() - t, 1)
        return ctx.failure is None

    # The cheap sections (each <= ~2 CPU s per shard) run first, the three big exhaustive sweeps after them and the
    # Hypothesis campaigns last: on an overloaded machine the wall-clock cap then cuts into one large sweep
    # instead of silently skipping several small complete ones.
    # 4. every short string over the class representatives
    max_len = ctx.scale(4, 5)
    section("short", lambda: ctx.sweep(
        "short", short_cases(max_len), nontrivial=_string_nt, classify=_string_class,
        exhaustive_name=f"every string of <= {max_len} units over the per-mode alphabets"))
    # 5. DEC special characters
    section("dec", lambda: ctx.sweep(
        "dec", dec_cases(ctx.scale(4, 5)), nontrivial=_dec_nt, classify=_dec_class,
        exhaustive_name="every DEC special character alone / paired / in short strings"))
    # 5a. the same bytes under alternating encodings
    section("switch", lambda: ctx.sweep(
        "switch", switch_cases(ctx.scale(3, 4)), nontrivial=lambda c: True, classify=lambda c: ["switch"],
        exhaustive_name="every string of <= 3 (4) ASCII / EUC-pair units measured under 7 alternating encodings"))
    # 5a'. histories of encoding selection calls (names in every spelling, low-level modes, temporary encodings)
    section("enchist", lambda: ctx.sweep(
        "enchist", enchist_cases(ctx.scale(3, 4)), nontrivial=lambda c: True, classify=_enchist_class,
        exhaustive_name="every encoding name x spelling (direct / temporary) and byte mode after every kind of previous "
                        "selection, and every history of <= 3 (4) calls over 16 representative calls"))
    section("enchist-long", lambda: ctx.given("enchist", _enchist_long, ctx.scale(120, 2000), nontrivial=lambda c: True,
                                              classify=_enchist_class))
    # 5b. totality on 4-byte forms above U+10FFFF (no width oracle there)
    section("total", lambda: ctx.sweep(
        "total", total_cases(), classify=lambda c: ["total:utf8-above-U+10FFFF"],
        exhaustive_name="boundary 4-byte forms above U+10FFFF in 9 contexts (totality only)"))
    # 1. every Unicode scalar value (sliced here: building 1.1 M dicts in every shard is waste)
    section("codepoint", lambda: ctx.sweep(
        "codepoint", _codepoints(ctx), nontrivial=lambda c: c["cp"] >= 0x80,
        classify=lambda c: ["codepoint:" + ("ascii" if c["cp"] < 0x80 else "2-byte" if c["cp"] < 0x800 else
                                            "3-byte" if c["cp"] < 0x10000 else "4-byte")],
        exhaustive_name="every Unicode scalar value (str + utf-8 bytes)", stride=False))
    # 2. every encodable code point of the wide / narrow codecs: str and bytes agree
    encs = WIDE_CODECS + NARROW_CODECS
    section("cp_enc", lambda: ctx.sweep(
        "cp_enc", cp_enc_cases(encs), nontrivial=lambda c: c["cp"] >= 0x80, classify=lambda c: [f"cp_enc:{c['enc']}"],
        exhaustive_name="every code point encodable in " + "/".join(encs) + " with length == width"))
    # 3. every 1- and 2-byte sequence
    b2 = ["euc-jp", "gbk", "iso8859-1"] + (["big5", "euc-kr"] if thorough else [])
    section("bytes2", lambda: ctx.sweep(
        "bytes2", bytes2_cases(b2), nontrivial=_bytes2_nt, classify=_bytes2_class,
        exhaustive_name="every 1- and 2-byte sequence under " + "/".join(b2)))
    # 6. longer strings
    section("long", lambda: ctx.given("long", _long_case, ctx.scale(250, 4000), nontrivial=_string_nt,
                                      classify=_string_class))
    section("dec-long", lambda: ctx.given("dec", _dec_long, ctx.scale(150, 2500), nontrivial=_dec_nt,
                                          classify=_dec_class))
    if ctx.shard == 0:
        ctx.notes.append(f"shard 0 cpu seconds per section: {cpu}")


# ---------------------------------------------------------------------------------------------
# known findings (active only if listed in known_findings.d/C11.json with status "known")

def _case_utf8_bytes(case):
    if not isinstance(case, dict) or case.get("enc") != "utf-8" or "hex" not in case:
        return None
    return bytes.fromhex(case["hex"])


def _known_step_invalid(sub, case, v):
    """move_next_char / move_prev_char (utf8 bytes) glue any run of continuation bytes to the byte
    before it without validating the sequence, while decode_one / calc_width / calc_text_pos treat
    every undecodable byte as one character: in text that is not valid UTF-8 they disagree about
    where characters start."""
    b = _case_utf8_bytes(case)
    return (
        sub in ("short", "long")
        and b is not None
        and v.clause in ("move-next", "move-prev", "round-trip")
        and not valid_utf8(b)
    )


def _known_prev_underrun(sub, case, v):
    """move_prev_char (utf8 bytes) never looks at start_offs: when the searched range starts with
    stray continuation bytes it walks past start_offs (negative offset, wrap-around, IndexError)."""
    b = _case_utf8_bytes(case)
    if sub not in ("short", "long") or b is None:
        return False
    if v.clause not in ("step-out-of-range", "exception:IndexError@str_util.py:move_prev_char"):
        return False
    # a character boundary (per the oracle) that holds a continuation byte = a stray continuation byte
    return any(e - s == 1 and 0x80 <= b[s] <= 0xBF for s, e, _w in widths.chars(b, "utf8"))


def _known_beyond_unicode(sub, case, v):
    """decode_one accepts 4-byte forms above U+10FFFF (F4 90.., F5..F7) and returns an ordinal that
    chr() rejects: every width function raises ValueError from get_width."""
    return (
        sub == "total"
        and v.clause == "exception:ValueError@str_util.py:get_width"
        and _beyond_unicode(bytes.fromhex(case["hex"]))
    )


def _known_wide_next_unpaired(sub, case, v):
    """move_next_char (wide) takes every byte >= 0x80 for the first half of a double-byte character without looking
    whether a second half follows inside the range: on a lone / truncated lead byte it steps two bytes - past end_offs
    when the lead byte is the last byte of the range (move_next_char(bytes.fromhex('b0'), 0, 1) == 2), over a byte that
    move_prev_char, calc_text_pos and within_double_byte count as a character of its own otherwise
    (move_next_char(bytes.fromhex('b031'), 0, 2) == 2, move_prev_char(.., 0, 2) == 1).  The clause is raised only
    for that shape of the stepped range (_unpaired_lead, judged where the range is known) and only for text that is
    not valid text of the codec; here: such a text with a high byte in it."""
    if v.clause != "weak-next-unpaired-lead" or not isinstance(case, dict) or "hex" not in case:
        return False
    enc = case.get("enc")
    if sub not in ("bytes2", "short", "long") or enc not in WIDE_CODECS:
        return False
    text = bytes.fromhex(case["hex"])
    return not valid_wide(text, enc) and any(v >= 0x80 for v in text)


KNOWN = {
    "C11-wide-move-next-unpaired-lead": _known_wide_next_unpaired,
    "C11-utf8-above-10ffff-valueerror": _known_beyond_unicode,
    "C11-utf8-step-invalid-sequences": _known_step_invalid,
    "C11-utf8-move-prev-underrun": _known_prev_underrun,
}
