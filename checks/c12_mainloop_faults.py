"""C12 -- MainLoop delivers input in order and always restores the terminal (fault enumeration).

case      {"loop": select|asyncio|tornado|twisted|trio|zmq, "screen": raw|legacy, "pop_ups": bool,
           "bp": bool, "focus": bool, "sigs": custom|default, "size": [cols, rows],
           "handled": [key names / "mouse<button>" the widget handles itself],
           "filter": {"drop": [keys], "map": [[from, to], ...]},
           "script": [event, ...], "inject": null | [i, "exit"|"boom"|"abort", callback kind],
           optional "tree": {"kind": "popup", "open": [keys], "close": [keys]}  (needs pop_ups; the base probe is
           wrapped in a urwid.PopUpLauncher: an `open` key reaching it opens a pop-up holding a second probe,
           a `close` key reaching that probe closes it),
           optional "swap": {"key": k, "where": "key"|"unh"}  (the probe's keypress / the unhandled-input handler
           that sees k assigns loop.widget = a fresh probe, in the middle of whatever batch k is in)}
          events: ["keys", k1, k2, ...] (written to the terminal with one write),
          ["mouse", button, col, row(, action, modifier)] (an SGR mouse report; action press | release | drag,
          modifier "" | shift | meta | ctrl; default: a plain press),
          ["resize", cols, rows] (TIOCSWINSZ + SIGWINCH), ["alarm"] (set_alarm_in 10 ms), ["pipe"] (a write
          to a watch_pipe descriptor), ["file"] (a write to a pipe watched with watch_file),
          ["burst", [keys | mouse | resize sub-events], [[sub index, byte offset], ...]] (type-ahead: the
          sub-events arrive back to back without waiting for a redraw; every cut [i, o] starts a new piece
          before byte o of sub-event i (o = 0: at the boundary; inside a key's byte sequence otherwise), and a
          piece is produced as soon as the screen has read the previous one - so a multi-byte key may arrive
          over several reads of the tty and a resize may share an input batch with keys).  The last event
          is always the key 'q', which the unhandled-input handler answers with ExitMainLoop.
          ["restart"] (an alarm whose callback does loop.screen.stop(); loop.screen.start(): the display is
          given up and taken again in the middle of the session, as an application does around a subprocess).
          optional "faults": false  (a delivery-sweep unit: run once, no exception injected)
          optional "handlers": "args" (default; MainLoop(input_filter=f, unhandled_input=g)) | "methods" (a
          MainLoop subclass overriding the public input_filter / unhandled_input methods - the other spelling
          the manual and the docstrings offer)
          optional "tty": "high" (default; the terminal is reached through two descriptors of the application's
          own, > 2) | "std" (the terminal is the process's standard input and output, descriptors 0 and 1 - what
          raw.Screen() uses when it is given no files, and the falsy-but-valid value of a descriptor)
          optional "history": [{"script": [...], "inject": null | [i, kind, callback kind]}, ...]  earlier
          sessions, each one a run() of its own on the SAME MainLoop / event loop / screen / widgets, in order,
          before the session of the case (its "script" / "inject"); scripts without bursts, not on twisted (its
          reactor cannot be started twice).  Every run is judged by the whole oracle; widget state, topmost
          widget, terminal size and the terminal itself carry over from run to run.

run       One forked child per case.  The child opens a pty pair, gives the slave side (two descriptors of their
          own, or - "tty": "std" - dup2()'ed onto the child's descriptors 0 and 1, its stdin / stdout) to a real ``urwid.display.raw.Screen`` (subclassed only to report
          "draw_screen() returned"), builds the loop, a probe widget and a MainLoop, and calls ``run()``.  Every
          user callback (input filter, widget keypress / mouse_event / render, unhandled-input handler, alarm,
          watch_file, watch_pipe) appends to one log and bumps one invocation counter; the injection
          ``[i, exception, kind]`` makes the first invocation >= i that is a `kind` callback raise (i is where the
          counting run saw that callback; tornado adds or drops an idle redraw from run to run).  The session is
          causally chained: the next scripted event is produced only when the screen has just been drawn (alarms:
          when the previous event reaches its callback, never from a draw) and the previous event has been seen
          by the input filter, so no real-time delay carries any meaning; the pieces of a burst are chained to
          the screen's reads instead (the Screen subclass also reports "get_available_raw_input() returned";
          complete_wait is raised to COMPLETE_WAIT so that the wait for the rest of a sequence cannot expire
          on a busy machine before the continuation, which is already in the tty's buffer, is read).  The
          probes log the size they are given.  After run() the child reads
          everything the terminal received and reports the log, the outcome of run(), screen.started, termios of
          the slave before/after, the three signal handlers before/after and the terminal bytes (per draw, final).
          No callback for STALL seconds (STALL_RAISED once the injected exception is out) = the child reports a stall instead.

model     "which probe is topmost when this key is processed": `base` until an open key reaches the launcher,
          `pop` until a close key reaches the pop-up probe, `w<n>` after the n-th assignment to loop.widget
          (model_key / model_unh below; nothing is read back from urwid).  MainLoop.widget is documented as
          "may be modified" and process_input as passing input "to widget"; the reading asserted is per key: a
          key is given to what loop.widget / the open pop-up is when that key's turn comes, also inside a batch.

history   With "history" the child calls run() once per session on the same MainLoop and reports every run;
          check_report() walks the runs in order with one reference terminal, carrying the terminal size, the
          widgets' state and the model of the topmost widget from run to run (a callback that raised the injected
          exception at its entry did not change them), and applies every clause below to every run - the
          restoration clauses after each run, the start modes at the first draw of each run (and of each restart).

oracle    check_report() -> every failing clause:
            input-order / call-order / call-missing / call-unexpected   filter -> widget -> unhandled handler
                                                                        (call-missing also: the loop waits while a
                                                                        widget / handler call is still owed)
            wrong-widget                                                the key went to a probe that is not topmost
            widget-size                                                 keypress / mouse_event was not given a (cols, rows)
                                                                        the terminal has had in this session
            draw-not-current, no-redraw-before-wait                     the reference terminal shows the state
            exit-not-clean, exception-swallowed, exception-changed, run-did-not-end, spurious-end
            screen-still-started, termios-not-restored, signal-not-restored:<SIG>, terminal-modes-not-restored
          The terminal bytes are interpreted by the reference terminal ``vlib.vtmodel.VT``; at every completed
          draw it must show the probe widget's current state (a screen full of one letter that changes with every
          input event the widget receives), and after run() it must be in its power-on modes.
"""
from __future__ import annotations

import fcntl
import json
import os
import random
import select as _select
import signal
import struct
import sys
import termios
import time
import traceback

import urwid  # noqa: F401  (asserts the tree under test is importable)
from urwid.event_loop.abstract_loop import ExitMainLoop
from vlib.runner import Discard, Violation
from vlib.vtmodel import VT

PROPERTY = "C12"
LEVEL = "fault_enumeration"
RULE = (
    "Enumeration. A unit = (session script, event loop, screen kind, pop_ups, bracketed-paste/focus flags, "
    "custom|default prior signal handlers, terminal on descriptors 0 / 1 (the process's stdin / stdout, the "
    "Screen's default) | on two descriptors of the application's own). Sessions: hand-written ones covering every event kind (key batches, "
    "SGR mouse reports: press / release / drag, buttons 1-5, plain or with shift / meta / ctrl held, resize via "
    "TIOCSWINSZ+SIGWINCH, alarm, watch_pipe write, watch_file write, the "
    "REDRAW_SCREEN key, filter drop/map, handled and unhandled keys, a PopUpLauncher pop-up opened and closed by keys "
    "inside one batch and across batches, loop.widget reassigned by a keypress / by the unhandled handler inside a "
    "batch, type-ahead bursts whose pieces arrive as soon as the screen has read the previous piece: keys, UTF-8 "
    "characters and mouse reports cut inside their byte sequence, a resize before / between / behind keys of the "
    "same burst, after a resize of its own, the display stopped and started again from an alarm callback "
    "(loop.screen.stop(); loop.screen.start()), run() called again on the same MainLoop / event loop / screen / "
    "widgets after earlier sessions that ended by the handler's ExitMainLoop or by an exception from some callback "
    "- with a pop-up left open or loop.widget replaced by an earlier run) plus sessions drawn from a seeded "
    "generator (plain | pop-up | swap | both; bursts with 0-3 cuts at any byte; restarts of the display; 0-2 "
    "earlier runs, each ended by 'q' or by {ExitMainLoop, Boom, SystemExit} from a callback kind drawn at random) "
    "(2-8 events). The two handlers are given as constructor arguments or as overridden MainLoop.input_filter / "
    "MainLoop.unhandled_input methods, alternating from unit to unit. "
    "Delivery sweeps, run once each without injection: every way of cutting each multi-byte key of "
    "the key table and one mouse report per action in two; every documented mouse event {press 1-5, drag 1-3, "
    "release 1-3} x {none, shift, meta, ctrl}; a resize at each place among two keys x every choice of piece "
    "boundaries x with / without a resize just before; three run() calls on one MainLoop where the first is "
    "ended by the first callback of each of the 8 kinds raising each of the 3 exception kinds and the second by "
    "a later callback of another (kind, exception) pair (every pair once in either place; not on twisted). "
    "Units: every session x {select, asyncio, tornado, twisted, trio, zmq} on the raw screen + "
    "the default loop on a screen without hook_event_loop (MainLoop._run_screen_event_loop), pop_ups and the "
    "other flags alternating (quick) or crossed (thorough); the terminal's descriptors alternate over the loops "
    "of a session and from session to session (quick) and both are run for every session x loop (thorough; a pop-up session, which has one "
    "variant per loop, alternates there too). "
    "For every unit that is not a sweep the session is first run without "
    "injection to learn the N user-callback invocations of its last run(); then one run per (i < N) x {ExitMainLoop, "
    "Boom(Exception), SystemExit (quick: every other i)} with the exception raised by invocation i. Each run is "
    "a forked child on a fresh pty pair. Non-trivial: the injection hits an invocation other than the first on "
    "a loop other than SelectEventLoop-with-raw-screen; distinct = distinct (unit, i, kind). A failing case is "
    "shrunk greedily (plain flags, fewer events, earlier injection)."
)
ASSUMPTIONS = [
    "the Linux pty line discipline stands for the terminal; vlib.vtmodel.VT interprets the bytes urwid wrote "
    "(mode tracking: 1049, 25, 1000/1002/1006, 2004, 1004, SGR, SI/SO)",
    "the screen is urwid.display.raw.Screen subclassed only to report that draw_screen() and "
    "get_available_raw_input() returned; the "
    "'screen without external event loop support' is a forwarding proxy that hides hook_event_loop / "
    "unhook_event_loop",
    "the terminal may be the process's standard input / output (descriptors 0 and 1, what raw.Screen() takes "
    "when it is given no files) or any other pair of descriptors open on the tty: the statement's 'original tty "
    "settings' and every other clause hold for either; in the child 0 and 1 are the pty slave (dup2) and the "
    "Screen is given text files on exactly these two descriptors",
    "an input event cut in pieces is still that one event: the continuation is written to the terminal while the "
    "screen is still inside the read that returned the beginning, and Screen.set_input_timeouts(complete_wait=8 s) "
    "keeps the documented wait for the rest of a sequence from expiring on a busy machine (the 0.125 s default is "
    "a real-time bound, outside the scripted schedule); a lone ESC is not typed",
    "mouse reports are xterm SGR (1006) reports, named as the manual documents them ((event, button, x, y) from "
    "(0, 0); 'shift ' / 'meta ' / 'ctrl ' prefix; one modifier at a time); a release may be reported with button 0",
    "a resize that arrives inside a burst is compared by count only (no more 'window resize' events than resizes "
    "so far, at least one after the last resize), not by its place among the keys of the burst: the raw screen "
    "reports a resize after the bytes read in the same go (signal-vs-read order); the other input of the burst is "
    "compared in order",
    "keypress / mouse_event of the topmost probe must be given a (cols, rows) pair the terminal has had so far "
    "(the Widget box-size convention; old or new size around a resize; the pop-up's size is not asserted)",
    "the next scripted event is produced only after a completed draw (or at the end of an alarm / pipe / file "
    "callback), so 'the loop next waits' is the point where nothing else can happen: a session that makes no "
    "progress for 1 s (0.35 s once the injected exception has been raised) and, run again, for 4 s is taken as "
    "'the loop waited' (a stall that matches a listed "
    "finding is not run again); a stall that cannot be attributed, or a child that exceeds 14 s, is inconclusive "
    "(discarded, counted)",
    "SIGINT is not asserted (Twisted's reactor keeps its own handler after crash()); only the three signals "
    "the Screen installs (SIGWINCH, SIGTSTP, SIGCONT) are compared",
    "callbacks that run after the first exception, the return value of unhandled_input, filter calls with an "
    "empty key list, calls of unhandled_input for the REDRAW_SCREEN key, and redraws after alarm / pipe / file "
    "callbacks are not asserted (statement silent)",
    "'the topmost widget' is read per key: MainLoop.widget is documented as modifiable and process_input as "
    "passing input to `widget`, so a key is owed to whatever loop.widget (or the pop-up opened over it through "
    "PopUpLauncher / pop_ups=True) is when that key's turn comes, also for later keys of the same batch; mouse "
    "clicks while a pop-up is open are not generated (Overlay geometry decides their target: discarded)",
    "true signal-vs-read races inside the kernel are not enumerated: the schedule is the scripted order",
    "overriding MainLoop.input_filter / MainLoop.unhandled_input in a subclass is a supported way to supply the "
    "two handlers (the manual refers to them as methods to use; their docstrings describe 'this implementation' "
    "as forwarding to the constructor argument): same obligations as for the constructor arguments",
    "MainLoop.run() may be called again on the same object after it returned or raised (start()/stop() acquire and "
    "release everything per run); every run is a session of the property: the terminal (one reference terminal "
    "for all runs), its size, the widgets' state and the topmost widget carry over, the terminal must be back in "
    "its initial modes after every run and in the start modes at the first draw of every run. Earlier runs have "
    "no type-ahead bursts; the watches a session writes to are registered before its own run(); a case whose "
    "earlier run ended with a resize signalled but not yet reported, or with widget / handler calls after the "
    "first exception, is discarded (what the next run then sees is not in the statement). Not on twisted "
    "(ReactorNotRestartable)",
    "loop.screen.stop(); loop.screen.start() from an alarm callback (the display handed to something else and "
    "taken back; docs/changelog: 'Fix screen.stop(), screen.start() disabling mouse events'): the next draw is "
    "judged like a first draw (start modes on, the whole widget state visible on the cleared alternate buffer)",
]

LOOPS = ["select", "asyncio", "tornado", "twisted", "trio", "zmq"]
STALL = 1.0  # seconds without any callback before the child reports a stall
STALL_CONFIRM = 4.0  # ... in the confirmation run
STALL_RAISED = 0.35  # ... once the injected exception has been raised (first run only): what is left is urwid's
#                      own way out of run(), no scripted event is waited for any more
CHILD_LIMIT = 14.0  # seconds before the parent kills the child (inconclusive)

COMPLETE_WAIT = 8.0  # Screen.set_input_timeouts(complete_wait=...): see the module docstring ("run")

KEYS = {
    "a": "a", "b": "b", "x": "x", "y": "y", "z": "z", "q": "q", " ": " ", "enter": "\n", "tab": "\t",
    "up": "\x1b[A", "down": "\x1b[B", "f5": "\x1b[15~", "page up": "\x1b[5~", "meta a": "\x1ba",
    "ctrl l": "\x0c",
    # characters of 2, 3 and 4 UTF-8 bytes (the encoding is utf-8 in every run)
    "\u00e9": "\u00e9", "\u20ac": "\u20ac", "\U0001d11e": "\U0001d11e",
}
MOUSE_ACTIONS = ("press", "release", "drag")
MOUSE_MODS = {"": 0, "shift": 4, "meta": 8, "ctrl": 16}  # xterm: the modifier bits of the button code
EXC_NAME = {"exit": "ExitMainLoop", "boom": "Boom", "abort": "SystemExit"}
CALLBACKS = ("filter", "key", "mouse", "unh", "alarm", "file", "pipe", "render")
REDRAW_KEY = "ctrl l"  # the documented Command.REDRAW_SCREEN binding

_STATS: dict[str, int] = {}
_LAST: dict = {}  # facts about the last evaluated case (read by shard() after a baseline run)


def _stat(k, n=1):
    _STATS[k] = _STATS.get(k, 0) + n


class Boom(Exception):
    """the 'any other exception' of the property"""


Abort = SystemExit  # ... and one that is not an Exception subclass: a callback calling sys.exit()


# ---------------------------------------------------------------------------------------------
# expectations derived from the case alone


def mouse_parts(ev):
    """["mouse", button, col, row(, action, modifier)] -> (button, col, row, action, modifier)"""
    action = ev[4] if len(ev) > 4 else "press"
    mod = ev[5] if len(ev) > 5 else ""
    return ev[1], ev[2], ev[3], action, mod


def mouse_ok(ev):
    if len(ev) not in (4, 6) or not all(isinstance(x, int) for x in ev[1:4]):
        return False
    button, col, row, action, mod = mouse_parts(ev)
    if action not in MOUSE_ACTIONS or mod not in MOUSE_MODS or col < 0 or row < 0:
        return False
    return 1 <= button <= (5 if action == "press" else 3)  # the wheel (4, 5) only "presses"


def mouse_input(ev):
    """the input event urwid documents for the report (manual, "Mouse Input": (event, button, x, y) with x, y
    counted from 0, event 'mouse press' | 'mouse release' | 'mouse drag', prefixed by 'shift ' / 'meta ' /
    'ctrl ' when that key is held)"""
    button, col, row, action, mod = mouse_parts(ev)
    return [f"{mod + ' ' if mod else ''}mouse {action}", button, col, row]


def mouse_bytes(ev):
    """the SGR (1006) report of an xterm: CSI < code ; col+1 ; row+1 M (m = release); code = button - 1 for
    buttons 1-3, 64 / 65 for the wheel, + 32 while dragging, + 4 / 8 / 16 for shift / meta / ctrl"""
    button, col, row, action, mod = mouse_parts(ev)
    code = (button - 1 if button <= 3 else 64 + button - 4) + (32 if action == "drag" else 0) + MOUSE_MODS[mod]
    return f"\x1b[<{code};{col + 1};{row + 1}{'m' if action == 'release' else 'M'}".encode()


def event_bytes(ev):
    if ev[0] == "keys":
        return "".join(KEYS[k] for k in ev[1:]).encode()
    if ev[0] == "mouse":
        return mouse_bytes(ev)
    raise AssertionError(ev)


def burst_parts(ev):
    return ev[1], (ev[2] if len(ev) > 2 else [])


def event_ok(ev, inner=False):
    if not isinstance(ev, list) or not ev:
        return False
    t = ev[0]
    if t == "keys":
        return len(ev) > 1 and all(k in KEYS for k in ev[1:]) and not (inner and "q" in ev[1:])
    if t == "mouse":
        return mouse_ok(ev)
    if t == "resize":
        return len(ev) == 3 and all(isinstance(x, int) and x > 0 for x in ev[1:])
    if inner:
        return False
    if t in ("alarm", "pipe", "file", "restart"):
        return len(ev) == 1
    if t == "burst":
        if len(ev) not in (2, 3) or not ev[1] or not all(event_ok(sub, True) for sub in ev[1]):
            return False
        subs, cuts = burst_parts(ev)
        for c in cuts:
            if not (isinstance(c, list) and len(c) == 2 and 0 <= c[0] < len(subs) and c != [0, 0]):
                return False
            n = 1 if subs[c[0]][0] == "resize" else len(event_bytes(subs[c[0]]))
            if not 0 <= c[1] < n:
                return False
        return True
    return False


def pieces_of(ev):
    """the pieces an input event is produced in: lists of ["bytes", hex] / ["resize", cols, rows] atoms.
    The atoms of one piece are produced back to back; the next piece when the screen has read this one."""
    if ev[0] == "resize":
        return [[["resize", ev[1], ev[2]]]]
    if ev[0] in ("keys", "mouse"):
        return [[["bytes", event_bytes(ev).hex()]]]
    subs, cuts = burst_parts(ev)
    cutset = {(i, o) for i, o in cuts}
    pieces = [[]]

    def cut():
        if pieces[-1]:
            pieces.append([])

    for i, sub in enumerate(subs):
        if sub[0] == "resize":
            if (i, 0) in cutset:
                cut()
            pieces[-1].append(["resize", sub[1], sub[2]])
            continue
        for o, byte in enumerate(event_bytes(sub)):
            if (i, o) in cutset:
                cut()
            if pieces[-1] and pieces[-1][-1][0] == "bytes":
                pieces[-1][-1][1] += f"{byte:02x}"
            else:
                pieces[-1].append(["bytes", f"{byte:02x}"])
    return pieces


def inputs_of(ev):
    """the input events one scripted event stands for, in arrival order"""
    if ev[0] == "keys":
        return list(ev[1:])
    if ev[0] == "mouse":
        return [mouse_input(ev)]
    if ev[0] == "resize":
        return ["window resize"]
    if ev[0] == "burst":
        return [x for sub in ev[1] for x in inputs_of(sub)]
    return []


def expected_inputs(case):
    """the input events of the script, in order, as MainLoop must present them to the filter"""
    return [x for ev in case["script"] for x in inputs_of(ev)]


def resize_in_burst(case):
    """a resize that arrives together with other input: its place among the keys is the kernel's signal-vs-read
    order (the raw screen reports a resize after the bytes it read in the same go), which is not asserted"""
    return any(ev[0] == "burst" and any(sub[0] == "resize" for sub in ev[1]) for ev in case["script"])


def same_input(seen, exp):
    """is the input event the filter was given the one the terminal sent? (a release may be reported with
    button 0: "will often not have information about which button was released")"""
    if isinstance(seen, list) and isinstance(exp, list) and len(seen) == len(exp) == 4:
        return seen[0] == exp[0] and seen[2:] == exp[2:] and (
            seen[1] == exp[1] or (exp[0].endswith("mouse release") and seen[1] == 0))
    return seen == exp


def apply_filter(case, keys):
    drop = set(case["filter"]["drop"])
    mp = {a: b for a, b in case["filter"]["map"]}
    out = []
    for k in keys:
        if isinstance(k, str):
            if k in drop:
                continue
            k = mp.get(k, k)
        out.append(k)
    return out


POP_RECT = (1, 1, 4, 2)  # left, top, width, height of the pop-up


def glyph(probe, state):
    """what probe `probe` paints when the session has seen `state` widget input events"""
    if probe == "base":
        return chr(65 + state % 26)
    if probe == "pop":
        return chr(97 + state % 26)
    return chr(48 + (state + 3 * int(probe[1:])) % 10)


def model_start(case):
    tree = case.get("tree") or {}
    return {"top": "base", "launcher": tree.get("kind") == "popup", "swaps": 0}


def _model_swap(m):
    n = m["swaps"] + 1
    return {"top": f"w{n}", "launcher": False, "swaps": n}


def model_key(case, m, key):
    """-> (probe that must receive key, does the widget tree handle it, model afterwards)"""
    tree = case.get("tree") or {}
    target, after, handled = m["top"], dict(m), widget_handles(case, key)
    if m["launcher"] and target == "base" and key in tree.get("open", []):
        after["top"], handled = "pop", True
    elif m["launcher"] and target == "pop" and key in tree.get("close", []):
        after["top"], handled = "base", True
    sw = case.get("swap")
    if sw and sw["where"] == "key" and key == sw["key"]:
        after = _model_swap(after)
    return target, handled, after


def model_unh(case, m, key):
    sw = case.get("swap")
    if sw and sw["where"] == "unh" and key == sw["key"]:
        return _model_swap(m)
    return m


def sessions_of(case):
    """the sessions of the case in the order they are run: the history, then the session that is injected into"""
    return [*[{"script": s["script"], "inject": s.get("inject")} for s in case.get("history") or []],
            {"script": case["script"], "inject": case.get("inject")}]


def malformed(case):
    tree, sw = case.get("tree"), case.get("swap")
    for k, s in enumerate(sessions_of(case)):
        script, inj = s["script"], s["inject"]
        if not script or script[-1] != ["keys", "q"] or not all(event_ok(ev) for ev in script):
            return True
        if inj is not None and not (isinstance(inj, list) and len(inj) in (2, 3) and inj[1] in EXC_NAME):
            return True
        if k < len(case.get("history") or []) and any(ev[0] == "burst" for ev in script):
            return True  # input that is still on its way when a run ends: the statement is silent about it
    if case.get("history") and case["loop"] == "twisted":
        return True  # ReactorNotRestartable: Twisted's own rule
    if case.get("handlers", "args") not in ("args", "methods") or case.get("tty", "high") not in ("high", "std"):
        return True
    if tree and (tree.get("kind") != "popup" or not case["pop_ups"]):
        return True
    return bool(sw and (sw["key"] in ("q", REDRAW_KEY) or sw["where"] not in ("key", "unh")))


def widget_handles(case, item):
    if isinstance(item, str):
        return item in case["handled"]
    return f"mouse{item[1]}" in case["handled"]


# ---------------------------------------------------------------------------------------------
# the child


def _jsonable(x):
    if isinstance(x, (list, tuple)):
        return [_jsonable(y) for y in x]
    if isinstance(x, (str, int, float, bool)) or x is None:
        return x
    return repr(x)


class _Harness:
    def __init__(self, case, master, stall, emit):
        self.case = case
        self.master = master
        self.stall = stall
        self.emit = emit
        self.run_no = 0
        self.reports = []  # of the runs that are over
        self.keep = []  # watch handles
        self.begin(0, {"script": case["script"], "inject": case.get("inject")})
        self.state = 0
        self.ml = None
        self.pipe_wr = None
        self.swaps = 0
        self.widgets = []
        self.make_probe = None
        self.file_rd = self.file_wr = None
        self.phase = "setup"

    def begin(self, k, session):
        """run number k of the case starts: its own log, invocation counter, injection and script; the widgets,
        their state, the MainLoop, its event loop and the screen stay"""
        self.run_no = k
        self.log = []
        self.n = 0
        self.inject = session.get("inject")
        self.exc = None
        self.script = session["script"]
        self.pos = 0
        self.outstanding = None  # ["input", input events not yet seen by the filter, a "window resize" is due]
        self.pending = []  # pieces of the current input event that have not been produced yet
        self.phase = "setup"

    # -- plumbing ---------------------------------------------------------------------------
    def touch(self):
        short = self.exc is not None and self.stall <= STALL
        signal.setitimer(signal.ITIMER_REAL, STALL_RAISED if short else self.stall)

    def drain(self):
        out = bytearray()
        while True:
            try:
                b = os.read(self.master, 65536)
            except BlockingIOError:
                break
            except OSError:
                break
            if not b:
                break
            out.extend(b)
        return bytes(out)

    def enter(self, kind, *detail):
        """start of a user callback: count it, log it, raise the injected exception if it is its turn"""
        self.touch()
        i = self.n
        self.n += 1
        self.log.append([kind, i, *[_jsonable(d) for d in detail]])
        inj = self.inject
        # [i, exception, kind]: the first invocation number >= i that is a `kind` callback (the counting run saw
        # `kind` at exactly i; loops that add or drop an idle redraw from run to run shift the numbering)
        if inj is not None and self.exc is None and i >= inj[0] and (len(inj) < 3 or inj[2] == kind):
            cls = {"exit": ExitMainLoop, "boom": Boom, "abort": Abort}[inj[1]]
            self.exc = cls() if cls is ExitMainLoop else cls(f"injected at invocation {i} ({kind})")
            self.log.append(["raise", i, self.inject[1], kind])
            self.touch()
            raise self.exc

    # -- user callbacks ---------------------------------------------------------------------
    def input_filter(self, keys, raw):
        self.enter("filter", list(keys))
        o = self.outstanding
        if o is not None and o[0] == "input":
            for k in keys:
                k = _jsonable(k)
                if k == "window resize":
                    o[2] = False
                    continue
                for j, want in enumerate(o[1]):
                    if same_input(k, want):
                        del o[1][j]
                        break
            if not o[1] and not o[2] and not self.pending:
                self.outstanding = None
            if self.outstanding is None and self.next_is_alarm():
                self.advance()  # alarms are set from input / alarm / watch callbacks or before run(), never from a draw
        return apply_filter(self.case, [k if isinstance(k, str) else tuple(k) for k in keys])

    def key_event(self, name, key, size):
        """a probe (or the launcher, on behalf of the base probe) is given a key"""
        self.enter("key", key, name, size)
        self.state += 1
        sw = self.case.get("swap")
        if sw and sw["where"] == "key" and key == sw["key"]:
            self.do_swap()
        for w in self.widgets:
            w._invalidate()  # every probe paints the session state

    def do_swap(self):
        self.swaps += 1
        self.ml.widget = self.make_probe(f"w{self.swaps}")

    def unhandled(self, key):
        self.enter("unh", key)
        sw = self.case.get("swap")
        if sw and sw["where"] == "unh" and key == sw["key"]:
            self.do_swap()
        if key == "q":
            if self.exc is None:
                self.exc = ExitMainLoop()
                self.log.append(["raise", self.n - 1, "exit", "unh"])
                raise self.exc
            raise ExitMainLoop()  # the session is over anyway; not the first exception
        return False

    def alarm_cb(self, loop, data):
        self.enter("alarm", data)
        self.arrived("alarm")

    def file_cb(self, rd):
        try:
            os.read(rd, 64)
        except OSError:
            pass
        self.enter("file")
        self.arrived("file")

    def pipe_cb(self, data):
        self.enter("pipe", data.decode("latin-1"))
        self.arrived("pipe")

    def arrived(self, what):
        if self.outstanding is not None and self.outstanding[0] == what:
            self.outstanding = None
            self.advance()

    def next_is_alarm(self):
        return self.pos < len(self.script) and self.script[self.pos][0] in ("alarm", "restart")

    def restart_cb(self, loop, data):
        """the application gives the display up and takes it again (e.g. around a subprocess that uses the tty)"""
        self.enter("alarm", "restart")
        self.ml.screen.stop()
        self.log.append(["restarted"])
        self.ml.screen.start()
        self.arrived("restart")

    # -- the driver -------------------------------------------------------------------------
    def produce(self):
        """the next piece of the current input event arrives at the terminal"""
        piece = self.pending.pop(0)
        self.log.append(["piece", self.pos - 1, piece])
        for atom in piece:
            if atom[0] == "bytes":
                os.write(self.master, bytes.fromhex(atom[1]))
            else:
                self.outstanding[2] = True
                fcntl.ioctl(self.master, termios.TIOCSWINSZ, struct.pack("HHHH", atom[2], atom[1], 0, 0))
                os.kill(os.getpid(), signal.SIGWINCH)

    def on_read(self):
        """the screen has just read what the terminal sent so far"""
        self.touch()
        if self.pending and self.exc is None:
            self.produce()

    def on_draw(self):
        self.touch()
        self.log.append(["draw", self.drain().hex()])
        if not self.next_is_alarm():
            self.advance()

    def advance(self):
        if self.exc is not None or self.outstanding is not None or self.pos >= len(self.script):
            return
        ev = self.script[self.pos]
        self.log.append(["inject", self.pos, list(ev)])
        self.pos += 1
        t = ev[0]
        if t in ("keys", "mouse", "resize", "burst"):
            self.outstanding = ["input", [x for x in inputs_of(ev) if x != "window resize"], False]
            self.pending = pieces_of(ev)
            self.produce()
        elif t == "alarm":
            self.outstanding = ("alarm",)
            self.ml.set_alarm_in(0.01, self.alarm_cb, self.pos - 1)
        elif t == "restart":
            self.outstanding = ("restart",)
            self.ml.set_alarm_in(0.01, self.restart_cb, self.pos - 1)
        elif t == "pipe":
            self.outstanding = ("pipe",)
            os.write(self.pipe_wr, b"p")
        elif t == "file":
            self.outstanding = ("file",)
            os.write(self.file_wr, b"f")
        else:
            raise AssertionError(ev)


def _make_loop(name):
    if name == "select":
        from urwid.event_loop.select_loop import SelectEventLoop

        return SelectEventLoop()
    if name == "asyncio":
        import asyncio

        from urwid.event_loop.asyncio_loop import AsyncioEventLoop

        return AsyncioEventLoop(loop=asyncio.new_event_loop())
    if name == "tornado":
        from urwid.event_loop.tornado_loop import TornadoEventLoop

        return TornadoEventLoop()
    if name == "twisted":
        assert "twisted.internet.reactor" not in sys.modules  # fresh reactor in every child
        from urwid.event_loop.twisted_loop import TwistedEventLoop

        return TwistedEventLoop()
    if name == "trio":
        from urwid.event_loop.trio_loop import TrioEventLoop

        return TrioEventLoop()
    if name == "zmq":
        from urwid.event_loop.zmq_loop import ZMQEventLoop

        return ZMQEventLoop()
    raise AssertionError(name)


def _preimport():
    """import the heavy third-party modules once in the worker so that children fork warm
    (never twisted.internet.reactor: importing it installs the process-wide reactor)"""
    import asyncio  # noqa: F401

    import tornado.ioloop  # noqa: F401
    import trio  # noqa: F401
    import twisted.internet.default  # noqa: F401
    import twisted.internet.epollreactor  # noqa: F401
    import zmq  # noqa: F401

    import urwid.display.raw
    import urwid.event_loop.asyncio_loop
    import urwid.event_loop.tornado_loop
    import urwid.event_loop.trio_loop
    import urwid.event_loop.twisted_loop
    import urwid.event_loop.zmq_loop  # noqa: F401


def _termios_json(fd):
    a = termios.tcgetattr(fd)
    return [*a[:6], [c if isinstance(c, int) else c[0] for c in a[6]]]


_SIGS = {"SIGWINCH": signal.SIGWINCH, "SIGTSTP": signal.SIGTSTP, "SIGCONT": signal.SIGCONT}


def _child_body(case, stall, emit):
    import logging

    logging.disable(logging.CRITICAL)  # tornado / trio / twisted log swallowed exceptions
    os.environ["TERM"] = "xterm"
    urwid.set_encoding("utf-8")
    urwid.CanvasCache.clear()
    if case.get("loop") == "trio":
        # trio shuffles every batch of runnable tasks with a module-level random.Random() seeded from the OS: make
        # the schedule a function of the case, so that a case has one verdict
        import zlib

        import trio._core._run as _trun

        _trun._r.seed(zlib.crc32(json.dumps(case, sort_keys=True, default=str).encode()))
    from urwid.display.raw import Screen

    master, slave = os.openpty()
    cols, rows = case["size"]
    fcntl.ioctl(master, termios.TIOCSWINSZ, struct.pack("HHHH", rows, cols, 0, 0))
    os.set_blocking(master, False)
    if case.get("tty", "high") == "std":
        # the terminal is the process's standard input / output, descriptors 0 and 1 - what raw.Screen() uses by
        # default (input=sys.stdin, output=sys.stdout) and what nearly every application runs on
        os.dup2(slave, 0)
        os.dup2(slave, 1)
        fin = os.fdopen(0, "r", encoding="utf-8", closefd=False)
        fout = os.fdopen(1, "w", encoding="utf-8", closefd=False)
        assert fin.fileno() == 0 and fout.fileno() == 1
    else:
        # like stdin / stdout of a real application: two descriptors of their own on the same terminal
        fin = os.fdopen(os.dup(slave), "r", encoding="utf-8")
        fout = os.fdopen(os.dup(slave), "w", encoding="utf-8")
        assert fin.fileno() > 2 and fout.fileno() > 2

    h = _Harness(case, master, stall, emit)

    def on_stall(signum, frame):
        emit({"stalled": True, "phase": h.phase, "log": h.log, "n": h.n, "pos": h.pos,
              "outstanding": _jsonable(h.outstanding), "prior": h.reports})
        os._exit(0)

    signal.signal(signal.SIGALRM, on_stall)

    class RecScreen(Screen):
        def draw_screen(self, size, canvas):
            super().draw_screen(size, canvas)
            h.on_draw()

        def get_available_raw_input(self):
            codes = super().get_available_raw_input()
            h.on_read()
            return codes

    tree = case.get("tree") or {}

    class Probe(urwid.Widget):
        _sizing = frozenset(["box"])
        _selectable = True
        no_cache = ["render"]  # noqa: RUF012

        def __init__(self, name, launcher=None):
            super().__init__()
            self.name, self.launcher = name, launcher
            h.widgets.append(self)

        def render(self, size, focus=False):
            h.enter("render", h.state, _jsonable(size), self.name)
            return urwid.SolidCanvas(glyph(self.name, h.state), size[0], size[1])

        def keypress(self, size, key):
            h.key_event(self.name, key, size)
            if self.name == "pop" and key in tree.get("close", []):
                self.launcher.close_pop_up()
                return None
            return None if widget_handles(case, key) else key

        def mouse_event(self, size, event, button, col, row, focus):
            h.enter("mouse", [event, button, col, row], self.name, size)
            h.state += 1
            for w in h.widgets:
                w._invalidate()
            return widget_handles(case, [event, button, col, row])

    class Launcher(urwid.PopUpLauncher):
        def __init__(self, w):
            super().__init__(w)
            h.widgets.append(self)

        def create_pop_up(self):
            return Probe("pop", self)

        def get_pop_up_parameters(self):
            left, top, width, height = POP_RECT
            return {"left": left, "top": top, "overlay_width": width, "overlay_height": height}

        def keypress(self, size, key):
            if key in tree.get("open", []):
                h.key_event("base", key, size)
                self.open_pop_up()
                return None
            return self._original_widget.keypress(size, key)

    h.make_probe = Probe
    root = Launcher(Probe("base")) if tree.get("kind") == "popup" else Probe("base")

    class LegacyScreen:
        """a screen class that predates hook_event_loop (MainLoop then runs _run_screen_event_loop)"""

        def __init__(self, real):
            object.__setattr__(self, "_real", real)

        def __getattr__(self, name):
            if name in ("hook_event_loop", "unhook_event_loop"):
                raise AttributeError(name)
            return getattr(object.__getattribute__(self, "_real"), name)

        def __setattr__(self, name, value):
            setattr(object.__getattribute__(self, "_real"), name, value)

    real = RecScreen(input=fin, output=fout, bracketed_paste_mode=case["bp"], focus_reporting=case["focus"])
    real.set_input_timeouts(complete_wait=COMPLETE_WAIT)
    if case["screen"] == "legacy":
        screen, loop = LegacyScreen(real), None
    else:
        screen, loop = real, _make_loop(case["loop"])

    prev = {}
    if case["sigs"] == "custom":
        for name, num in _SIGS.items():
            def handler(signum, frame, _n=name):
                h.log.append(["prev-handler", _n])

            prev[name] = handler
            signal.signal(num, handler)
    else:
        for name, num in _SIGS.items():
            signal.signal(num, signal.SIG_DFL)

    if case.get("handlers", "args") == "methods":
        # the other way to supply the two handlers: "this implementation" of MainLoop.input_filter /
        # MainLoop.unhandled_input (which only forwards to the constructor argument) is overridden
        class MethodsLoop(urwid.MainLoop):
            def input_filter(self, keys, raw):
                return h.input_filter(keys, raw)

            def unhandled_input(self, data):
                return h.unhandled(data)

        ml = MethodsLoop(root, [], screen=screen, handle_mouse=True, event_loop=loop, pop_ups=case["pop_ups"])
    else:
        ml = urwid.MainLoop(
            root, [], screen=screen, handle_mouse=True, input_filter=h.input_filter,
            unhandled_input=h.unhandled, event_loop=loop, pop_ups=case["pop_ups"],
        )
    h.ml = ml
    sessions = sessions_of(case)
    for k, session in enumerate(sessions):
        h.begin(k, session)
        h.reports.append(_one_run(h, ml, real, slave, fout))
    return dict(h.reports[-1], prior=h.reports[:-1])


def _one_run(h, ml, real, slave, fout):
    """one run() of the MainLoop: -> what the harness saw of it"""
    # the watches this session writes to are registered before its run() (whether a watch outlives the run() it
    # was registered for differs from loop to loop and is not in the statement: nothing relies on it)
    kinds = {ev[0] for ev in h.script}
    if "pipe" in kinds:
        h.pipe_wr = ml.watch_pipe(h.pipe_cb)
    if "file" in kinds:
        h.file_rd, h.file_wr = os.pipe()
        os.set_blocking(h.file_rd, False)
        h.keep.append(ml.watch_file(h.file_rd, lambda rd=h.file_rd: h.file_cb(rd)))
    before_t = _termios_json(slave)
    before_s = {name: signal.getsignal(num) for name, num in _SIGS.items()}
    h.phase = "run"
    if h.next_is_alarm():
        h.advance()
    h.touch()
    try:
        ml.run()
        outcome = {"how": "returned"}
    except BaseException as e:  # noqa: BLE001
        where = ""
        for fr in traceback.extract_tb(e.__traceback__):
            fn = fr.filename.replace("\\", "/")
            if "/urwid/" in fn and "/verif/" not in fn:
                where = f"{fn.split('/urwid/', 1)[1]}:{fr.name}"
        outcome = {"how": "raised", "same": e is h.exc, "type": type(e).__name__, "text": str(e)[:300],
                   "where": where}
    signal.setitimer(signal.ITIMER_REAL, 0)
    h.phase = "after"
    try:
        after_t = _termios_json(slave)
    except termios.error as e:
        after_t = ["error", str(e)]
    sig = {}
    for name, num in _SIGS.items():
        now = signal.getsignal(num)
        sig[name] = {"same": now is before_s[name] or now == before_s[name], "before": repr(before_s[name])[:80],
                     "after": repr(now)[:80]}
    try:
        fout.flush()
    except (OSError, ValueError):
        pass
    return {
        "stalled": False, "log": h.log, "n": h.n, "pos": h.pos, "outcome": outcome,
        "started": bool(real.started), "termios": [before_t, after_t], "sig": sig, "final": h.drain().hex(),
    }


def run_in_child(case, stall):
    """-> dict from the child, or None if it did not finish in time"""
    r, w = os.pipe()
    sys.stdout.flush()
    sys.stderr.flush()
    pid = os.fork()
    if pid == 0:
        code = 0
        try:
            os.close(r)
            os.set_blocking(w, True)

            def emit(obj):
                mv = memoryview(json.dumps(obj).encode())
                while mv:
                    n = os.write(w, mv)
                    mv = mv[n:]

            for s in (signal.SIGALRM, signal.SIGINT, signal.SIGTERM):
                signal.signal(s, signal.SIG_DFL)
            dn = os.open(os.devnull, os.O_RDWR)
            os.dup2(dn, 0)
            os.dup2(dn, 1)
            os.dup2(dn, 2)
            try:
                out = _child_body(case, stall, emit)
            except BaseException as e:  # noqa: BLE001
                from vlib.runner import innermost_is_urwid, urwid_frame

                text = "".join(traceback.format_exception(e))[-3000:]
                if innermost_is_urwid(e):  # urwid raised outside run() (building the loop, registering a watch)
                    out = {"urwid_error": f"exception:{type(e).__name__}@{urwid_frame(e)}", "text": text}
                else:
                    out = {"harness_error": text}
            signal.setitimer(signal.ITIMER_REAL, 0)
            emit(out)
        except BaseException:  # noqa: BLE001
            code = 3
        finally:
            os._exit(code)
    os.close(w)
    chunks = []
    deadline = time.monotonic() + CHILD_LIMIT
    finished = False
    try:
        while True:
            left = deadline - time.monotonic()
            if left <= 0:
                break
            rl, _, _ = _select.select([r], [], [], left)
            if not rl:
                break
            b = os.read(r, 65536)
            if not b:
                finished = True
                break
            chunks.append(b)
    finally:
        os.close(r)
        if not finished:
            try:
                os.kill(pid, signal.SIGKILL)
            except ProcessLookupError:
                pass
        _, status = os.waitpid(pid, 0)
    if not finished:
        return None
    if not chunks or status != 0:
        return {"died": status}
    return json.loads(b"".join(chunks))


# ---------------------------------------------------------------------------------------------
# the oracle


def _fmt(entries, limit=14):
    s = [json.dumps(e if e[0] != "draw" else ["draw", f"{len(e[1]) // 2}B"]) for e in entries]
    if len(s) > limit:
        s = ["..."] + s[-limit:]
    return " ".join(s)


def check_report(case, rep):
    """-> list of Violation (every clause that fails; empty = the property held on every run of the case)"""
    sessions = sessions_of(case)
    runs = [*rep.get("prior", []), rep]
    cols, rows = case["size"]
    # what one run leaves to the next: the terminal, its size(s), the widgets' state and which probe is topmost
    carry = {"vt": VT(cols, rows), "size": [cols, rows], "sizes": [[cols, rows]], "state": 0,
             "model": model_start(case)}
    for k, (session, run) in enumerate(zip(sessions, runs)):
        last = k == len(sessions) - 1
        r = check_run(dict(case, script=session["script"], inject=session["inject"]), run, carry, last)
        if r == "stall-unattributed" or (r and not last) or (run["stalled"] and not last):
            if isinstance(r, list) and not last:
                r = [Violation(v.clause, f"{v.message} [in run #{k + 1} of {len(sessions)} on the same MainLoop]")
                     for v in r]
            return r or "stall-unattributed"
        if last:
            return r
    raise AssertionError("no run reported")


def check_run(case, rep, carry, last):
    """one run() of the case (`case` holds this run's script and injection) -> list of Violation; updates `carry`"""
    log = rep["log"]
    cols, rows = carry["size"]
    vt = carry["vt"]
    exp_inputs = expected_inputs(case)
    relaxed = resize_in_burst(case)  # then only the number of resize events seen is compared, not their place
    exp_plain = [x for x in exp_inputs if x != "window resize"]
    seen_inputs = []  # what the filter has been given so far
    sizes = carry["sizes"]  # every size the terminal has had
    resizes = 0  # resizes the terminal has gone through
    queue = []  # callbacks still owed for the last filter call
    state = carry["state"]  # number of input events the widgets have received
    model = carry["model"]  # which probe is topmost
    after_raise = 0  # widget / handler calls logged after the first exception
    raised = None  # ["raise", i, kind, callback]
    who = ""
    resize_pending = False
    first_draw = True  # the next completed draw is the first one since the display was started
    resize_batch = False  # the input being processed (last filter call, no draw since) holds "window resize"
    draws = 0
    drawn_state = None
    for pos, e in enumerate(log):
        kind = e[0]
        if kind == "raise":
            if raised is None:
                raised = e
                who = e[3]
                if resize_batch:
                    resize_pending = True  # the batch that reported the resize was cut short by the exception
                if who == "render":
                    # PopUpTarget renders from keypress / mouse_event too; otherwise render runs from the idle redraw
                    owed = [q for q in queue if q[0] != "unh?"]
                    who = "render called while input was being processed" if owed else "render during the idle redraw"
                who = f"{who} (invocation {e[1]})"
            continue
        if kind == "inject":
            continue
        if kind == "piece":
            for atom in e[2]:
                if atom[0] == "resize":
                    vt.resize(atom[1], atom[2])
                    cols, rows = atom[1], atom[2]
                    sizes.append([cols, rows])
                    resizes += 1
                    resize_pending = True
            continue
        if kind == "prev-handler":
            continue
        if kind == "restarted":
            first_draw = True  # the display has been stopped and is started again: the next draw is a first draw
            continue
        if kind == "draw":
            vt.feed(bytes.fromhex(e[1]))
            draws += 1
            if raised is None:
                resize_batch = False
            if first_draw and not resize_pending:
                # (draw_screen() returns without writing while a resize is pending: wait for a real draw)
                first_draw = False
                want = {"alt_screen": True, "bracketed_paste": case["bp"], "focus_events": case["focus"],
                        "mouse": True, "mouse_sgr": True}
                snap = vt.mode_snapshot()
                got = {k: (bool(snap[k]) if k == "mouse" else snap[k]) for k in want}
                if got != want:
                    # not in the statement; without it the restoration half would be vacuous
                    return [Violation("start-modes", f"after the first draw the terminal modes are {got}, expected {want}")]
            if raised is None and not resize_pending:
                under = "base" if model["top"] == "pop" else model["top"]
                want_rows = [glyph(under, state) * cols for _ in range(rows)]
                if model["top"] == "pop":
                    left, top, width, height = POP_RECT
                    for r in range(top, top + height):
                        want_rows[r] = want_rows[r][:left] + glyph("pop", state) * width + want_rows[r][left + width:]
                bad = [r for r in range(min(rows, vt.rows)) if vt.row_text(r) != want_rows[r]]
                if bad or vt.rows != rows:
                    return [Violation(
                        "draw-not-current",
                        f"after draw #{draws} the terminal does not show the widget state {state} with "
                        f"{model['top']!r} topmost ({cols} x {rows}): row {bad[:1]} is "
                        f"{vt.row_text(bad[0]) if bad else None!r}, expected "
                        f"{want_rows[bad[0]] if bad else None!r}; log: {_fmt(log[:pos + 1])}",
                    )]
                drawn_state = (state, model["top"])
            continue
        if raised is not None:
            if kind in ("key", "mouse", "unh"):
                after_raise += 1
            continue  # callbacks after the first exception: nothing is asserted
        if kind == "filter":
            keys = e[2]
            if not keys:
                continue
            while queue and queue[0][0] == "unh?":
                queue.pop(0)
            if queue:
                return [Violation(
                    "call-missing",
                    f"the input filter was called with {keys} while {queue[0]} was still owed for the previous "
                    f"input; log: {_fmt(log[:pos + 1])}",
                )]
            seen_inputs.extend(keys)
            if relaxed:
                seen_plain = [x for x in seen_inputs if x != "window resize"]
                in_order = len(seen_inputs) - len(seen_plain) <= resizes
            else:
                seen_plain, in_order = seen_inputs, len(seen_inputs) <= len(exp_inputs)
            want = exp_plain if relaxed else exp_inputs
            if not in_order or len(seen_plain) > len(want) or not all(map(same_input, seen_plain, want)):
                return [Violation(
                    "input-order",
                    f"the input filter has been given {seen_inputs}, the terminal sent {exp_inputs}"
                    + (f" ({resizes} resizes so far)" if relaxed else ""),
                )]
            resize_batch = "window resize" in keys
            if "window resize" in keys:
                resize_pending = False
            m = model  # walk the model through the batch: [callback, input, probe that must get it, model after]
            for item in apply_filter(case, keys):
                if item == "window resize":
                    continue
                if isinstance(item, str):
                    target, handled, m = model_key(case, m, item)
                    queue.append(["key", item, target, m])
                else:
                    if m["top"] == "pop":
                        raise Discard()  # a click while the pop-up is open is Overlay geometry, not this property
                    target, handled = m["top"], widget_handles(case, item)
                    queue.append(["mouse", item, target, m])
                if not handled:
                    if item == REDRAW_KEY:
                        queue.append(["unh?", item, None, m])
                    else:
                        m = model_unh(case, m, item)
                        queue.append(["unh", item, None, m])
            continue
        if kind == "render":
            continue
        if kind in ("key", "mouse", "unh"):
            got = [kind, e[2]]
            if queue and queue[0][0] == "unh?":
                opt = queue.pop(0)
                if got == ["unh", opt[1]]:
                    continue  # the unhandled-input handler may or may not see the REDRAW_SCREEN key
            if not queue:
                return [Violation(
                    "call-unexpected",
                    f"{got} was called although no input event was owed to it; log: {_fmt(log[:pos + 1])}",
                )]
            if queue[0][:2] != got:
                return [Violation(
                    "call-order",
                    f"expected {queue[0][:2]} next (filter -> widget -> unhandled handler only for input the widget "
                    f"returned), got {got}; log: {_fmt(log[:pos + 1])}",
                )]
            if kind != "unh" and queue[0][2] != e[3]:
                return [Violation(
                    "wrong-widget",
                    f"{got[1]!r} was given to probe {e[3]!r}; the topmost widget when its turn came is "
                    f"{queue[0][2]!r}; log: {_fmt(log[:pos + 1])}",
                )]
            if kind != "unh":
                # keypress(size, key) / mouse_event(size, ...): the topmost widget is a box widget, its size is the
                # screen's (cols, rows); weak reading: any size the terminal has had so far (a batch that holds a
                # resize may be processed with the old or the new one).  The pop-up's size is Overlay geometry.
                size = e[4]
                ok = isinstance(size, list) and len(size) == 2 and all(isinstance(x, int) and x > 0 for x in size)
                if not ok or (e[3] != "pop" and size not in sizes):
                    return [Violation(
                        "widget-size",
                        f"{got[1]!r} was passed to probe {e[3]!r} with size {size!r}; the terminal has had the "
                        f"sizes {sizes}; log: {_fmt(log[:pos + 1])}",
                    )]
            owed = queue.pop(0)
            if pos + 1 < len(log) and log[pos + 1][0] == "raise" and log[pos + 1][1] == e[1]:
                # this very invocation raised: an injected exception leaves the callback before the probe / the
                # handler does anything ('q', the handler's own ExitMainLoop, changes nothing either)
                continue
            model = owed[3]
            if kind in ("key", "mouse"):
                state += 1
            continue
        if kind in ("alarm", "file", "pipe"):
            continue
        raise AssertionError(e)

    if rep["stalled"]:
        if raised is not None:
            return [Violation(
                "run-did-not-end",
                f"{who} raised {EXC_NAME[raised[2]]} but run() went on waiting; log: {_fmt(log)}",
            )]
        o = rep.get("outstanding")
        owed = [q for q in queue if q[0] != "unh?"]
        if owed:
            return [Violation(
                "call-missing",
                f"{owed[0][:2]} was still owed for input the filter had passed on, and the loop went on waiting; "
                f"log: {_fmt(log)}",
            )]
        if o is None and state > 0 and drawn_state != (state, model["top"]):
            return [Violation(
                "no-redraw-before-wait",
                f"the widgets reached state {(state, model['top'])}, the last completed draw showed {drawn_state}, "
                f"and the loop went on waiting; log: {_fmt(log)}",
            )]
        if o is not None and o[0] == "input":
            return [Violation(
                "input-not-delivered",
                f"{o[1] or 'window resize'} was sent to the terminal and never reached the input filter; "
                f"log: {_fmt(log)}",
            )]
        return "stall-unattributed"

    out = rep["outcome"]
    if raised is None:
        return [Violation("spurious-end", f"run() ended ({out}) although no callback raised; log: {_fmt(log)}")]
    carry.update(size=[cols, rows], state=state, model=model)
    if not last and (resize_pending or after_raise):
        # a resize signalled but not yet reported when run() ended (or reported in the very batch the exception
        # cut short: MainLoop then still remembers the old size), or widgets / handlers called after the first
        # exception: what the next run() must then see is not in the statement
        _stat("history:run-ended-with-" + ("resize-pending" if resize_pending else "calls-after-raise"))
        raise Discard()
    found = []
    if raised[2] == "exit":
        if out["how"] != "returned":
            found.append(Violation(
                "exit-not-clean",
                f"{who} raised ExitMainLoop; run() raised {out['type']}: {out['text']} (from {out['where']})",
            ))
    elif out["how"] == "returned":
        found.append(Violation(
            "exception-swallowed", f"{who} raised {EXC_NAME[raised[2]]}; run() returned normally; log: {_fmt(log)}"
        ))
    elif not out["same"]:
        found.append(Violation(
            "exception-changed",
            f"{who} raised {EXC_NAME[raised[2]]}; run() raised a different object {out['type']}: {out['text']} "
            f"(from {out['where']})",
        ))
    # restoration, on every exit path
    via = f"after {raised[2]} from {who}"
    if rep["started"]:
        found.append(Violation("screen-still-started", f"screen.started is True {via}"))
    t0, t1 = rep["termios"]
    if t0 != t1:
        names = ["iflag", "oflag", "cflag", "lflag", "ispeed", "ospeed", "cc"]
        diff = [n for n, x, y in zip(names, t0, t1) if x != y] if len(t1) == 7 else t1
        lf = f"{t1[3]:#o}" if len(t1) == 7 else "?"
        found.append(Violation(
            "termios-not-restored", f"tty attributes differ {via}: {diff} (lflag {t0[3]:#o} -> {lf})"
        ))
    for name, sg in rep["sig"].items():
        if not sg["same"]:
            found.append(Violation(
                f"signal-not-restored:{name}",
                f"{name} handler was {sg['before']} before run(), is {sg['after']} {via}",
            ))
    vt.feed(bytes.fromhex(rep["final"]))
    snap = vt.mode_snapshot()
    bad = []
    if snap["alt_screen"]:
        bad.append("alternate screen buffer still active")
    if not snap["cursor_visible"]:
        bad.append("cursor hidden")
    if snap["mouse"] or snap["mouse_sgr"]:
        bad.append(f"mouse reporting on ({snap['mouse']}, sgr={snap['mouse_sgr']})")
    if snap["bracketed_paste"]:
        bad.append("bracketed paste on")
    if snap["focus_events"]:
        bad.append("focus reporting on")
    if vt.pen_fg is not None or vt.pen_bg is not None or vt.pen_flags:
        bad.append(f"SGR not reset (fg={vt.pen_fg} bg={vt.pen_bg} {sorted(vt.pen_flags)})")
    if snap["gl"] != 0:
        bad.append("G1 still shifted in")
    if bad:
        found.append(Violation("terminal-modes-not-restored", f"{via}: " + "; ".join(bad)))
    return found


_ACTIVE = None


def _listed(case, v):
    """does v match a known finding that is listed as active? (used only to choose which of several failing
    clauses to report, and to skip the confirmation run of a stall that is excluded anyway)"""
    global _ACTIVE
    if _ACTIVE is None:
        from vlib.runner import load_known_ids

        _ACTIVE = load_known_ids(PROPERTY)
    return any(fid in _ACTIVE and pred("session", case, v) for fid, pred in KNOWN.items())


def check_case(case):
    if malformed(case):
        raise Discard()
    name = f"{case['loop']}/{case['screen']}"
    _LAST.clear()
    rep = None
    for stall in (STALL, STALL_CONFIRM):
        rep = run_in_child(case, stall)
        if rep is None:
            _stat(f"{name}:child-timeout")
            raise Discard()
        if "died" in rep:
            _stat(f"{name}:child-died")
            raise Discard()
        if "harness_error" in rep:
            raise RuntimeError("child harness error:\n" + rep["harness_error"])
        if "urwid_error" in rep:
            raise Violation(rep["urwid_error"], rep["text"][-1200:])
        if not rep["stalled"]:
            break
        _stat(f"{name}:stalled")
        r = check_report(case, rep)
        if isinstance(r, list) and r and _listed(case, r[0]):
            break  # a listed finding: no need to wait for the longer confirmation
    _LAST.update(n=rep["n"], log=rep["log"], stalled=rep["stalled"])
    inj = case.get("inject")
    if inj is not None:
        hit = [e for e in rep["log"] if e[0] == "raise" and e[1] >= inj[0] and e[2] == inj[1]]
        _stat(f"inject:{inj[1]}@{hit[0][3] if hit else 'not-reached'}")
    r = check_report(case, rep)
    if r == "stall-unattributed":
        _stat(f"{name}:stall-unattributed")
        raise Discard()
    if r:
        fresh = [v for v in r if not _listed(case, v)]
        raise (fresh or r)[0]


SUBS = {"session": check_case}


# ---------------------------------------------------------------------------------------------
# sessions and units

Q = ["keys", "q"]

FIXED_SESSIONS = [
    # every event kind once; 'a' handled, 'x' mapped to 'y', 'z' dropped, mouse 1 handled / 2 not
    {"handled": ["a", "mouse1"], "filter": {"drop": ["z"], "map": [["x", "y"]]},
     "script": [["keys", "a"], ["mouse", 1, 3, 2], ["alarm"], ["keys", "x", "z", "b"], ["resize", 31, 7],
                ["pipe"], ["mouse", 2, 0, 0], Q]},
    # the redraw key, function keys, a batch, a watched file
    {"handled": ["up", "f5"], "filter": {"drop": [], "map": []},
     "script": [["keys", "ctrl l"], ["file"], ["keys", "up", "a", "f5", "enter"], ["alarm"], ["keys", "meta a"], Q]},
    # resize first and last, two in a row
    {"handled": [], "filter": {"drop": ["b"], "map": []},
     "script": [["resize", 12, 4], ["keys", "b"], ["resize", 40, 9], ["resize", 20, 5], ["keys", "a"], Q]},
    # shortest
    {"handled": ["a"], "filter": {"drop": [], "map": []}, "script": [["keys", "a"], Q]},
    # the topmost widget changes inside a batch: 'f5' opens a pop-up (PopUpLauncher), 'enter' typed into the pop-up
    # closes it; one write holding opener + keys + closer + keys, then the same split over two writes
    {"handled": ["a"], "filter": {"drop": [], "map": []}, "tree": {"kind": "popup", "open": ["f5"], "close": ["enter"]},
     "script": [["keys", "a", "f5", "b", "enter", "x"], ["keys", "f5", "y"], ["keys", "enter", "a"], Q]},
    # loop.widget is reassigned by the keypress that sees 'x' (twice), in the middle of a batch
    {"handled": ["a"], "filter": {"drop": [], "map": []}, "swap": {"key": "x", "where": "key"},
     "script": [["keys", "a", "x", "b", "a"], ["keys", "x", "b"], Q]},
    # ... and by the unhandled-input handler that sees 'y', typed into an open pop-up
    {"handled": [], "filter": {"drop": [], "map": []}, "tree": {"kind": "popup", "open": ["f5"], "close": ["enter"]},
     "swap": {"key": "y", "where": "unh"}, "script": [["keys", "f5", "y", "a"], ["keys", "b"], Q]},
    # mouse reports other than a plain press (modifier held; drag, release, wheel), three in one write; then
    # type-ahead that reaches the tty in pieces cut inside an escape sequence, a UTF-8 character and a mouse report:
    # "x ESC" | "[A" + first byte of e-acute | its second byte + "ESC [ < 5" | ";1;2M"
    {"handled": ["up", "mouse2"], "filter": {"drop": [], "map": []},
     "script": [["burst", [["mouse", 1, 3, 2, "press", "ctrl"], ["mouse", 1, 4, 2, "drag", "ctrl"],
                           ["mouse", 1, 4, 2, "release", "ctrl"]], []],
                ["burst", [["keys", "x", "up", "\u00e9"], ["mouse", 2, 0, 1, "press", "shift"]],
                 [[0, 2], [0, 5], [1, 4]]],
                ["mouse", 4, 5, 1, "press", "meta"], Q]},
    # a resize that shares an input batch with keys: after a resize of its own (the screen's own loop then
    # throttles: the keys typed right behind the next resize follow "window resize" in one batch), and a resize
    # signalled between two keys
    {"handled": ["a"], "filter": {"drop": [], "map": []},
     "script": [["resize", 24, 6], ["burst", [["resize", 30, 7], ["keys", "a", "b"]], [[1, 0]]],
                ["burst", [["keys", "x"], ["resize", 16, 4], ["keys", "y"]], [[2, 0]]], Q]},
    # the display is stopped and started again from a callback (loop.screen.stop() ... loop.screen.start()), with
    # and without input in between
    {"handled": ["a"], "filter": {"drop": [], "map": []},
     "script": [["keys", "a"], ["restart"], ["keys", "b"], ["restart"], ["alarm"], ["restart"], ["mouse", 1, 2, 1], Q]},
    # run() is called again on the same MainLoop: after a run ended by an exception from an alarm and a run ended
    # by the handler's ExitMainLoop
    {"handled": ["a"], "filter": {"drop": [], "map": []},
     "history": [{"script": [["keys", "a"], ["alarm"], Q], "inject": [0, "boom", "alarm"]},
                 {"script": [["keys", "b"], Q], "inject": None}],
     "script": [["keys", "a", "b"], ["alarm"], ["mouse", 1, 2, 1], Q]},
    # ... with a pop-up left open by the first run, a run ended by SystemExit from a watched file, and the pop-up
    # closed in the third run
    {"handled": ["a"], "filter": {"drop": [], "map": []}, "tree": {"kind": "popup", "open": ["f5"], "close": ["enter"]},
     "history": [{"script": [["keys", "a", "f5"], Q], "inject": None},
                 {"script": [["keys", "b"], ["file"], Q], "inject": [0, "abort", "file"]}],
     "script": [["keys", "x", "enter", "a"], ["pipe"], Q]},
    # ... with loop.widget replaced in an earlier run, which the input filter ends with ExitMainLoop; a resize in
    # the run after it; a restart of the display in the last one
    {"handled": ["b"], "filter": {"drop": [], "map": []}, "swap": {"key": "x", "where": "key"},
     "history": [{"script": [["keys", "x"], ["keys", "a"], Q], "inject": [4, "exit", "filter"]},
                 {"script": [["resize", 26, 6], ["keys", "b"], Q], "inject": [3, "boom", "key"]}],
     "script": [["keys", "x", "b"], ["restart"], ["keys", "a"], Q]},
]

# a short session in which every kind of callback runs (for the sweep over the ways an earlier run can end)
ALL_KINDS = [["keys", "a"], ["alarm"], ["mouse", 2, 1, 1], ["pipe"], ["keys", "b"], ["file"], Q]


def sweep_sessions():
    """delivery sweeps (run once each, no exception injected): small domains covered completely"""
    out = []
    plain = {"handled": [], "filter": {"drop": [], "map": []}, "faults": False}
    # every way of cutting one multi-byte key of KEYS / one mouse report of each action in two, typed between 'a'
    # and 'b' in one go: the continuation arrives when the screen has read the beginning
    multi = [k for k in KEYS if len(KEYS[k].encode()) > 1]
    for k in multi:
        n = len(KEYS[k].encode())
        out.append(dict(plain, script=[["burst", [["keys", "a", k, "b"]], [[0, 1 + o]]] for o in range(1, n)] + [Q]))
    for j, action in enumerate(MOUSE_ACTIONS):
        m = ["mouse", 1 + j, 11, 3, action, ["", "meta", "shift"][j]]
        n = len(mouse_bytes(m))
        out.append(dict(plain, script=[["burst", [["keys", "a"], m, ["keys", "b"]], [[1, o]]] for o in range(1, n)]
                        + [Q]))
    # every documented mouse event: {press 1-5, drag 1-3, release 1-3} x {no modifier, shift, meta, ctrl}
    for mod in MOUSE_MODS:
        script = []
        for action in MOUSE_ACTIONS:
            buttons = range(1, 6 if action == "press" else 4)
            script.append(["burst", [["mouse", b, 2 * b, b % 4, action, mod] for b in buttons], []])
        out.append(dict(plain, handled=["mouse2", "mouse5"], script=[*script, Q]))
    # a resize before / between / behind two keys x every choice of piece boundaries x with and without a resize of
    # its own just before (two resizes in a row make the screen's own loop wait for more input)
    for first in (False, True):
        for where in (0, 1, 2):
            script, n = [], 0
            for cuts in ([], [[1, 0]], [[2, 0]], [[1, 0], [2, 0]]):
                n += 1
                if first:
                    script.append(["resize", 20 + n, 5])
                subs = [["keys", "a"], ["keys", "b"]]
                subs.insert(where, ["resize", 30 - n, 5 + n])
                script.append(["burst", subs, cuts])
            out.append(dict(plain, handled=["a"], script=[*script, Q]))
    # run() three times on one MainLoop: every way an earlier run can end - {ExitMainLoop, Boom, SystemExit} raised
    # by the first callback of each kind - once as the first run and once (a later invocation) as the second,
    # before a run that is ended by the handler's ExitMainLoop
    endings = [(cb, kind) for cb in CALLBACKS for kind in EXC_NAME]
    for j, (cb, kind) in enumerate(endings):
        cb2, kind2 = endings[(7 * j + 5) % len(endings)]
        out.append(dict(plain, handled=["a"], script=[["keys", "a", "b"], ["mouse", 1, 0, 0], Q],
                        history=[{"script": ALL_KINDS, "inject": [0, kind, cb]},
                                 {"script": ALL_KINDS, "inject": [6, kind2, cb2]}]))
    return out


def gen_mouse(rng):
    action = rng.choice(["press", "press", "release", "drag"])
    button = rng.randint(1, 5 if action == "press" else 3)
    return ["mouse", button, rng.randint(0, 9), rng.randint(0, 3), action, rng.choice(["", "", "shift", "meta", "ctrl"])]


def gen_keys(rng):
    return ["keys", *[rng.choice([k for k in KEYS if k != "q"]) for _ in range(rng.choice([1, 1, 2, 3]))]]


def gen_burst(rng, mouse):
    """1-3 sub-events (at most one resize) and 0-3 cuts anywhere, also inside a key's bytes"""
    subs = []
    for _ in range(rng.randint(1, 3)):
        t = rng.choice(["keys", "keys", "mouse", "resize"])
        if (t == "mouse" and not mouse) or (t == "resize" and any(sub[0] == "resize" for sub in subs)):
            t = "keys"
        subs.append(gen_keys(rng) if t == "keys" else gen_mouse(rng) if t == "mouse"
                    else ["resize", rng.randint(10, 40), rng.randint(4, 9)])
    points = [[i, o] for i, sub in enumerate(subs)
              for o in range(1 if sub[0] == "resize" else len(event_bytes(sub))) if (i, o) != (0, 0)]
    cuts = sorted(rng.sample(points, min(len(points), rng.choice([0, 1, 1, 2, 3]))))
    return ["burst", subs, cuts]


def gen_script(rng, legacy_ok, mouse, bursts, n):
    script = []
    for _ in range(n):
        t = rng.choice(["keys", "keys", "keys", "burst", "burst", "mouse", "resize", "alarm", "pipe", "file", "restart"])
        if t in ("pipe", "file") and legacy_ok:
            t = "alarm"
        if (t == "mouse" and not mouse) or (t == "burst" and not bursts):
            t = "keys"
        if t == "keys":
            script.append(gen_keys(rng))
        elif t == "burst":
            script.append(gen_burst(rng, mouse))
        elif t == "mouse":
            script.append(gen_mouse(rng))
        elif t == "resize":
            script.append(["resize", rng.randint(10, 40), rng.randint(4, 9)])
        else:
            script.append([t])
    script.append(list(Q))
    return script


def gen_history(rng, legacy_ok, mouse):
    """0-2 earlier runs on the same MainLoop, each ended by 'q' or by an exception from some callback"""
    out = []
    for _ in range(rng.choice([0, 0, 0, 1, 1, 2])):
        script = gen_script(rng, legacy_ok, mouse, False, rng.randint(1, 4))
        inj = None
        if rng.random() < 0.7:
            inj = [rng.randint(0, 12), rng.choice(list(EXC_NAME)), rng.choice(CALLBACKS)]
        out.append({"script": script, "inject": inj})
    return out


def gen_session(rng, legacy_ok):
    mode = rng.choice(["plain", "plain", "popup", "swap", "both"])
    mouse = mode in ("plain", "swap")  # no clicks while a pop-up may be open
    script = gen_script(rng, legacy_ok, mouse, True, rng.randint(1, 7))
    history = gen_history(rng, legacy_ok, mouse)
    names = [k for k in KEYS if k != "q"]
    handled = sorted(rng.sample(names, rng.randint(0, 4))) + [f"mouse{b}" for b in (1, 2, 3, 4, 5) if rng.random() < 0.4]
    drop = sorted(rng.sample(names, rng.randint(0, 2)))
    pairs = []
    if rng.random() < 0.5:
        a, b = rng.sample([k for k in names if k not in drop], 2)
        pairs.append([a, b])
    out = {"handled": handled, "filter": {"drop": drop, "map": pairs}, "script": script}
    if history:
        out["history"] = history
    reach = [k for k in names if k not in drop and k not in [a for a, _b in pairs] and k != REDRAW_KEY]
    typed = [k for s_ in [*history, out] for ev in s_["script"] for k in inputs_of(ev)
             if isinstance(k, str) and k in reach]
    if mode in ("popup", "both"):
        # openers / closers preferably among the keys the session types
        pool = (typed + reach)[:]
        o = rng.choice(pool)
        c = rng.choice([k for k in pool if k != o])
        out["tree"] = {"kind": "popup", "open": [o], "close": [c]}
    if mode in ("swap", "both"):
        out["swap"] = {"key": rng.choice(typed or reach), "where": rng.choice(["key", "unh"])}
    return out


def legacy_script(script):
    """the screen's own loop services keys and alarms only: a pipe / file event becomes an alarm"""
    return [(["alarm"] if ev[0] in ("pipe", "file") else list(ev)) for ev in script]


def legacy_history(history):
    out = []
    for s in history:
        inj = s.get("inject")
        if inj is not None and len(inj) > 2 and inj[2] in ("pipe", "file"):
            inj = [inj[0], inj[1], "alarm"]
        out.append({"script": legacy_script(s["script"]), "inject": inj})
    return out


def units(ctx):
    rng = random.Random(f"{ctx.seed}/C12/sessions")
    sessions = [dict(s) for s in FIXED_SESSIONS]
    for _ in range(ctx.scale(2, 56)):
        sessions.append(gen_session(rng, False))
    sessions.extend(sweep_sessions())
    out = []
    k = 0
    for si, s in enumerate(sessions):
        configs = [(lp, "raw") for lp in LOOPS] + [("select", "legacy")]
        if s.get("history") and s.get("faults") is False:
            configs.remove(("twisted", "raw"))  # nothing but the history to look at: see below
        for ci, (lp, scr) in enumerate(configs):
            if ctx.tier == "quick":
                variants = [((si + k) % 2 == 1, (si + k) % 3 != 0)]
            else:
                variants = [(False, True), (True, True)] if (si + k) % 2 else [(True, False), (False, True)]
            if s.get("tree"):
                variants = sorted({(True, flags) for _pop, flags in variants})  # a pop-up needs the PopUpTarget
            for vi, (pop, flags) in enumerate(variants):
                k += 1
                u = {
                    "loop": lp, "screen": scr, "pop_ups": bool(pop), "bp": bool(flags), "focus": bool(flags),
                    "sigs": "custom" if flags else "default", "size": [20, 5],
                    "handled": s["handled"], "filter": s["filter"],
                    "script": legacy_script(s["script"]) if scr == "legacy" else s["script"],
                    "inject": None,
                    # the two handlers as constructor arguments / as overridden MainLoop methods
                    "handlers": "methods" if (si + k) % 4 in (1, 2) else "args",
                    # which descriptors the terminal is: 0 / 1 (standard input / output, the Screen's default) or a
                    # pair of the application's own; alternates over the loops of a session, from session to
                    # session, and over the variants of a unit (thorough: both for every session x loop that has
                    # two variants)
                    "tty": "std" if (si + ci + vi) % 2 == 0 else "high",
                }
                for opt in ("tree", "swap"):
                    if s.get(opt):
                        u[opt] = s[opt]
                if s.get("history") and lp != "twisted":  # a Twisted reactor cannot be started a second time
                    u["history"] = legacy_history(s["history"]) if scr == "legacy" else s["history"]
                if s.get("faults") is False:
                    u["faults"] = False
                out.append(u)
    return out


def _nontrivial(case):
    inj = case.get("inject")
    return inj is not None and inj[0] > 0 and (case["loop"] != "select" or case["screen"] == "legacy")


def _still_fails(case, clause):
    try:
        check_case(case)
    except Violation as v:
        return v.clause == clause and not _listed(case, v)
    except Discard:
        return False
    return False


def _shrink(case, v, seconds):
    """greedy, time-boxed: simpler flags, fewer script events, earlier injection - same failing clause"""
    t0 = time.monotonic()
    best = case

    def attempt(cand):
        nonlocal best
        if time.monotonic() - t0 > seconds or cand == best:
            return False
        if _still_fails(cand, v.clause):
            best = cand
            return True
        return False

    def retarget(cand):
        """the same exception kind in the same kind of callback, latest position first"""
        inj = cand["inject"]
        if inj is None:
            return attempt(cand)
        return any(attempt(dict(cand, inject=[j, inj[1], inj[2]])) for j in range(inj[0], -1, -1))

    for key in ("swap", "tree", "handlers"):
        if key in best:
            attempt({k: v_ for k, v_ in best.items() if k != key})
    while best.get("history"):  # fewer earlier runs: the first one, then the one just before the last
        h_ = best["history"]
        if not (attempt(dict(best, history=h_[1:])) or (len(h_) > 1 and attempt(dict(best, history=h_[:-1])))):
            break
    if best.get("history") == []:
        best = {k: v_ for k, v_ in best.items() if k != "history"}
    for key, plain in (("pop_ups", False), ("bp", False), ("focus", False), ("sigs", "default"), ("tty", "high"),
                       ("filter", {"drop": [], "map": []}), ("handled", [])):
        attempt(dict(best, **{key: plain}))
    progress = True
    while progress and time.monotonic() - t0 <= seconds:
        progress = False
        for k in range(len(best["script"]) - 1):  # never the final 'q'
            ev = best["script"][k]
            cands = [best["script"][:k] + best["script"][k + 1:]]
            if ev[0] == "keys" and len(ev) > 2:
                cands.append(best["script"][:k] + [ev[:-1]] + best["script"][k + 1:])
            if ev[0] == "burst":
                subs, cuts = burst_parts(ev)
                for j in range(len(subs) if len(subs) > 1 else 0):  # one sub-event less
                    kept = [[i - (i > j), o] for i, o in cuts if i != j]
                    smaller = ["burst", subs[:j] + subs[j + 1:], [c for c in kept if c != [0, 0]]]
                    cands.append(best["script"][:k] + [smaller] + best["script"][k + 1:])
                for j in range(len(cuts)):  # one cut less
                    cands.append(best["script"][:k] + [["burst", subs, cuts[:j] + cuts[j + 1:]]] + best["script"][k + 1:])
            if any(retarget(dict(best, script=sc)) for sc in cands):
                progress = True
                break
    return best


def shard(ctx):
    _preimport()
    all_units = units(ctx)
    mine = [u for i, u in enumerate(all_units) if ctx.mine(i)]
    complete = True
    failed = None
    for u in mine:
        if failed is not None:
            break
        if ctx.expired():
            complete = False
            break
        tag = f"{u['loop']}/{u['screen']}"
        ctx.count(f"unit:{tag}")
        ctx.count(f"unit:pop_ups={u['pop_ups']}")
        try:
            ctx.evaluate("session", u)
        except Violation as v:
            failed = (u, v)
            break
        if u.get("faults") is False:
            ctx.count("delivery-sweep-unit")
            continue
        if not _LAST or _LAST.get("stalled"):
            ctx.count(f"unit-without-baseline:{tag}")
            continue
        calls = [e for e in _LAST["log"] if e[0] in CALLBACKS]
        assert [e[1] for e in calls] == list(range(_LAST["n"]))
        ctx.count("callback-invocations", len(calls))
        for i, cb in enumerate(e[0] for e in calls):
            # SystemExit: every invocation (thorough), every other one (quick)
            every = ctx.tier != "quick" or (i + len(calls)) % 2 == 0
            for kind in ("exit", "boom", "abort") if every else ("exit", "boom"):
                if ctx.expired():
                    complete = False
                    break
                case = dict(u, inject=[i, kind, cb])
                if _nontrivial(case):
                    ctx.nt_enum += 1
                    if len(ctx.samples) < 2 and i > 2:
                        ctx.samples.append({"sub": "session", "case": case})
                try:
                    ctx.evaluate("session", case)
                except Violation as v:
                    failed = (case, v)
                    break
            if failed is not None or not complete:
                break
    if failed is not None:
        case, v = failed
        ctx.fail("session", case, v)
        small = _shrink(case, v, 15.0 if ctx.tier == "quick" else 60.0)
        if small != case:
            try:
                check_case(small)
            except Violation as v2:
                ctx.fail("session", small, v2)
            except Discard:
                pass
    name = ("every callback invocation x {ExitMainLoop, Boom} (+ SystemExit, quick: every other one) of every unit "
            "that is not a delivery sweep")
    ctx.exhaustive[name] = complete and failed is None
    for k, v in sorted(_STATS.items()):
        ctx.count(k, v)


# ---------------------------------------------------------------------------------------------
# known findings (active only if listed in known_findings.d/C12.json with status "known")


def _known_zmq_termios(sub, case, v):
    # ZMQEventLoop.watch_file(int) wraps the descriptor with os.fdopen(fd), which owns it: when the screen's
    # watch handles are dropped (re-hook during Screen._stop on the exception path) the terminal input
    # descriptor is closed, os.isatty() is False and the termios settings are never written back
    return case["loop"] == "zmq" and case["screen"] == "raw" and v.clause == "termios-not-restored"


def _known_sigcont(sub, case, v):
    # Screen.signal_restore() sets SIGCONT to `self._prev_sigcont_handler or SIG_DFL`; the previous handler is
    # only recorded by _sigtstp_handler, so without a SIGTSTP the application's own SIGCONT handler is lost
    return v.clause == "signal-not-restored:SIGCONT" and case["sigs"] == "custom"


def _known_idle_exception_lost(loop):
    # TornadoEventLoop runs _entering_idle from call_later(0) without handle_exit, TrioEventLoop runs the idle
    # callbacks from an instrument hook (trio logs and drops exceptions raised there): anything raised by the
    # idle redraw is lost and run() keeps going (same root cause as C13-<loop>-idle-exception-swallowed)
    def pred(sub, case, v):
        return (
            case["loop"] == loop
            and case["screen"] == "raw"
            and v.clause in ("run-did-not-end", "exception-swallowed")
            and v.message.startswith("render during the idle redraw")
        )

    return pred


def _known_trio_rerun(sub, case, v):
    # same root cause as C13-trio-remove-outside-run: TrioEventLoop._cancel_scope reads CancelScope.cancel_called,
    # which asks the trio clock for a scope that has not been entered yet - RuntimeError outside trio.run().  After
    # a run() that an exception ended, MainLoop._run stops the screen only; Screen._stop's INPUT_DESCRIPTORS_CHANGED
    # re-hooks the input descriptors (watch tasks left pending, scopes never entered), and the next run()'s
    # MainLoop.start() -> screen.start() -> unhook_event_loop() -> remove_watch_file() raises out of run(), the
    # display stays started
    return (
        case["loop"] == "trio"
        and case["screen"] == "raw"
        and bool(case.get("history"))
        and v.clause == "spurious-end"
        and "'type': 'RuntimeError'" in v.message
        and "must be called from async context" in v.message
        and "trio_loop.py:_cancel_scope" in v.message
    )


KNOWN = {
    "C12-trio-run-again-after-exception": _known_trio_rerun,
    "C12-zmq-termios-not-restored": _known_zmq_termios,
    "C12-sigcont-handler-lost": _known_sigcont,
    "C12-tornado-idle-exception-lost": _known_idle_exception_lost("tornado"),
    "C12-trio-idle-exception-lost": _known_idle_exception_lost("trio"),
}
