"""C13 -- every bundled event loop honours the alarm / watch / idle / exception contract.

Two sub-checks share one program grammar, one interpreter and one trace oracle.

program   setup actions performed before run() + scripts attached to callbacks (performed from
          within the callback when it fires).  Actions:
            ["alarm", d, script]      loop.alarm(d * unit, cb)         cb performs `script`
            ["watch", fd, script]     loop.watch_file(fd_i, cb)        cb reads one byte, then `script`
            ["idle", script]          loop.enter_idle(cb)
            ["rm_alarm", k, mode]     loop.remove_alarm(handle)        target chosen modulo the state
            ["rm_watch", k, mode]     loop.remove_watch_file(handle)
            ["rm_idle", k, mode]      loop.remove_enter_idle(handle)
            ["write", fd, n]          n bytes become readable on descriptor fd_i now
            ["busy", u]               the callback takes u units of time (several events fall due)
            ["raise", kind]           0: ExitMainLoop, 1: Boom (an Exception subclass), 2: SystemExit (sys.exit() in a
                                      callback), 3: KeyboardInterrupt, 4: Abort (an application-defined BaseException
                                      subclass): "any other exception" of the property, inside and outside Exception
          script = [[n, action], ...]: an alarm callback performs every action; a watch / idle
          callback performs the actions whose n equals its invocation index (0, 1, 2).

virtual   SelectEventLoop with fake ``time`` / ``selectors`` objects bound into
          ``urwid.event_loop.select_loop`` for the duration of the case.  case["scale"] = seconds per
          program time unit (alarm delays, busy spans, arrival instants): 2**-10 s ... 10**9 s.  The fake selector advances
          the clock to min(timeout, next external readiness); a blocking select() with nothing
          scheduled ends the scenario.  One watch (the keeper) is always registered.  Everything is
          exact: tolerance 0, block points are observed directly.

real      one of the six loops on real time in a forked child (fresh reactor / asyncio loop / trio
          run per case), unit 20 ms, os.pipe descriptors.  Only orders and one-sided bounds are
          asserted; a child that does not finish is killed and the case is inconclusive (Discard).

oracle    check_trace() below: a reference bookkeeping of which alarm / watch / idle registration is
          pending, removed or fired, driven by the trace the interpreter records (every API call
          with its return value, every callback start / end with a clock reading, and - virtual
          only - every select() call, ready batch and block point).
"""
from __future__ import annotations

import itertools
import json
import os
import re
import resource
import select as _select
import signal
import sys
import time
import traceback
import types

from hypothesis import strategies as st

import urwid  # noqa: F401  (asserts the tree under test is importable)
from urwid.event_loop import select_loop as _sl
from urwid.event_loop.abstract_loop import ExitMainLoop
from vlib.runner import Discard, Violation

PROPERTY = "C13"
LEVEL = "exploration"
RULE = (
    "Hypothesis-generated programs: <=6 setup actions and nested callback scripts (depth <=3, <=4 actions "
    "each) over alarm(d in 0..4 units) / remove_alarm / watch_file (3 descriptors) / remove_watch_file / "
    "enter_idle / remove_enter_idle / write n bytes / busy u units / raise ExitMainLoop | an Exception subclass | "
    "SystemExit | KeyboardInterrupt | an application-defined BaseException subclass, removal "
    "targets chosen modulo the live state (pending, already removed, self, sibling). virtual: "
    "SelectEventLoop under a virtual clock with an external readiness schedule (<=5 arrivals at instants "
    "0..12) and a generated order of each ready batch, one program time unit being 1 s or (40 %) a "
    "millisecond, minute, hour, day, week, month, year, 2**31 s or 10**9 s; real: the same programs on select, asyncio, tornado, "
    "twisted, trio and zmq loops in a forked child each, unit 20 ms, pipes written from callbacks, a final "
    "alarm raising ExitMainLoop, and (except twisted) a second run() after a re-raised exception. "
    "Deterministic sweeps: watch hand-over inside one ready batch (virtual); every history of 5 (thorough: 1..6) "
    "watch_file / remove_watch_file calls over 3 descriptors (each step: watch a free descriptor or remove one "
    "of the live watches), performed before run() or inside an alarm callback, then every descriptor made "
    "readable - on all six real loops and (1..6 calls, both placements) under the virtual clock; idle-table edits: "
    "every table of 3 (thorough and virtual: 1..4) idle callbacks x every actor (first alarm's callback, a watch "
    "callback, idle callback a at its first or second invocation) x every edit (remove_enter_idle of callback j, self "
    "included / enter_idle of a new one / both), followed by two quiescent stretches; exception matrix: callback kind "
    "(alarm, watch, idle) x the five exception kinds x alone / among other registrations - both on all six real "
    "loops and under the virtual clock; alarmq: "
    "every registration order of <=7 due times x one removal, plus random queues of <=14 alarms whose due "
    "times mix seconds, minutes, hours, days, ... up to 40 x 10**9 s. "
    "Non-trivial: some callback script adds or removes a registration, or a callback is busy across other "
    "due times, or (virtual) an external arrival coincides with a setup alarm's due instant. Distinct = "
    "distinct case hash."
)
ASSUMPTIONS = [
    "virtual: the fake time/selectors objects stand for the operating system (select returns exactly the "
    "registered descriptors that have unread bytes, in the generated order; time only moves inside select "
    "or a busy callback); the fake selector accepts any timeout (the platform's limit on a single select()/"
    "epoll wait, about 24.8 days, is not modelled) and all instants are integers or dyadic fractions, so the "
    "virtual clock is exact at every time scale",
    "real: the loop's own clock is time.time (select, zmq, twisted) or the monotonic clock (asyncio, tornado, "
    "trio) and is read by the harness immediately before and after alarm(); 'due' is the interval "
    "[before+d, after+d]; order is asserted only for disjoint intervals; early firing tolerance 2 ms",
    "real: 'the loop went quiescent between callback A and alarm B' is inferred only when B was not due "
    "until >=50 ms after A ended AND the process recorded a voluntary context switch in between (ru_nvcsw); "
    "preemption or a slow machine never satisfies it, so no upper bound on latency is asserted",
    "a child that does not report within 8 s is killed and the case counted as discarded (inconclusive)",
    "return values of remove_watch_file / remove_enter_idle, removal of an alarm that already fired, "
    "callbacks running after the first exception and spurious watch calls are not asserted (statement silent)",
    "a second run() after run() re-raised must not raise the stale exception again (reading of 'exactly "
    "once'); not exercised on Twisted, whose reactor cannot be restarted",
    "'an exception raised in any callback' is read as any BaseException (sys.exit() or KeyboardInterrupt in a "
    "callback are the common cases; abstract_loop.EventLoop.run says 'any callback raises an exception'); "
    "'re-raised from run()' is read as: when exactly one callback raised during the run, run() raises that exception "
    "(the same object, or an equal one of the same class) and not an exception group around it; when several "
    "callbacks raised, any of them or a group of them is accepted",
]

STEP = 0.020  # real-time unit (seconds)
TOL = 0.002  # an alarm may not fire more than this before its due time on a real loop
GAP = 0.050  # real loops: quiescence is inferred only across at least this much slack
HORIZON_CAP = 20  # units; the final ExitMainLoop alarm is due at most this late (+3)
CHILD_LIMIT = 8.0  # seconds a child may take before the case is inconclusive
LOOPS = ["select", "asyncio", "tornado", "twisted", "trio", "zmq"]
KEEPER_FD = 99
VFD0 = 100
SELECT_LIMIT = 3000  # virtual: select() calls per scenario before it is called a livelock

_STATS: dict[str, int] = {}


def _stat(k, n=1):
    _STATS[k] = _STATS.get(k, 0) + n


class Boom(Exception):
    """the 'any other exception' of the property"""


class Abort(BaseException):
    """an application-defined exception that deliberately does not derive from Exception (like
    SystemExit / KeyboardInterrupt / GeneratorExit / asyncio.CancelledError in the standard library)"""


# ["raise", kind]: kind 0 is ExitMainLoop; every other kind is "an exception raised in a callback" that run() must
# re-raise.  Labels of kind 1 stay "<callback>#<invocation>", the others are prefixed with the class name.
RAISE_KINDS = {1: Boom, 2: SystemExit, 3: KeyboardInterrupt, 4: Abort}
RAISE_NAMES = {0: "exit", 1: "boom", 2: "systemexit", 3: "keyboardinterrupt", 4: "abort"}


class _EndOfScenario(ExitMainLoop):
    """raised by the fake selector when the loop blocks with nothing left to happen"""


# ---------------------------------------------------------------------------------------------
# program: naming + static facts


def compile_prog(case):
    """-> (setup, horizon).  Registrations get static names A1, W2, I3... in depth-first order."""
    counter = itertools.count(1)
    total = [0]

    def act(a):
        k = a[0]
        if k == "alarm":
            total[0] += a[1]
            return ("alarm", a[1], f"A{next(counter)}", script(a[2]))
        if k == "watch":
            return ("watch", a[1], f"W{next(counter)}", script(a[2]))
        if k == "idle":
            return ("idle", f"I{next(counter)}", script(a[1]))
        if k == "busy":
            total[0] += a[1]
        return tuple(a)

    def script(s):
        return [(n, act(a)) for n, a in s]

    setup = [act(a) for a in case["setup"]]
    return setup, total[0]


def walk(case):
    """yield (enclosing callback kind or None, action) for every action of the program"""

    def rec(actions, ctx):
        for a in actions:
            yield ctx, a
            if a[0] in ("alarm", "watch"):
                yield from rec([x[1] for x in a[2]], a[0])
            elif a[0] == "idle":
                yield from rec([x[1] for x in a[1]], "idle")

    yield from rec(case["setup"], None)


# ---------------------------------------------------------------------------------------------
# interpreter (runs in-process for the virtual clock, in the forked child for real loops)


class Runtime:
    def __init__(self, loop, world, unit):
        self.loop, self.w, self.unit = loop, world, unit
        self.trace = world.trace
        self.alarms: dict[str, dict] = {}
        self.watches: dict[str, dict] = {}
        self.idles: dict[str, dict] = {}
        self.keep = []  # every handle stays referenced (ZMQ's handle owns the descriptor)
        self.cur = None  # (kind, name, invocation) of the running callback
        self.thrown: list[tuple[BaseException, str]] = []  # every exception a script raised, with its label

    def log(self, **ev):
        ev["t"] = self.w.now()
        self.trace.append(ev)
        return ev

    # ---- target selection (harness bookkeeping only; the oracle recomputes from the trace) ----
    def _pick(self, table, k, prefer):
        names = [n for n in table if n[0] not in "TK"]  # never the harness's final alarm / keeper watch
        if not names:
            return None
        for pred in prefer:
            c = [n for n in names if pred(n, table[n])]
            if c:
                return c[k % len(c)]
        return names[k % len(names)]

    def _self_name(self, kind):
        return self.cur[1] if self.cur and self.cur[0] == kind else None

    # ---- actions ----------------------------------------------------------------------------
    def do(self, a):
        k = a[0]
        if k == "alarm":
            _, d, name, script = a
            cb = self.make_cb("alarm", name, script)
            lo = self.w.now()
            h = self.loop.alarm(d * self.unit, cb)
            hi = self.w.now()
            self.keep.append(h)
            self.alarms[name] = {"h": h, "st": "p"}
            self.trace.append({"e": "reg_alarm", "n": name, "lo": lo, "hi": hi, "d": d * self.unit, "t": hi})
        elif k == "watch":
            _, fdi, name, script = a
            if any(w["fd"] == fdi and w["st"] == "a" for w in self.watches.values()):
                return  # one watch per descriptor at a time
            cb = self.make_cb("watch", name, script, fdi)
            h = self.loop.watch_file(self.w.fd(fdi), cb)
            self.keep.append(h)
            self.watches[name] = {"h": h, "fd": fdi, "st": "a"}
            self.log(e="reg_watch", n=name, fd=fdi)
        elif k == "idle":
            _, name, script = a
            cb = self.make_cb("idle", name, script)
            h = self.loop.enter_idle(cb)
            self.idles[name] = {"h": h, "st": "a"}
            self.log(e="reg_idle", n=name)
        elif k == "rm_alarm":
            _, kk, mode = a
            prefer = {
                0: [lambda n, r: r["st"] == "p"],
                1: [lambda n, r: r["st"] == "r"],
                2: [],
            }[mode % 3]
            name = self._pick(self.alarms, kk, prefer)
            if name is None:
                return
            r = self.alarms[name]
            ret = self.loop.remove_alarm(r["h"])
            if r["st"] == "p":
                r["st"] = "r"
            self.log(e="rm_alarm", n=name, ret=bool(ret), raw=repr(ret))
        elif k == "rm_watch":
            _, kk, mode = a
            me = self._self_name("watch")
            prefer = {
                0: [lambda n, r: r["st"] == "a" and n != me, lambda n, r: r["st"] == "a"],
                1: [lambda n, r: n == me and r["st"] == "a", lambda n, r: r["st"] == "a"],
                # a stale handle is only used again while no newer watch is registered on the same descriptor:
                # several loops use the descriptor itself as the handle, so the stale handle would alias the
                # new registration (a caller error, not a property matter)
                2: [lambda n, r: r["st"] == "r" and not any(
                    o["st"] == "a" and o["fd"] == r["fd"] for o in self.watches.values())],
            }[mode % 3]
            name = self._pick(self.watches, kk, prefer)
            if name is None:
                return
            r = self.watches[name]
            if r["st"] == "r" and any(o["st"] == "a" and o["fd"] == r["fd"] for o in self.watches.values()):
                return  # stale handle that would alias a newer watch on the same descriptor (see the comment above)
            ret = self.loop.remove_watch_file(r["h"])
            r["st"] = "r"
            self.log(e="rm_watch", n=name, ret=bool(ret))
        elif k == "rm_idle":
            _, kk, mode = a
            me = self._self_name("idle")
            prefer = {
                0: [lambda n, r: r["st"] == "a" and n != me, lambda n, r: r["st"] == "a"],
                1: [lambda n, r: n == me and r["st"] == "a", lambda n, r: r["st"] == "a"],
                2: [lambda n, r: r["st"] == "r"],
            }[mode % 3]
            name = self._pick(self.idles, kk, prefer)
            if name is None:
                return
            r = self.idles[name]
            ret = self.loop.remove_enter_idle(r["h"])
            r["st"] = "r"
            self.log(e="rm_idle", n=name, ret=bool(ret))
        elif k == "write":
            self.w.write(a[1], a[2])
            self.log(e="write", fd=a[1], nb=a[2])
        elif k == "busy":
            if self.cur is not None:
                self.w.busy(a[1])
        elif k == "raise":
            if self.cur is not None:
                if a[1] == 0:
                    raise ExitMainLoop()
                cls = RAISE_KINDS[a[1]]
                label = f"{self.cur[1]}#{self.cur[2]}"
                if cls is not Boom:
                    label = f"{cls.__name__}:{label}"
                exc = cls(label)
                self.thrown.append((exc, label))
                raise exc
        else:
            raise AssertionError(a)

    def make_cb(self, kind, name, script, fdi=None):
        count = [0]

        def cb():
            i = count[0]
            count[0] += 1
            outer = self.cur
            self.cur = (kind, name, i)
            ev = self.log(e="start", k=kind, n=name, i=i, v=self.w.stamp())
            if kind == "alarm" and name in self.alarms and self.alarms[name]["st"] == "p":
                self.alarms[name]["st"] = "f"
            x = None
            try:
                if kind == "watch":
                    ev["got"] = self.w.read1(fdi)
                for n, act in script:
                    if kind == "alarm" or n == i:
                        self.do(act)
            except ExitMainLoop:
                x = "exit"
                raise
            except (Violation, Discard):
                raise
            except BaseException as e:
                x = self.label_of(e)
                if x is None:
                    if not isinstance(e, Exception):
                        raise  # not ours (the runner's watchdog / budget signal): none of the harness's business
                    x = _foreign_id(e)  # an API call made from the callback failed
                raise
            finally:
                self.cur = outer
                self.log(e="end", k=kind, n=name, i=i, x=x, v=self.w.stamp())

        cb.__name__ = f"cb_{name}"
        return cb

    # ---- phases -----------------------------------------------------------------------------
    def setup(self, actions):
        for a in actions:
            if a[0] in ("busy", "raise"):
                continue
            try:
                self.do(a)
            except (Violation, Discard):
                raise
            except BaseException as e:
                if not isinstance(e, Exception) and not self.ours(e):
                    raise
                self.log(e="setup_error", x=self.exc_id(e), a=repr(a))
                return False
        return True

    # ---- what came out of run() ------------------------------------------------------------------
    def label_of(self, e):
        """label of an exception one of the scripts raised: the very object, or (weaker reading of 're-raised')
        an equal one - same class, same arguments; the argument is the unique label - else None"""
        for obj, label in self.thrown:
            if obj is e:
                return label
        for obj, label in self.thrown:
            if type(obj) is type(e) and obj.args == e.args:
                return label
        return None

    def ours(self, e):
        return any(self.label_of(x) is not None or isinstance(x, ExitMainLoop) for x in _leaves(e))

    def exc_id(self, e):
        """label | 'exit' | '!foreign' | 'group[id,id...]' (an exception group, flattened: run() raised a wrapper)"""
        if isinstance(e, BaseExceptionGroup):
            return "group[" + ",".join(self.exc_id(x) for x in _leaves(e)) + "]"
        label = self.label_of(e)
        if label is not None:
            return label
        if isinstance(e, ExitMainLoop):
            return "exit"
        return _foreign_id(e)

    def run_once(self):
        self.log(e="run_start")
        try:
            self.loop.run()
        except (Violation, Discard):
            raise
        except BaseException as e:
            if not isinstance(e, Exception) and not self.ours(e):
                raise  # the runner's watchdog / budget signal
            self.log(e="run_end", out="raised", x=self.exc_id(e))
            return "raised"
        self.log(e="run_end", out="returned", x=None, q=bool(getattr(self.w, "ended", False)))
        return "returned"


def _where(e):
    hit = ""
    for fr in traceback.extract_tb(e.__traceback__):
        fn = fr.filename.replace("\\", "/")
        if "/urwid/" in fn and "/verif/" not in fn:
            hit = f"{fn.split('/urwid/', 1)[1]}:{fr.name}"
    return hit


def _foreign_id(e):
    return f"!{type(e).__name__}@{_where(e)}: {str(e)[:120]}"


def _leaves(e):
    if isinstance(e, BaseExceptionGroup):
        for x in e.exceptions:
            yield from _leaves(x)
    else:
        yield e


# ---------------------------------------------------------------------------------------------
# the oracle


def check_trace(trace, mode, loopname):
    """Reference bookkeeping over the recorded history.  mode: 'virtual' (exact) | 'real'."""
    tol = 0.0 if mode == "virtual" else TOL
    # TrioEventLoop counts an alarm's delay from the moment its task starts (the next scheduler tick,
    # or run() for alarms set earlier), not from the alarm() call: nominal due times are only
    # comparable with some slack there.  Every other loop computes the due time inside alarm().
    margin = STEP / 2 if loopname == "trio" else 0.0
    alarms: dict[str, dict] = {}
    watches: dict[str, dict] = {}
    idles: dict[str, str] = {}
    unread: dict[int, int] = {}
    dirty: set[str] = set()  # idle callbacks that still owe a run since the last alarm/watch callback
    raised: list[str] = []  # exceptions raised by callbacks during the current run()
    raised_before: list[str] = []  # ... during earlier run() calls
    last_end = None  # (t, nvcsw, {watch: unread>0 and active}) at the end of the last alarm/watch callback
    expect_ready: set[str] = set()  # virtual: watches in the last ready batch whose callback is still owed
    running = False
    depth = 0
    out_v = 0  # real: voluntary context switches recorded between callbacks (never inside one)
    prev_end_v = None

    def active_idles():
        return {n for n, s in idles.items() if s == "a"}

    def owed_ready(where):
        if expect_ready and not raised:
            raise Violation(
                "watch-not-called",
                f"{where}: select() reported {sorted(expect_ready)} readable, the watch is still registered, "
                f"its callback was not called",
            )

    for pos, ev in enumerate(trace):
        e = ev["e"]
        if e == "setup_error":
            raise Violation("api-exception", f"{ev['a']} raised {ev['x']} before run()")
        if e == "reg_alarm":
            alarms[ev["n"]] = {"lo": ev["lo"] + ev["d"], "hi": ev["hi"] + ev["d"], "st": "p"}
        elif e == "rm_alarm":
            a = alarms[ev["n"]]
            if a["st"] == "p":
                if not ev["ret"]:
                    raise Violation(
                        "remove-pending-alarm-false",
                        f"remove_alarm({ev['n']}) returned {ev['raw']} for an alarm that had neither run nor been removed",
                    )
                a["st"] = "r"
            elif a["st"] == "u":
                a["st"] = "r"
            elif a["st"] == "r":
                if ev["ret"]:
                    raise Violation(
                        "remove-alarm-twice-true", f"second remove_alarm({ev['n']}) returned {ev['raw']}"
                    )
            # fired (or firing right now): the statement is silent
        elif e == "rerun":
            for a in alarms.values():
                if a["st"] == "p":
                    a["st"] = "u"  # may or may not survive the restart: nothing owed, nothing forbidden
            for w in watches.values():
                if w["st"] == "a":
                    w["st"] = "u"
            for n_ in idles:
                if idles[n_] == "a":
                    idles[n_] = "u"  # (TrioEventLoop forgets its idle callbacks when run() ends)
        elif e == "reg_watch":
            watches[ev["n"]] = {"fd": ev["fd"], "st": "a"}
        elif e == "rm_watch":
            watches[ev["n"]]["st"] = "r"
            expect_ready.discard(ev["n"])
        elif e == "reg_idle":
            idles[ev["n"]] = "a"
        elif e == "rm_idle":
            idles[ev["n"]] = "r"
            dirty.discard(ev["n"])
        elif e == "write":
            unread[ev["fd"]] = unread.get(ev["fd"], 0) + ev["nb"]
        elif e == "arrive":  # virtual: external data
            unread[ev["fd"]] = unread.get(ev["fd"], 0) + ev["nb"]
        elif e == "run_start":
            running = True
            prev_end_v = None
            raised_before.extend(raised)
            raised = []
            dirty.clear()
            last_end = None
            expect_ready.clear()
        elif e == "start":
            if not running:
                raise Violation("callback-outside-run", f"{ev['n']} called while run() was not executing")
            if depth == 0 and prev_end_v is not None:
                out_v += max(0, ev["v"] - prev_end_v)
            depth += 1
            k, n, t = ev["k"], ev["n"], ev["t"]
            if k == "alarm":
                a = alarms[n]
                if a["st"] == "r":
                    raise Violation("removed-alarm-ran", f"{n} ran after remove_alarm({n}) had returned")
                if a["st"] == "f":
                    raise Violation("alarm-ran-twice", f"{n} ran a second time")
                if t < a["lo"] - tol:
                    nowatch = not any(w["st"] in "au" for w in watches.values())
                    raise Violation(
                        "alarm-early",
                        f"{n} ran at {t:.6f}, {a['lo'] - t:.6f} s before its due time {a['lo']:.6f}"
                        + (" (no descriptor was being watched)" if nowatch else ""),
                    )
                if not raised:
                    for m, b in alarms.items():
                        if m != n and b["st"] == "p" and b["hi"] + margin < a["lo"]:
                            raise Violation(
                                "alarm-order",
                                f"{n} (due >= {a['lo']:.6f}) ran while {m} (due <= {b['hi']:.6f}) had not run yet",
                            )
                    if mode == "real" and last_end is not None and a["lo"] - last_end[0] >= GAP and out_v > last_end[1]:
                        # the loop had nothing due for >= GAP after the previous callback and did block
                        if dirty:
                            raise Violation(
                                "idle-skipped",
                                f"idle callbacks {sorted(dirty)} did not run between the callback ending at "
                                f"{last_end[0]:.6f} and {n} (not due before {a['lo']:.6f}) although the loop slept",
                            )
                        for wn in last_end[2]:
                            w = watches[wn]
                            if w["st"] == "a" and unread.get(w["fd"], 0) > 0 and wn in last_end[3]:
                                raise Violation(
                                    "watch-not-called",
                                    f"{wn} stayed registered with unread data from {last_end[0]:.6f} until {n} ran "
                                    f"(not due before {a['lo']:.6f}) and was never called although the loop slept",
                                )
                a["st"] = "f"
            elif k == "watch":
                w = watches[n]
                if w["st"] == "r":
                    raise Violation("watch-after-remove", f"{n} called after remove_watch_file({n}) had returned")
                expect_ready.discard(n)
                if ev.get("got"):
                    unread[w["fd"]] = unread.get(w["fd"], 0) - 1
                if last_end is not None:
                    last_end[3].discard(n)
            elif k == "idle":
                if idles[n] == "r":
                    raise Violation("idle-after-remove", f"{n} called after remove_enter_idle({n}) had returned")
                dirty.discard(n)
        elif e == "end":
            depth -= 1
            if depth == 0:
                prev_end_v = ev["v"]
            if ev["x"] is not None:
                raised.append(ev["x"])
                if ev["x"].startswith("!"):
                    raise Violation(
                        "api-exception", f"a call made from callback {ev['n']} raised {ev['x']}"
                    )
            if ev["k"] in ("alarm", "watch"):
                dirty = active_idles()
                stuck = {
                    wn for wn, w in watches.items() if w["st"] == "a" and unread.get(w["fd"], 0) > 0
                }
                last_end = (ev["t"], out_v, set(stuck), set(stuck))
        elif e == "sel":  # virtual: a select() call begins
            owed_ready("before the next select()")
            expect_ready.clear()
        elif e == "ready":  # virtual: select() returns these watches
            expect_ready = set(ev["ws"])
        elif e == "block":  # virtual: nothing is ready and the loop asked to wait
            if dirty and not raised:
                raise Violation(
                    "idle-skipped",
                    f"the loop blocked at t={ev['t']} (timeout {ev['to']}) although idle callbacks "
                    f"{sorted(dirty)} had not run since the last alarm/watch callback",
                )
            if ev["to"] is None:
                lost = sorted(n for n, a in alarms.items() if a["st"] == "p")
                if lost:
                    raise Violation("alarm-lost", f"the loop blocked without a timeout while {lost} were pending")
        elif e == "livelock":
            raise Violation("livelock", f"{SELECT_LIMIT} select() calls without the scenario ending")
        elif e == "run_end":
            running = False
            out, x = ev["out"], ev["x"]
            if out == "returned":
                owed_ready("run() returned")
            if out == "raised":
                ids = x[6:-1].split(",") if x.startswith("group[") else [x]
                for i in ids:
                    if i in raised:
                        continue
                    if i in raised_before:
                        raise Violation("exception-raised-twice", f"run() raised {i} again in a later run()")
                    raise Violation("spurious-exception", f"run() raised {x}; callbacks raised {raised}")
            if not raised:
                if out == "returned" and not ev.get("q"):
                    lost = sorted(n for n, a in alarms.items() if a["st"] == "p")
                    raise Violation("alarm-lost", f"run() returned although no callback raised; pending {lost}")
            elif raised[0] != "exit":
                if out != "raised":
                    raise Violation(
                        "exception-swallowed", f"callback raised {raised[0]} but run() returned normally"
                    )
                if len(raised) == 1 and x != raised[0]:
                    # every id of x is in `raised` (checked above), so x is a group around the one exception.
                    # "re-raised from run()": the caller's `except SystemExit` / `except Boom` must see it.  With
                    # several callbacks raising in one run a group is all a loop can do: nothing asserted then.
                    raise Violation(
                        "exception-wrapped",
                        f"the only exception a callback raised is {raised[0]}; run() did not re-raise it but raised {x}",
                    )
            elif all(r == "exit" for r in raised):
                if out != "returned":
                    raise Violation("exit-not-clean", f"ExitMainLoop raised but run() raised {x}")
    return None


# ---------------------------------------------------------------------------------------------
# virtual world


class VWorld:
    def __init__(self, schedule, order, unit=1.0):
        self.t = 0.0
        self.unit = float(unit)  # seconds per program time unit (alarm delays, busy spans, arrival instants)
        self.trace = []
        self.pending: dict[int, int] = {}
        self.future = sorted(([float(t) * self.unit, fd, n] for t, fd, n in schedule), key=lambda x: x[0])
        self.order = order
        self.registered: dict[int, object] = {}
        self.calls = 0
        self.ended = False
        self.rt = None
        self.maxbatch = 0

    # interpreter interface
    def now(self):
        return self.t

    def stamp(self):
        return 0

    def fd(self, i):
        return VFD0 + i

    def write(self, i, n):
        self.pending[VFD0 + i] = self.pending.get(VFD0 + i, 0) + n

    def read1(self, i):
        fd = VFD0 + i
        if self.pending.get(fd, 0) > 0:
            self.pending[fd] -= 1
            return True
        return False

    def busy(self, u):
        self.t += float(u) * self.unit

    def sleep(self, seconds):
        self.t += float(seconds)

    # fake OS
    def deliver(self):
        while self.future and self.future[0][0] <= self.t:
            t, fd, n = self.future.pop(0)
            self.pending[VFD0 + fd] = self.pending.get(VFD0 + fd, 0) + n
            self.trace.append({"e": "arrive", "fd": fd, "nb": n, "t": self.t})

    def ready_now(self, regs):
        return sorted(fd for fd in regs if self.pending.get(fd, 0) > 0)

    def select(self, regs, timeout):
        self.calls += 1
        self.deliver()
        self.trace.append({"e": "sel", "to": timeout, "t": self.t})
        if self.calls > SELECT_LIMIT:
            self.trace.append({"e": "livelock", "t": self.t})
            self.ended = True
            raise _EndOfScenario()
        ready = self.ready_now(regs)
        if not ready:
            if timeout is not None and timeout <= 0:
                return []
            nxt = None
            for t, fd, _n in self.future:
                if VFD0 + fd in regs:
                    nxt = t
                    break
            self.trace.append({"e": "block", "to": timeout, "t": self.t})
            if timeout is None and nxt is None:
                self.ended = True
                raise _EndOfScenario()
            target = None if timeout is None else self.t + timeout
            if nxt is not None and (target is None or nxt <= target):
                self.t = max(self.t, nxt)
            else:
                self.t = target
            self.deliver()
            ready = self.ready_now(regs)
            if not ready:
                return []
        perms = list(itertools.permutations(ready))
        ready = list(perms[self.order % len(perms)])
        self.maxbatch = max(self.maxbatch, len(ready))
        names = []
        for fd in ready:
            for n, w in self.rt.watches.items():
                if w["st"] == "a" and VFD0 + w["fd"] == fd:
                    names.append(n)
        self.trace.append({"e": "ready", "ws": names, "t": self.t})
        return [(types.SimpleNamespace(fd=fd, fileobj=fd, events=1, data=regs[fd]), 1) for fd in ready]


class _FakeSelector:
    def __init__(self, world):
        self.world = world
        self.regs = {}

    def __enter__(self):
        return self

    def __exit__(self, *a):
        return False

    def register(self, fd, events, data=None):
        self.regs[fd] = data

    def select(self, timeout=None):
        return self.world.select(self.regs, timeout)

    def close(self):
        pass


def check_virtual(case):
    setup, _h = compile_prog(case)
    # one program time unit is `scale` seconds: the contract does not depend on the magnitude of the delays, so the
    # same programs are run with units from a millisecond to decades.  Every scale is an integer or a power of two,
    # so every instant of the scenario is an exactly representable float and the tolerance stays 0.
    scale = case.get("scale", 1)
    world = VWorld(case["ready"], case["order"], scale)
    fake_time = types.SimpleNamespace(time=world.now, monotonic=world.now, sleep=world.sleep)
    fake_selectors = types.SimpleNamespace(
        DefaultSelector=lambda: _FakeSelector(world), EVENT_READ=1, EVENT_WRITE=2
    )
    saved = (_sl.time, _sl.selectors)
    _sl.time, _sl.selectors = fake_time, fake_selectors
    try:
        from urwid.event_loop.select_loop import SelectEventLoop

        loop = SelectEventLoop()
        rt = Runtime(loop, world, world.unit)
        world.rt = rt
        loop.watch_file(KEEPER_FD, lambda: None)  # never readable, never removed
        if rt.setup(setup):
            rt.run_once()
    finally:
        _sl.time, _sl.selectors = saved
    _stat(f"virtual:max-ready-batch={min(world.maxbatch, 3)}")
    _stat("virtual:end=" + ("quiescent" if world.ended else "exception"))
    check_trace(world.trace, "virtual", "select")


# ---------------------------------------------------------------------------------------------
# real world (inside the forked child)


class RealWorld:
    def __init__(self, nfd, clock):
        self.clock = clock
        self.trace = []
        self.pipes = []
        for _ in range(nfd):
            r, w = os.pipe()
            if not self.pipes:
                # descriptor 0 is a descriptor like any other (this runs in the forked child, whose stdin is unused):
                # the first watched pipe is descriptor number 0, the smallest handle a loop can hand out
                os.dup2(r, 0)
                os.close(r)
                r = 0
            os.set_blocking(r, False)
            os.set_blocking(w, False)
            self.pipes.append((r, w))

    def now(self):
        return self.clock()

    def stamp(self):
        return resource.getrusage(resource.RUSAGE_SELF).ru_nvcsw

    def fd(self, i):
        return self.pipes[i][0]

    def write(self, i, n):
        os.write(self.pipes[i][1], b"x" * n)

    def read1(self, i):
        try:
            return len(os.read(self.pipes[i][0], 1)) == 1
        except BlockingIOError:
            return False

    def busy(self, u):
        time.sleep(u * STEP)


def _make_loop(name):
    if name == "select":
        from urwid.event_loop.select_loop import SelectEventLoop

        return SelectEventLoop(), time.time
    if name == "asyncio":
        import asyncio

        from urwid.event_loop.asyncio_loop import AsyncioEventLoop

        return AsyncioEventLoop(loop=asyncio.new_event_loop()), time.monotonic
    if name == "tornado":
        from urwid.event_loop.tornado_loop import TornadoEventLoop

        return TornadoEventLoop(), time.monotonic
    if name == "twisted":
        assert "twisted.internet.reactor" not in sys.modules  # fresh reactor in every child
        from urwid.event_loop.twisted_loop import TwistedEventLoop

        return TwistedEventLoop(), time.time
    if name == "trio":
        from urwid.event_loop.trio_loop import TrioEventLoop

        return TrioEventLoop(), time.monotonic
    if name == "zmq":
        from urwid.event_loop.zmq_loop import ZMQEventLoop

        return ZMQEventLoop(), time.time
    raise AssertionError(name)


def _preimport():
    """import the heavy third-party modules once in the worker so that children fork warm
    (never twisted.internet.reactor: importing it installs the process-wide reactor)"""
    import asyncio  # noqa: F401

    import tornado.ioloop  # noqa: F401
    import trio  # noqa: F401
    import twisted.internet.default  # noqa: F401
    import twisted.internet.epollreactor  # noqa: F401
    import zmq  # noqa: F401

    import urwid.event_loop.asyncio_loop
    import urwid.event_loop.tornado_loop
    import urwid.event_loop.trio_loop
    import urwid.event_loop.twisted_loop
    import urwid.event_loop.zmq_loop  # noqa: F401


def _child_body(case):
    import logging

    logging.disable(logging.CRITICAL)  # tornado/trio/twisted log swallowed exceptions
    name = case["loop"]
    setup, horizon = compile_prog(case)
    loop, clock = _make_loop(name)
    if name == "trio":
        # trio shuffles every batch of runnable tasks with a module-level random.Random() seeded from the OS: make
        # the schedule a function of the case (and of its optional "tseed"), so that a case has one verdict
        import zlib

        import trio._core._run as _trun

        _trun._r.seed(zlib.crc32(json.dumps(case, sort_keys=True).encode()))
    world = RealWorld(4, clock)
    rt = Runtime(loop, world, STEP)
    if case.get("keeper", True):
        rt.do(("watch", 3, "K", []))  # a descriptor that never becomes readable and is never removed
    if rt.setup(setup):
        rt.do(("alarm", min(horizon, HORIZON_CAP) + 3, "T", [(0, ("raise", 0))]))
        out = rt.run_once()
        if out == "raised" and name != "twisted":
            # 'exactly once': a later run() must not raise the same exception again.  Whatever is still
            # registered stays registered; the statement says nothing about what survives a restart, so
            # the oracle stops owing anything to alarms registered before this point ("rerun" event).
            rt.log(e="rerun")
            rt.do(("alarm", min(horizon, HORIZON_CAP) + 3, "T2", [(0, ("raise", 0))]))
            rt.run_once()
    return {"trace": world.trace}


def run_in_child(case):
    """-> dict from the child, or None if it did not finish in time / died"""
    r, w = os.pipe()
    sys.stdout.flush()
    sys.stderr.flush()
    pid = os.fork()
    if pid == 0:
        code = 0
        try:
            os.close(r)
            signal.signal(signal.SIGALRM, signal.SIG_DFL)
            signal.alarm(int(CHILD_LIMIT) + 4)  # self-destruct: a child never outlives its case
            dn = os.open(os.devnull, os.O_RDWR)
            os.dup2(dn, 0)
            os.dup2(dn, 1)
            os.dup2(dn, 2)
            try:
                out = _child_body(case)
            except BaseException as e:  # noqa: BLE001
                out = {"harness_error": "".join(traceback.format_exception(e))[-3000:]}
            data = json.dumps(out).encode()
            os.set_blocking(w, True)
            mv = memoryview(data)
            while mv:
                n = os.write(w, mv)
                mv = mv[n:]
        except BaseException:  # noqa: BLE001
            code = 3
        finally:
            os._exit(code)
    os.close(w)
    chunks = []
    deadline = time.monotonic() + CHILD_LIMIT
    finished = False
    try:
        while True:
            left = deadline - time.monotonic()
            if left <= 0:
                break
            rl, _, _ = _select.select([r], [], [], left)
            if not rl:
                break
            b = os.read(r, 65536)
            if not b:
                finished = True
                break
            chunks.append(b)
    finally:
        os.close(r)
        if not finished:
            try:
                os.kill(pid, signal.SIGKILL)
            except ProcessLookupError:
                pass
        _, status = os.waitpid(pid, 0)
    if not finished:
        return None
    if not chunks or status != 0:
        return {"died": status}
    return json.loads(b"".join(chunks))


def check_real(case):
    res = run_in_child(case)
    name = case["loop"]
    if res is None:
        _stat(f"real:{name}:timeout")
        raise Discard()
    if "died" in res:
        _stat(f"real:{name}:child-died")
        raise Discard()
    if "harness_error" in res:
        raise RuntimeError("child harness error:\n" + res["harness_error"])
    trace = res["trace"]
    ends = [ev for ev in trace if ev["e"] == "run_end"]
    _stat(f"real:{name}:runs={len(ends)}")
    if ends:
        _stat(f"real:{name}:first-run-{ends[0]['out']}")
    check_trace(trace, "real", name)



# ---------------------------------------------------------------------------------------------
# alarm queue on its own (virtual clock): many pending alarms, removals before run() and from callbacks


def check_alarm_queue(case):
    """case: {"dues": [distinct ints, registration order], "pre": [indices removed before run()],
    "incb": [[i, j], ...] (the callback of alarm i calls remove_alarm on alarm j)}.
    Oracle: the alarms that were never successfully removed fire exactly once each, in order of their due
    times (all distinct), never early; an alarm removed while pending never fires, the first remove_alarm
    returns True and a second one False.  Removing an alarm that already fired: not asserted (text silent)."""
    dues = case["dues"]
    n = len(dues)
    world = VWorld([], 0)
    fake_time = types.SimpleNamespace(time=world.now, monotonic=world.now, sleep=world.sleep)
    fake_selectors = types.SimpleNamespace(DefaultSelector=lambda: _FakeSelector(world), EVENT_READ=1, EVENT_WRITE=2)
    saved = (_sl.time, _sl.selectors)
    _sl.time, _sl.selectors = fake_time, fake_selectors
    fired, removed, handles = [], set(), [None] * n
    incb = {}
    for i, j in case.get("incb", []):
        incb.setdefault(i % n, []).append(j % n)
    world.rt = types.SimpleNamespace(watches={})

    def remove(loop, j, where):
        was_pending = j not in fired and j not in removed
        r = loop.remove_alarm(handles[j])
        if was_pending:
            if r is not True:
                raise Violation("remove-alarm-result", f"{where}: remove_alarm of pending alarm #{j} (due {dues[j]}) returned {r!r}")
            removed.add(j)
            r2 = loop.remove_alarm(handles[j])
            if r2 is not False:
                raise Violation("remove-alarm-result", f"{where}: second remove_alarm of alarm #{j} returned {r2!r}")
        elif j in removed and r is not False:
            raise Violation("remove-alarm-result", f"{where}: remove_alarm of the already removed alarm #{j} returned {r!r}")

    try:
        from urwid.event_loop.select_loop import SelectEventLoop

        loop = SelectEventLoop()
        loop.watch_file(KEEPER_FD, lambda: None)

        def make(i):
            def cb():
                if world.now() < dues[i]:
                    raise Violation("alarm-early", f"alarm #{i} due {dues[i]} ran at {world.now()}")
                fired.append(i)
                for j in incb.get(i, []):
                    if j != i:
                        remove(loop, j, f"in callback of alarm #{i}")
            return cb

        for i, d in enumerate(dues):
            handles[i] = loop.alarm(d, make(i))
        for j in case.get("pre", []):
            remove(loop, j % n, "before run()")
        loop.run()
    finally:
        _sl.time, _sl.selectors = saved
    if len(set(fired)) != len(fired):
        raise Violation("alarm-once", f"dues {dues}: alarms fired {fired}: one ran twice")
    # `removed` only receives alarms that were pending when remove_alarm returned True: any firing came after
    bad = [i for i in fired if i in removed]
    if bad:
        raise Violation("removed-alarm-ran", f"dues {dues} pre {case.get('pre')} incb {case.get('incb')}: removed alarm(s) {bad} ran; fired {fired}")
    expect = sorted((i for i in range(n) if i not in removed), key=lambda i: dues[i])
    if fired != expect:
        raise Violation(
            "alarm-due-order",
            f"alarms registered with due times {dues}, removed {sorted(removed)}: fired in order "
            f"{[dues[i] for i in fired]}, expected {[dues[i] for i in expect]}",
        )


SUBS = {"virtual": check_virtual, "real": check_real, "alarmq": check_alarm_queue}


# ---------------------------------------------------------------------------------------------
# strategies

# virtual clock: seconds per program time unit.  A millisecond (2**-10 s), a second, minute, hour, day, week,
# month, year, 2**31 s and 10**9 s: the orders of magnitude a caller can pass to alarm(); all exact floats.
MINUTE, HOUR, DAY = 60, 3600, 86400
TIME_UNITS = [2**-10, MINUTE, HOUR, DAY, 7 * DAY, 30 * DAY, 365 * DAY, 2**31, 10**9]
SCALES = [1] * 6 + TIME_UNITS

_k = st.integers(0, 5)
_mode_a = st.sampled_from([0, 0, 0, 1, 2])
_mode_w = st.sampled_from([0, 0, 1, 2])


def _leaf(in_cb):
    opts = [
        st.tuples(st.just("rm_alarm"), _k, _mode_a),
        st.tuples(st.just("rm_alarm"), _k, _mode_a),
        st.tuples(st.just("rm_watch"), _k, _mode_w),
        st.tuples(st.just("rm_idle"), _k, _mode_w),
        st.tuples(st.just("write"), st.integers(0, 2), st.integers(1, 2)),
        st.tuples(st.just("write"), st.integers(0, 2), st.integers(1, 2)),
    ]
    if in_cb:
        opts.append(st.tuples(st.just("busy"), st.integers(1, 3)))
        opts.append(st.tuples(st.just("raise"), st.sampled_from([0, 0, 1, 1, 1, 2, 3, 4])))
    return st.one_of(*opts).map(list)


_n = st.sampled_from([0, 0, 0, 1, 2])


def _action(depth, in_cb):
    if depth == 0:
        return _leaf(in_cb)
    script = st.lists(st.tuples(_n, _action(depth - 1, True)).map(list), max_size=4)
    reg = st.one_of(
        st.tuples(st.just("alarm"), st.integers(0, 4), script),
        st.tuples(st.just("alarm"), st.integers(0, 4), script),
        st.tuples(st.just("alarm"), st.integers(1, 4), script),
        st.tuples(st.just("watch"), st.integers(0, 2), script),
        st.tuples(st.just("watch"), st.integers(0, 2), script),
        st.tuples(st.just("idle"), script),
    ).map(list)
    return st.one_of(reg, reg, _leaf(in_cb))


def _actions(depth, in_cb, max_size):
    return st.lists(_action(depth, in_cb), max_size=max_size)


def _sanitize(case):
    """idle scripts that edit the idle table or raise are a rare class, switched on by flags"""

    def rec(actions, in_idle):
        out = []
        for a in actions:
            if isinstance(a[0], int):  # [n, action]
                b = rec([a[1]], in_idle)
                if b:
                    out.append([a[0], b[0]])
                continue
            k = a[0]
            if in_idle and k in ("idle", "rm_idle") and not case["idle_edit"]:
                continue
            if in_idle and k == "raise" and not case["idle_raise"]:
                continue
            if k in ("alarm", "watch"):
                out.append([k, a[1], rec(a[2], False)])
            elif k == "idle":
                out.append([k, rec(a[1], True)])
            else:
                out.append(list(a))
        return out

    return dict(case, setup=rec(case["setup"], False))


def _case(loop):
    real = loop is not None
    d = {
        "setup": _actions(3, False, 6),
        "idle_edit": st.sampled_from([False] * 7 + [True]),
        "idle_raise": st.sampled_from([False] * 7 + [True]),
    }
    if real:
        d["loop"] = st.just(loop)
        d["keeper"] = st.sampled_from([True] * 7 + [False])
        if loop == "trio":
            d["tseed"] = st.integers(0, 7)  # only read through the hash that seeds trio's scheduler
    else:
        d["ready"] = st.lists(
            st.tuples(st.integers(0, 12), st.integers(0, 2), st.integers(1, 2)).map(list), max_size=5
        )
        d["order"] = st.integers(0, 5)
        d["scale"] = st.sampled_from(SCALES)
    return st.fixed_dictionaries(d).map(_sanitize)


def _nontrivial(case):
    for ctx, a in walk(case):
        if ctx is not None and a[0] in ("alarm", "watch", "idle", "rm_alarm", "rm_watch", "rm_idle", "busy"):
            return True
    if "ready" in case:
        dues = {a[1] for a in case["setup"] if a[0] == "alarm"}
        return any(t in dues for t, _fd, _n in case["ready"])
    return False


def _classify(case):
    sub = "real" if "loop" in case else "virtual"
    out = set()
    if "loop" in case:
        out.add(f"real:{case['loop']}")
    for ctx, a in walk(case):
        k = a[0]
        if ctx is None:
            continue
        if k in ("rm_alarm", "rm_watch", "rm_idle"):
            out.add(f"{sub}:{ctx}-callback-removes-{k[3:]}")
        elif k in ("alarm", "watch", "idle"):
            out.add(f"{sub}:{ctx}-callback-adds-{k}")
        elif k == "raise":
            out.add(f"{sub}:{ctx}-callback-raises-{RAISE_NAMES[a[1]]}")
        elif k == "busy":
            out.add(f"{sub}:busy-callback")
    if "ready" in case:
        dues = {a[1] for a in case["setup"] if a[0] == "alarm"}
        if any(t in dues for t, _fd, _n in case["ready"]):
            out.add("virtual:arrival-at-alarm-instant")
        sc = case.get("scale", 1)
        out.add("virtual:unit=" + ("1s" if sc == 1 else "<1s" if sc < 1 else "<=1h" if sc <= HOUR else "<=30d" if sc <= 30 * DAY else ">30d"))
    return sorted(out)



def _handover_sweep():
    """two (three) descriptors readable in the same batch; the callback served first removes a sibling or itself and
    possibly registers a new watch on the freed descriptor (hand-over), with or without fresh data for it"""
    def scripts(me, other):
        return [
            [],
            [[0, ["rm_watch", 0, 0]]],
            [[0, ["rm_watch", 0, 0]], [0, ["watch", other, []]]],
            [[0, ["rm_watch", 0, 0]], [0, ["watch", other, []]], [0, ["write", other, 1]]],
            [[0, ["rm_watch", 0, 1]], [0, ["watch", me, []]]],
            [[0, ["rm_watch", 0, 1]], [0, ["watch", me, []]], [0, ["write", me, 1]]],
            [[0, ["rm_watch", 0, 0]], [0, ["watch", other, [[0, ["rm_watch", 0, 1]]]]], [0, ["write", other, 2]]],
        ]
    for s0 in scripts(0, 1):
        for s1 in scripts(1, 0):
            for order in (0, 1):
                for extra in ([], [["watch", 2, []], ["write", 2, 1]]):
                    yield {"setup": [["watch", 0, s0], ["watch", 1, s1], *extra, ["write", 0, 2], ["write", 1, 2]],
                           "idle_edit": False, "idle_raise": False, "ready": [], "order": order}


def _watch_histories(lmin, lmax):
    """every sequence of lmin..lmax watch_file / remove_watch_file calls over three descriptors: at each step either
    a watch on one of the descriptors not being watched or the removal of one of the live watches (by age), i.e. three
    choices per step whatever the state -> 3**L sequences of length L"""
    def rec(seq, live, left):
        if len(seq) >= lmin:
            yield list(seq)
        if not left:
            return
        for fd in range(3):
            if fd not in live:
                yield from rec([*seq, ["watch", fd, []]], [*live, fd], left - 1)
        for r in range(len(live)):
            yield from rec([*seq, ["rm_watch", r, 0]], live[:r] + live[r + 1:], left - 1)

    yield from rec([], [], lmax)


def _watch_history_cases(loops, lmin, lmax, placements):
    """the history is performed before run() (placement 0) or from within an alarm callback (placement 1); then every
    descriptor receives two bytes.  The trace oracle decides: a removed watch is never called, a watch still
    registered is called (real loops: before the final alarm, 3 units later, if the loop slept in between)."""
    writes = [["write", fd, 2] for fd in range(3)]
    for loop in loops:
        for i, hist in enumerate(_watch_histories(lmin, lmax)):
            for pl in placements:
                if pl == "alt":
                    # (TrioEventLoop cannot remove anything outside run(): a known finding, so nothing is learnt there)
                    pl = 1 if loop == "trio" else i % 2
                if pl == 0:
                    setup = [*hist, *writes, ["alarm", 0, []]]
                else:
                    setup = [["alarm", 0, [[0, a] for a in [*hist, *writes]]]]
                case = {"setup": setup, "idle_edit": False, "idle_raise": False}
                if loop is None:
                    case.update(ready=[], order=i % 6, scale=1)
                else:
                    case.update(loop=loop, keeper=True)
                yield case


def _idle_table_cases(loops, sizes):
    """every idle table of n callbacks (n in sizes) x every actor - the callback of the first alarm, a watch callback,
    or idle callback number a at its first or second invocation - x every single edit of the table made by that actor:
    remove_enter_idle of callback j (any j, the actor itself included), enter_idle of a new callback, or both.  A
    second alarm 4 units later (and the harness's final alarm 3 units after that) bound the quiescent stretches in
    which the trace oracle looks: every callback registered throughout ran after the alarm / watch callback, a removed
    one did not run again."""
    for loop in loops:
        for n in sizes:
            actors = [("alarm",), ("watch",)] + [("idle", a, v) for a in range(n) for v in (0, 1)]
            for actor in actors:
                me = actor[1] if actor[0] == "idle" else None
                removals = []
                for j in range(n):
                    if j == me:
                        removals.append(["rm_idle", 0, 1])  # mode 1: the running idle callback itself
                    else:  # mode 0: the k-th registered idle callback other than the running one
                        removals.append(["rm_idle", j if me is None or j < me else j - 1, 0])
                add = ["idle", []]
                for edit in [*([r] for r in removals), [add], *([r, add] for r in removals)]:
                    at = actor[2] if actor[0] == "idle" else 0
                    script = [[at, e] for e in edit]
                    idles = [["idle", script if i == me else []] for i in range(n)]
                    if actor[0] == "alarm":
                        rest = [["alarm", 0, script], ["alarm", 4, []]]
                    elif actor[0] == "watch":
                        rest = [["watch", 0, script], ["alarm", 0, [[0, ["write", 0, 1]]]], ["alarm", 4, []]]
                    else:
                        rest = [["alarm", 0, []], ["alarm", 4, []]]
                    case = {"setup": [*idles, *rest], "idle_edit": True, "idle_raise": False}
                    if loop is None:
                        case.update(ready=[], order=0, scale=1)
                    else:
                        case.update(loop=loop, keeper=True)
                    yield case


def _exception_cases(loops):
    """every callback kind (alarm, watch, idle) x every exception kind (ExitMainLoop, an Exception subclass, SystemExit,
    KeyboardInterrupt, an application-defined BaseException subclass) x raised by the only registration there is / with
    an idle callback, a later alarm and unread data on a watched descriptor around it; an idle callback raises at its
    first / second invocation.  (Real loops: followed by a second run(), see _child_body.)"""
    for loop in loops:
        for ck in ("alarm", "watch", "idle"):
            for kind in sorted(RAISE_NAMES):
                for variant in (0, 1):
                    boom = ["raise", kind]
                    if ck == "alarm":
                        setup = [["alarm", 0, [[0, boom]]]]
                    elif ck == "watch":
                        setup = [["watch", 0, [[0, boom]]], ["write", 0, 1]]
                    else:
                        setup = [["idle", [[variant, boom]]], ["alarm", 0, []], ["alarm", 1, []]]
                    if variant and ck != "idle":
                        setup = [["idle", []], ["watch", 1, []], ["write", 1, 2], *setup, ["alarm", 1, []]]
                    case = {"setup": setup, "idle_edit": False, "idle_raise": True}
                    if loop is None:
                        case.update(ready=[], order=0, scale=1)
                    else:
                        case.update(loop=loop, keeper=True)
                    yield case


def _alarmq_sweep(nmax):
    """every registration order of n distinct due times (n <= nmax) x one removal before run()"""
    for n in range(2, nmax + 1):
        for perm in itertools.permutations(range(1, n + 1)):
            for j in range(n):
                yield {"dues": list(perm), "pre": [j], "incb": []}


# due times of one queue mix magnitudes: m seconds, or m minutes / hours / days / ... (integers: exact floats)
_due = st.one_of(
    st.integers(1, 40),
    st.integers(1, 40),
    st.builds(lambda m, u: m * u, st.integers(1, 40), st.sampled_from([u for u in TIME_UNITS if u >= 1])),
)
_alarmq_cases = st.builds(
    lambda dues, pre, incb: {"dues": dues, "pre": pre, "incb": incb},
    st.lists(_due, min_size=3, max_size=14, unique=True),
    st.lists(st.integers(0, 13), max_size=5),
    st.lists(st.tuples(st.integers(0, 13), st.integers(0, 13)).map(list), max_size=4),
)


def shard(ctx):
    # the real-time half goes first: it mostly sleeps, and must not be starved of budget by the
    # CPU-bound virtual half on a busy machine.  One campaign per loop from the same derived seed, i.e.
    # the same programs on every loop: quick 16 x 7 = 112 programs x 6 loops, thorough 16 x 125 = 2000 x 6
    _preimport()
    for name in LOOPS:
        if ctx.failure is None:
            ctx.given("real", _case(name), ctx.scale(7, 125), nontrivial=_nontrivial, classify=_classify)
    if ctx.failure is None:
        # watch-table histories on every loop: quick = every history of exactly 5 calls (243), placed alternately
        # before run() / inside an alarm callback; thorough = every history of 1..6 calls in both placements
        quick = ctx.tier == "quick"
        ctx.sweep("real", _watch_history_cases(LOOPS, 5 if quick else 1, 5 if quick else 6, ["alt"] if quick else [0, 1]),
                  nontrivial=lambda c: True, classify=lambda c: [f"real:{c['loop']}:watch-history"],
                  exhaustive_name="real loops: every watch_file/remove_watch_file history of 5 (1..6) calls over 3 descriptors")
    if ctx.failure is None:
        # idle-table edits by every kind of callback: quick = tables of 3 idle callbacks, thorough = 1..4
        ctx.sweep("real", _idle_table_cases(LOOPS, [3] if quick else [1, 2, 3, 4]),
                  nontrivial=lambda c: True, classify=lambda c: [f"real:{c['loop']}:idle-table-edit"],
                  exhaustive_name="real loops: idle table of 3 (1..4) callbacks x actor (alarm / watch / idle callback a at "
                                  "invocation 0|1) x edit (remove j / add / remove j + add)")
    if ctx.failure is None:
        ctx.sweep("real", _exception_cases(LOOPS),
                  nontrivial=lambda c: True, classify=lambda c: [f"real:{c['loop']}:exception-matrix"],
                  exhaustive_name="real loops: callback kind (3) x exception kind (5) x context (2)")
    if ctx.failure is None:
        ctx.sweep("virtual", itertools.chain(_idle_table_cases([None], [1, 2, 3, 4]), _exception_cases([None])),
                  nontrivial=lambda c: True, classify=lambda c: ["virtual:idle-table-edit/exception-matrix"],
                  exhaustive_name="virtual: idle table of 1..4 callbacks x actor x edit; callback kind x exception kind x context")
    if ctx.failure is None:
        ctx.sweep("virtual", _watch_history_cases([None], 1, 6, [0, 1]),
                  nontrivial=lambda c: True, classify=lambda c: ["virtual:watch-history"],
                  exhaustive_name="virtual: every watch_file/remove_watch_file history of 1..6 calls x 2 placements")
    if ctx.failure is None:
        ctx.given("virtual", _case(None), ctx.scale(500, 15000), nontrivial=_nontrivial, classify=_classify)
    if ctx.failure is None:
        ctx.sweep("virtual", _handover_sweep(), nontrivial=lambda c: True, classify=lambda c: ["virtual:handover-sweep"],
                  exhaustive_name="watch hand-over inside one ready batch (7 x 7 scripts x 2 orders x 2)")
    if ctx.failure is None:
        ctx.sweep("alarmq", _alarmq_sweep(ctx.scale(7, 8)), nontrivial=lambda c: len(c["dues"]) >= 4,
                  exhaustive_name="alarm queue: every registration order of <=7 (8) due times x one removal")
    if ctx.failure is None:
        ctx.given("alarmq", _alarmq_cases, ctx.scale(400, 8000), nontrivial=lambda c: bool(c["pre"] or c["incb"]))
    for k, v in sorted(_STATS.items()):
        ctx.count(k, v)


# ---------------------------------------------------------------------------------------------
# known findings (active only if listed in known_findings.d/C13.json with status "known")

def _has(case, ctx_kind, action_kind):
    return any(ctx == ctx_kind and a[0] == action_kind for ctx, a in walk(case))


def _loop_of(sub, case):
    return "select" if sub == "virtual" else case.get("loop")


def _known_select_stale_batch(sub, case, v):
    # SelectEventLoop._loop iterates the ready batch returned by select() without re-checking
    # _watch_files: a watch removed by an earlier callback of the same batch is still called
    return (
        v.clause == "watch-after-remove"
        and _loop_of(sub, case) == "select"
        and (_has(case, "watch", "rm_watch"))
    )


def _known_zmq_empty_poller(sub, case, v):
    # zmq.Poller.poll() with nothing registered returns immediately whatever the timeout:
    # ZMQEventLoop._loop then takes "nothing ready" for "timeout expired" and runs the alarm
    return (
        _loop_of(sub, case) == "zmq"
        and v.clause == "alarm-early"
        and "(no descriptor was being watched)" in v.message
    )


def _known_trio_remove_outside_run(sub, case, v):
    return (
        _loop_of(sub, case) == "trio"
        and v.clause == "api-exception"
        and "trio_loop.py:_cancel_scope" in v.message
        and "async context" in v.message
    )


def _known_idle_exception_swallowed(loop):
    def pred(sub, case, v):
        return (
            _loop_of(sub, case) == loop
            and v.clause == "exception-swallowed"
            and re.search(r"callback raised I\d+#", v.message) is not None
            and _has(case, "idle", "raise")
        )

    return pred


def _known_trio_alarm_order(sub, case, v):
    # trio wakes every task whose deadline has passed in one batch and runs the batch in
    # arbitrary (randomised) order; _alarm_task has no ordering of its own
    return _loop_of(sub, case) == "trio" and v.clause == "alarm-order"


def _known_zmq_stale_batch(sub, case, v):
    # same stale-batch pattern as SelectEventLoop, but the removed descriptor is looked up in
    # _queue_callbacks, so the symptom is a KeyError escaping from run()
    return (
        _loop_of(sub, case) == "zmq"
        and v.clause == "spurious-exception"
        and "!KeyError@event_loop/zmq_loop.py:_loop" in v.message
        and _has(case, "watch", "rm_watch")
    )


def _known_trio_watch_after_remove(sub, case, v):
    # _watch_task checks scope.cancel_called only before wait_readable(), not between its return
    # and callback(): a task that is already runnable when its scope is cancelled calls back once more
    return _loop_of(sub, case) == "trio" and v.clause == "watch-after-remove"


def _known_idle_table_edit(sub, case, v):
    # _entering_idle / _twisted_idle_callback / the trio instrument iterate the live
    # _idle_callbacks dict: an idle callback that calls enter_idle / remove_enter_idle (e.g. a
    # one-shot idle callback removing itself) makes the iteration raise RuntimeError
    edits = _has(case, "idle", "idle") or _has(case, "idle", "rm_idle")
    loop = _loop_of(sub, case)
    if v.clause == "spurious-exception":
        return (
            edits
            and loop != "zmq"
            and "RuntimeError" in v.message
            and "dictionary changed size during iteration" in v.message
        )
    # tornado and trio log and swallow the RuntimeError: the rest of that idle pass (trio: every
    # later idle pass as well) is lost, which shows as idle callbacks not run before the loop sleeps
    return edits and loop in ("tornado", "trio") and v.clause == "idle-skipped"


def _known_tornado_baseexception_swallowed(sub, case, v):
    # TornadoEventLoop.handle_exit has `except Exception`: anything else escapes into asyncio's Handle._run, which
    # lets SystemExit / KeyboardInterrupt through (they end IOLoop.start(), so run() does raise them) and hands every
    # other BaseException to the loop's exception handler (logged), after which the loop keeps running
    return (
        _loop_of(sub, case) == "tornado"
        and v.clause == "exception-swallowed"
        and re.search(r"callback raised Abort:[AWI]\d+#", v.message) is not None
    )


KNOWN = {
    "C13-tornado-baseexception-swallowed": _known_tornado_baseexception_swallowed,
    "C13-select-stale-ready-batch": _known_select_stale_batch,
    "C13-idle-table-edit": _known_idle_table_edit,
    "C13-zmq-empty-poller-early-alarm": _known_zmq_empty_poller,
    "C13-trio-remove-outside-run": _known_trio_remove_outside_run,
    "C13-tornado-idle-exception-swallowed": _known_idle_exception_swallowed("tornado"),
    "C13-trio-idle-exception-swallowed": _known_idle_exception_swallowed("trio"),
    "C13-trio-alarm-order": _known_trio_alarm_order,
    "C13-zmq-stale-ready-batch": _known_zmq_stale_batch,
    "C13-trio-watch-after-remove": _known_trio_watch_after_remove,
}
